"""Fail-closed translator: operations/gates.py + operations/gateclass.py  ->  coq/Gen/Gates.v

Walks the Python `ast` only; emits Coq syntax trees of `Found.Sym.ex` / `mexp`; evaluates nothing.
Any node outside the accepted subset raises Broken("translator:<file>:<function>", detail).
Emitted:
  fn_<name>      : mexp   for every gate function of gates.py that can be translated (params = Var 0..)
  gates_fn       : list (string * mexp)       all of the above, by function name
  dispatch       : list (string * mexp)       Gate.get_compact_qobj name chain (arg_value = Var 0..)
  class_mat      : list (string * mexp)       per class with get_compact_qobj (arg_value = Var 0..)
  class_map      : list (string * string)     GATE_CLASS_MAP  name -> class
  globalphase_ex : ex                         scalar factor of globalphase(theta)
"""
import ast
import os
from fractions import Fraction

import sys
sys.path.insert(0, os.path.dirname(os.path.dirname(os.path.abspath(__file__))))
from common import Broken, PKG, COQ, write_if_changed  # noqa: E402


class Refuse(Exception):
    pass


def q(x):
    fr = Fraction(x)
    n, d = fr.numerator, fr.denominator
    return f"(({n}) # {d})" if n < 0 else f"({n} # {d})"


QUTIP_CONST = {
    "sigmax": "MLit [[Num 0; Num 1]; [Num 1; Num 0]]",
    "sigmay": "MLit [[Num 0; Imag (-1)]; [Imag 1; Num 0]]",
    "sigmaz": "MLit [[Num 1; Num 0]; [Num 0; Neg (Num 1)]]",
}


class Tr:
    def __init__(self, fn_arity):
        self.fn_arity = fn_arity  # gate function name -> number of parameters (None = not translated)
        self.expansions = {}      # gate function name -> mexp text of the operator its N-expansion branch embeds (or None)
        self.current = None       # (name, arity) of the function being translated: its expansion branch calls itself
        self.module_env = {}      # module-level scalar constants (name -> translated expression), bound exactly once

    # ---- scalars --------------------------------------------------------------------------
    def ex(self, n, env):
        if isinstance(n, ast.Constant):
            v = n.value
            if isinstance(v, bool):
                raise Refuse("bool constant")
            if isinstance(v, (int, float)):
                return f"Num {q(v)}"
            if isinstance(v, complex) and v.real == 0:
                return f"Imag {q(v.imag)}"
            raise Refuse(f"constant {v!r}")
        if isinstance(n, ast.Name):
            if n.id in env:
                return env[n.id]
            raise Refuse(f"unbound name {n.id}")
        if isinstance(n, ast.Attribute):
            if ast.unparse(n) in ("np.pi", "numpy.pi", "math.pi"):
                return "Pi"
            if ast.unparse(n) == "self.arg_value":
                return "Var 0"
            raise Refuse(f"attribute {ast.unparse(n)}")
        if isinstance(n, ast.UnaryOp) and isinstance(n.op, ast.USub):
            return f"Neg ({self.ex(n.operand, env)})"
        if isinstance(n, ast.UnaryOp) and isinstance(n.op, ast.UAdd):
            return self.ex(n.operand, env)
        if isinstance(n, ast.BinOp):
            ops = {ast.Add: "Add", ast.Sub: "Sub", ast.Mult: "Mul", ast.Div: "Div"}
            for k, v in ops.items():
                if isinstance(n.op, k):
                    return f"{v} ({self.ex(n.left, env)}) ({self.ex(n.right, env)})"
            raise Refuse(f"operator {type(n.op).__name__}")
        if isinstance(n, ast.Call):
            f = ast.unparse(n.func)
            fmap = {"np.cos": "Cos", "np.sin": "Sin", "np.exp": "Exp", "np.sqrt": "Sqrt",
                    "numpy.cos": "Cos", "numpy.sin": "Sin", "numpy.exp": "Exp", "numpy.sqrt": "Sqrt"}
            if f in fmap and len(n.args) == 1 and not n.keywords:
                return f"{fmap[f]} ({self.ex(n.args[0], env)})"
            raise Refuse(f"scalar call {f}")
        raise Refuse(f"scalar node {type(n).__name__}")

    # ---- matrices -------------------------------------------------------------------------
    def is_matrix(self, n):
        if isinstance(n, ast.Call):
            f = ast.unparse(n.func)
            base = f.split(".")[-1]
            if f in ("Qobj", "np.array", "controlled_gate", "qeye", "identity") or base in QUTIP_CONST:
                return True
            if f in self.fn_arity:
                return True
            if isinstance(n.func, ast.Attribute) and n.func.attr in ("tidyup", "get_compact_qobj"):
                return True
            return False
        if isinstance(n, ast.BinOp) and isinstance(n.op, ast.Mult):
            return self.is_matrix(n.left) or self.is_matrix(n.right)
        if isinstance(n, ast.List):
            return True
        return False

    def call_args(self, n, env):
        """argument expressions of a call to a translated gate function"""
        out = []
        for a in n.args:
            if isinstance(a, ast.Starred):
                if ast.unparse(a.value) != "self.arg_value":
                    raise Refuse("starred argument")
                out.append(None)  # expands to all remaining parameters
            elif ast.unparse(a) == "self.arg_value":
                out.append(None)
            elif isinstance(a, ast.List):
                out += [self.ex(e, env) for e in a.elts]
            else:
                out.append(self.ex(a, env))
        if n.keywords:
            raise Refuse("keyword arguments in gate-function call")
        return out

    def mat(self, n, env):
        if isinstance(n, ast.List):
            rows = []
            for r in n.elts:
                if not isinstance(r, ast.List):
                    raise Refuse("matrix literal row is not a list")
                rows.append("[" + "; ".join(self.ex(e, env) for e in r.elts) + "]")
            return "MLit [" + "; ".join(rows) + "]"
        if isinstance(n, ast.BinOp) and isinstance(n.op, ast.Mult):
            lm, rm = self.is_matrix(n.left), self.is_matrix(n.right)
            if lm and rm:
                return f"MMul ({self.mat(n.left, env)}) ({self.mat(n.right, env)})"
            if rm:
                return f"MScale ({self.ex(n.left, env)}) ({self.mat(n.right, env)})"
            if lm:
                return f"MScale ({self.ex(n.right, env)}) ({self.mat(n.left, env)})"
            raise Refuse("product without a matrix operand")
        if isinstance(n, ast.IfExp):
            a, b = self.mat(n.body, env), self.mat(n.orelse, env)
            if a != b:
                raise Refuse("conditional expression with different branches")
            return a
        if isinstance(n, ast.Call):
            f = ast.unparse(n.func)
            base = f.split(".")[-1]
            if isinstance(n.func, ast.Attribute) and n.func.attr == "tidyup" and not n.args:
                return self.mat(n.func.value, env)  # numerical clean-up only
            if f in ("Qobj", "np.array"):
                for k in n.keywords:
                    if k.arg != "dims":
                        raise Refuse(f"Qobj keyword {k.arg}")
                if len(n.args) != 1:
                    raise Refuse("Qobj arity")
                return self.mat(n.args[0], env)
            if base in QUTIP_CONST and f in (base, "qutip." + base):
                for k in n.keywords:
                    if k.arg != "dtype":
                        raise Refuse("qutip constant keyword")
                if n.args:
                    raise Refuse("qutip constant args")
                return QUTIP_CONST[base]
            if f == "qeye" and len(n.args) == 1 and isinstance(n.args[0], ast.Constant) and n.args[0].value == 2:
                return "MLit [[Num 1; Num 0]; [Num 0; Num 1]]"
            if f == "controlled_gate":
                if len(n.args) != 1 or n.keywords:
                    raise Refuse("controlled_gate with non-default arguments")
                return f"MCtrl 1 1 ({self.mat(n.args[0], env)})"
            if f in self.fn_arity:
                ar = self.fn_arity[f]
                if ar is None and self.current and self.current[0] == f:
                    ar = self.current[1]
                if ar is None:
                    raise Refuse(f"call of untranslated gate function {f}")
                args = self.call_args(n, env)
                if None in args:
                    if args != [None]:
                        raise Refuse("mixed arg_value call")
                    args = [f"Var {j}" for j in range(ar)]
                if len(args) != ar:
                    raise Refuse(f"{f} expects {ar} parameters, got {len(args)}")
                if ar == 0:
                    return f"fn_{f}"
                return f"msubst [{'; '.join(args)}] fn_{f}"
            raise Refuse(f"matrix call {f}")
        raise Refuse(f"matrix node {type(n).__name__}")


def strip_doc(body):
    if body and isinstance(body[0], ast.Expr) and isinstance(body[0].value, ast.Constant) and isinstance(body[0].value.value, str):
        return body[1:]
    return body


_UNUSED_CPHASE_TEMPLATE = (
    "U_list1 = [identity(2)] * N\n"
    "U_list2 = [identity(2)] * N\n"
    "U_list1[control] = fock_dm(2, 1)\n"
    "U_list1[target] = phasegate(theta)\n"
    "U_list2[control] = fock_dm(2, 0)\n"
    "U = tensor(U_list1) + tensor(U_list2)\n"
    "return U"
)


def _recognise_cphase(stmts, params):
    """-> control value (0/1) of the controlled-phase construction, or Refuse"""
    lists = {}     # local list name -> {index name: expression text}
    result = None
    theta, npar, control, target = params[0], params[1], params[2], params[3]

    def tensor_sum(node):
        if isinstance(node, ast.BinOp) and isinstance(node.op, ast.Add):
            out = []
            for side in (node.left, node.right):
                if isinstance(side, ast.Call) and ast.unparse(side.func) == "tensor" and len(side.args) == 1 \
                        and isinstance(side.args[0], ast.Name) and not side.keywords:
                    out.append(side.args[0].id)
                else:
                    return None
            return out
        return None

    for st in stmts:
        if isinstance(st, ast.Assign) and len(st.targets) == 1:
            tgt = st.targets[0]
            if isinstance(tgt, ast.Name) and ast.unparse(st.value) == f"[identity(2)] * {npar}":
                lists[tgt.id] = {}
                continue
            if isinstance(tgt, ast.Subscript) and isinstance(tgt.value, ast.Name) and tgt.value.id in lists \
                    and isinstance(tgt.slice, ast.Name) and tgt.slice.id in (control, target):
                if tgt.slice.id in lists[tgt.value.id]:
                    raise Refuse("cphase: element assigned twice")
                lists[tgt.value.id][tgt.slice.id] = ast.unparse(st.value)
                continue
            if isinstance(tgt, ast.Name) and tensor_sum(st.value):
                result = (tgt.id, tensor_sum(st.value))
                continue
            raise Refuse("cphase: unrecognised statement " + ast.unparse(st)[:60])
        if isinstance(st, ast.Return):
            if isinstance(st.value, ast.Name) and result and st.value.id == result[0]:
                used = result[1]
            elif tensor_sum(st.value):
                used = tensor_sum(st.value)
            else:
                raise Refuse("cphase: unrecognised return")
            if sorted(used) != sorted(lists) or len(lists) != 2:
                raise Refuse("cphase: the sum does not use exactly the two factor lists")
            on = [n for n, d in lists.items() if d.get(target) == f"phasegate({theta})"]
            off = [n for n, d in lists.items() if target not in d]
            if len(on) != 1 or len(off) != 1:
                raise Refuse("cphase: phase factor placement not recognised")
            proj_on, proj_off = lists[on[0]].get(control), lists[off[0]].get(control)
            if (proj_on, proj_off) == ("fock_dm(2, 1)", "fock_dm(2, 0)"):
                return 1
            if (proj_on, proj_off) == ("fock_dm(2, 0)", "fock_dm(2, 1)"):
                return 0
            raise Refuse("cphase: control projectors not recognised")
        raise Refuse("cphase: unrecognised statement " + ast.unparse(st)[:60])
    raise Refuse("cphase: no return")


class _Norm(ast.NodeTransformer):
    """equivalent spellings -> one form, before a template comparison"""
    def visit_List(self, node):
        self.generic_visit(node)
        if len(node.elts) == 1 and isinstance(node.elts[0], ast.Starred):
            return ast.Call(func=ast.Name(id="list", ctx=ast.Load()), args=[node.elts[0].value], keywords=[])
        return node


def _canon(node):
    return ast.unparse(_Norm().visit(ast.parse(ast.unparse(node))))


def translate_function(fd, tr):
    """-> (arity, coq mexp text) or raises Refuse"""
    body = strip_doc(fd.body)
    params = [a.arg for a in fd.args.args]
    defaults = fd.args.defaults
    # gate parameters = leading positional parameters before N / target / control(s)
    gate_params = []
    for p in params:
        if p in ("N", "target", "targets", "control", "controls", "control_value"):
            break
        gate_params.append(p)
    env = dict(tr.module_env)
    if fd.name == "cphase":
        # validation ifs, then the tensor construction  |v><v| (x) phasegate(theta) + |1-v><1-v| (x) 1  on (control, target);
        # recognised by data flow (any statement order, any local names), not by text
        rest = [b for b in body if not isinstance(b, ast.If)]
        cv = _recognise_cphase(rest, params)
        dflt = [ast.unparse(d) for d in defaults]
        if params[:4] != ["theta", "N", "control", "target"] or dflt != ["2", "0", "1"]:
            raise Refuse("cphase signature/defaults changed")
        return 1, f"MCtrl 1 {cv} (msubst [Var 0] fn_phasegate)"
    for p in params:
        env.pop(p, None)          # parameters shadow module-level names
    for j, p in enumerate(gate_params):
        env[p] = f"Var {j}"
    arity = len(gate_params)
    stmts = list(body)
    expansion = None
    # tuple-unpacking of a single `args` parameter
    if stmts and isinstance(stmts[0], ast.Assign) and isinstance(stmts[0].targets[0], ast.Tuple) \
            and isinstance(stmts[0].value, ast.Name) and stmts[0].value.id in env and arity == 1:
        names = [e.id for e in stmts[0].targets[0].elts]
        env = dict(tr.module_env, **{nm: f"Var {j}" for j, nm in enumerate(names)})
        arity = len(names)
        stmts = stmts[1:]
    tr.current = (fd.name, arity)
    # deprecated expansion branches: `if <placement test> and N is None: N = k` and `if N is not None: ... return expand_operator(...)`;
    # local scalar temporaries (`c = np.cos(..)`, `a, b = e1, e2`) are bound in a block-scoped environment: each name
    # may be bound once and stands for its (already translated) expression
    def bind(name, value_node):
        if name in env or name in params:
            raise Refuse(f"local name {name} bound twice / shadows a parameter")
        env[name] = "(" + tr.ex(value_node, env) + ")"

    while stmts and isinstance(stmts[0], (ast.If, ast.Assign)):
        s = stmts[0]
        txt = ast.unparse(s)
        if isinstance(s, ast.Assign):
            if len(s.targets) != 1:
                raise Refuse("chained assignment")
            tg = s.targets[0]
            if isinstance(tg, ast.Name):
                bind(tg.id, s.value)
            elif isinstance(tg, ast.Tuple) and isinstance(s.value, ast.Tuple) and len(tg.elts) == len(s.value.elts) \
                    and all(isinstance(e, ast.Name) for e in tg.elts):
                texts = [tr.ex(v, env) for v in s.value.elts]   # right-hand sides are evaluated before any binding
                for e, tx in zip(tg.elts, texts):
                    if e.id in env or e.id in params:
                        raise Refuse(f"local name {e.id} bound twice / shadows a parameter")
                    env[e.id] = "(" + tx + ")"
            else:
                raise Refuse("unrecognised assignment: " + txt[:80])
            stmts = stmts[1:]
            continue
        if "N is None" in ast.unparse(s.test) and len(s.body) == 1 and isinstance(s.body[0], ast.Assign) \
                and ast.unparse(s.body[0].targets[0]) == "N" and not s.orelse:
            stmts = stmts[1:]
            continue
        if ast.unparse(s.test) == "N is not None" and not s.orelse and isinstance(s.body[-1], ast.Return) \
                and "expand_operator(" in ast.unparse(s.body[-1]):
            # the operator handed to expand_operator must be the gate itself: it is translated like the main return and
            # compared with it inside Coq (obligation chk_expansions); the placement arguments are tied numerically
            rv = s.body[-1].value
            if not (isinstance(rv, ast.Call) and ast.unparse(rv.func) == "expand_operator" and rv.args):
                raise Refuse("expansion branch does not return expand_operator(<gate>, ...)")
            for b in s.body[:-1]:
                if not (isinstance(b, ast.Expr) and isinstance(b.value, ast.Call)
                        and ast.unparse(b.value.func) == "_deprecation_warnings_gate_expansion"):
                    raise Refuse("expansion branch: unexpected statement " + ast.unparse(b)[:60])
            expansion = tr.mat(rv.args[0], env)
            stmts = stmts[1:]
            continue
        raise Refuse("unrecognised if-statement: " + txt[:80])
    if len(stmts) != 1 or not isinstance(stmts[0], ast.Return):
        raise Refuse("body is not a single return of a matrix expression")
    if "N" in params and expansion is None:
        raise Refuse("the function takes N but no `if N is not None: return expand_operator(...)` branch was recognised")
    tr.expansions[fd.name] = expansion
    return arity, tr.mat(stmts[0].value, env)


def generate():
    gpath = os.path.join(PKG, "operations", "gates.py")
    cpath = os.path.join(PKG, "operations", "gateclass.py")
    try:
        gt = ast.parse(open(gpath).read())
        ct = ast.parse(open(cpath).read())
    except SyntaxError as e:
        raise Broken("translator:parse", str(e))
    funcs = {n.name: n for n in gt.body if isinstance(n, ast.FunctionDef)}
    # pass 1: arities of candidate gate functions (so calls between them resolve)
    fn_arity = {}
    tr = Tr(fn_arity)
    # module-level scalar constants (`_EXP_I_PI_4 = np.exp(1j * np.pi / 4)`): usable inside the gate functions; a name
    # assigned more than once at module level, or whose value is not a closed scalar expression, is simply not bound
    seen = {}
    for n in gt.body:
        tgs = []
        if isinstance(n, ast.Assign):
            tgs = [x.id for x in n.targets if isinstance(x, ast.Name)]
        elif isinstance(n, (ast.AnnAssign, ast.AugAssign)) and isinstance(n.target, ast.Name):
            tgs = [n.target.id]
        for nm in tgs:
            seen[nm] = seen.get(nm, 0) + 1
    for n in gt.body:
        if isinstance(n, ast.Assign) and len(n.targets) == 1 and isinstance(n.targets[0], ast.Name) \
                and seen.get(n.targets[0].id) == 1 and n.targets[0].id not in funcs:
            try:
                tr.module_env[n.targets[0].id] = "(" + tr.ex(n.value, {}) + ")"
            except Refuse:
                pass
    order = list(funcs)
    results = {}
    refused = {}
    for _ in range(3):  # calls may refer to later definitions
        for name in order:
            if name in results:
                continue
            fd = funcs[name]
            fn_arity.setdefault(name, None)
            try:
                ar, txt = translate_function(fd, tr)
                results[name] = (ar, txt)
                fn_arity[name] = ar
                refused.pop(name, None)
            except Refuse as r:
                refused[name] = str(r)
    # global phase scalar
    gp = funcs.get("globalphase")
    gp_ex = None
    if gp is not None:
        b = strip_doc(gp.body)
        try:
            if len(b) == 2 and isinstance(b[0], ast.Assign) and isinstance(b[0].value, ast.BinOp) \
                    and isinstance(b[0].value.op, ast.Mult) and ast.unparse(b[0].value.right).startswith("sp.eye(2 ** N, 2 ** N") \
                    and len(b[0].targets) == 1 and isinstance(b[0].targets[0], ast.Name) \
                    and ast.unparse(b[1]) == f"return Qobj({b[0].targets[0].id}, dims=[[2] * N, [2] * N])":
                gp_ex = tr.ex(b[0].value.left, dict(tr.module_env, theta="Var 0"))
            elif len(b) == 1 and isinstance(b[0], ast.Return) and isinstance(b[0].value, ast.Call) \
                    and ast.unparse(b[0].value.func) == "Qobj" and len(b[0].value.args) == 1 \
                    and isinstance(b[0].value.args[0], ast.BinOp) and isinstance(b[0].value.args[0].op, ast.Mult) \
                    and ast.unparse(b[0].value.args[0].right).startswith("sp.eye(2 ** N, 2 ** N") \
                    and [ast.unparse(k.value) for k in b[0].value.keywords if k.arg == "dims"] == ["[[2] * N, [2] * N]"]:
                gp_ex = tr.ex(b[0].value.args[0].left, dict(tr.module_env, theta="Var 0"))
        except Refuse as r:
            refused["globalphase"] = str(r)
    if gp_ex is None:
        raise Broken("translator:gates.py:globalphase", refused.get("globalphase", "shape not recognised"))

    # dispatch chain of Gate.get_compact_qobj
    gate_cls = next((n for n in ct.body if isinstance(n, ast.ClassDef) and n.name == "Gate"), None)
    if gate_cls is None:
        raise Broken("translator:gateclass.py:Gate", "class Gate not found")
    meth = next((n for n in gate_cls.body if isinstance(n, ast.FunctionDef) and n.name == "get_compact_qobj"), None)
    if meth is None:
        raise Broken("translator:gateclass.py:Gate.get_compact_qobj", "method not found")
    body = strip_doc(meth.body)
    if len(body) != 2 or not isinstance(body[0], ast.If) or ast.unparse(body[1]) != "return qobj":
        raise Broken("translator:gateclass.py:Gate.get_compact_qobj", "not an if/elif chain followed by `return qobj`")
    dispatch = []
    node = body[0]
    need = set()
    while True:
        t = node.test
        if not (isinstance(t, ast.Compare) and ast.unparse(t.left) == "self.name" and len(t.ops) == 1
                and isinstance(t.ops[0], ast.Eq) and isinstance(t.comparators[0], ast.Constant)):
            raise Broken("translator:gateclass.py:Gate.get_compact_qobj", "test is not self.name == <str>: " + ast.unparse(t))
        gname = t.comparators[0].value
        if len(node.body) == 1 and isinstance(node.body[0], ast.Raise):
            pass  # GLOBALPHASE: no compact form
        elif len(node.body) == 1 and isinstance(node.body[0], ast.Assign) and ast.unparse(node.body[0].targets[0]) == "qobj":
            try:
                dispatch.append((gname, tr.mat(node.body[0].value, {})))
            except Refuse as r:
                raise Broken(f"translator:gateclass.py:dispatch:{gname}", str(r) + " | " + "; ".join(f"{k}: {v}" for k, v in refused.items() if k in ast.unparse(node.body[0].value)))
        else:
            raise Broken("translator:gateclass.py:Gate.get_compact_qobj", f"branch {gname} has unexpected shape")
        if len(node.orelse) == 1 and isinstance(node.orelse[0], ast.If):
            node = node.orelse[0]
        elif len(node.orelse) == 1 and isinstance(node.orelse[0], ast.Raise):
            break
        else:
            raise Broken("translator:gateclass.py:Gate.get_compact_qobj", "chain does not end in raise")

    # classes
    class_mat = {}
    classes = {n.name: n for n in ct.body if isinstance(n, ast.ClassDef)}
    ctrl_template_ok = False
    for cname, cd in classes.items():
        m = next((n for n in cd.body if isinstance(n, ast.FunctionDef) and n.name == "get_compact_qobj"), None)
        if m is None or cname == "Gate":
            continue
        b = strip_doc(m.body)
        env = {}
        if b and isinstance(b[0], ast.Assign) and ast.unparse(b[0].value) == "self.arg_value" and isinstance(b[0].targets[0], ast.Name):
            env[b[0].targets[0].id] = "Var 0"
            b = b[1:]
        if cname == "ControlledGate":
            want = ("return controlled_gate(U=self.target_gate(targets=self.targets, **self.kwargs).get_compact_qobj(), "
                    "controls=list(range(len(self.controls))), targets=list(range(len(self.controls), "
                    "len(self.targets) + len(self.controls))), control_value=self.control_value)")
            if len(b) == 1 and _canon(b[0]) == _canon(ast.parse(want).body[0]):
                ctrl_template_ok = True
                continue
            raise Broken("translator:gateclass.py:ControlledGate.get_compact_qobj", "differs from the recognised controlled-gate construction")
        if len(b) != 1 or not isinstance(b[0], ast.Return):
            raise Broken(f"translator:gateclass.py:{cname}.get_compact_qobj", "not a single return")
        try:
            class_mat[cname] = tr.mat(b[0].value, env)
        except Refuse as r:
            raise Broken(f"translator:gateclass.py:{cname}.get_compact_qobj", str(r))
    # partial(_OneControlledGate, target_gate=RX)
    for n in ct.body:
        if isinstance(n, ast.Assign) and isinstance(n.value, ast.Call) and ast.unparse(n.value.func) == "partial":
            a = n.value
            if len(a.args) == 1 and ast.unparse(a.args[0]) == "_OneControlledGate" and len(a.keywords) == 1 \
                    and a.keywords[0].arg == "target_gate" and isinstance(a.keywords[0].value, ast.Name):
                tg = a.keywords[0].value.id
                if not ctrl_template_ok:
                    raise Broken("translator:gateclass.py:ControlledGate", "generic controlled construction not recognised")
                if tg not in class_mat:
                    raise Broken(f"translator:gateclass.py:{ast.unparse(n.targets[0])}", f"target class {tg} has no matrix")
                class_mat[ast.unparse(n.targets[0])] = f"MCtrl 1 1 ({class_mat[tg]})"
            else:
                raise Broken("translator:gateclass.py:partial", "unrecognised partial: " + ast.unparse(n)[:80])
    # plain aliases  SNOT = H
    for n in ct.body:
        if isinstance(n, ast.Assign) and isinstance(n.value, ast.Name) and isinstance(n.targets[0], ast.Name) \
                and n.value.id in class_mat:
            class_mat[n.targets[0].id] = class_mat[n.value.id]
    # subclasses inheriting get_compact_qobj by plain inheritance (e.g. SNOT(H))
    for cname, cd in classes.items():
        if cname in class_mat:
            continue
        for base in cd.bases:
            bname = ast.unparse(base)
            if bname in class_mat and not any(isinstance(x, ast.FunctionDef) and x.name == "get_compact_qobj" for x in cd.body):
                class_mat[cname] = class_mat[bname]
    # GATE_CLASS_MAP
    cmap = []
    for n in ct.body:
        if isinstance(n, ast.Assign) and ast.unparse(n.targets[0]) == "GATE_CLASS_MAP":
            if not isinstance(n.value, ast.Dict):
                raise Broken("translator:gateclass.py:GATE_CLASS_MAP", "not a dict literal")
            seen = {}
            for k, v in zip(n.value.keys, n.value.values):
                if not (isinstance(k, ast.Constant) and isinstance(v, ast.Name)):
                    raise Broken("translator:gateclass.py:GATE_CLASS_MAP", "entry is not str: Name")
                seen[k.value] = v.id  # later duplicates win, as in Python
            cmap = list(seen.items())
    if not cmap:
        raise Broken("translator:gateclass.py:GATE_CLASS_MAP", "not found")
    for gname, cname in cmap:
        if cname not in class_mat:
            raise Broken(f"translator:gateclass.py:class:{cname}", "class in GATE_CLASS_MAP has no translatable get_compact_qobj")

    # emit, in dependency order (functions that call others come later)
    out = ["(* GENERATED by tools/translate/gates_tr.py from operations/gates.py and operations/gateclass.py - do not edit *)",
           "From QV Require Import Found.Sym.", "Local Open Scope Q_scope.", "Local Open Scope string_scope.", ""]
    emitted = set()
    pending = dict(results)
    for _ in range(len(pending) + 1):
        for name, (ar, txt) in list(pending.items()):
            deps = {w[3:] for w in __import__("re").findall(r"fn_\w+", txt)}
            if deps <= emitted:
                out.append(f"Definition fn_{name} : mexp := {txt}.")
                emitted.add(name)
                del pending[name]
    if pending:
        raise Broken("translator:gates.py", "cyclic gate-function definitions: " + ", ".join(pending))
    out.append("")
    out.append("Definition gates_fn : list (string * (nat * mexp)) := [" +
               "; ".join(f'("{n}", ({results[n][0]}%nat, fn_{n}))' for n in results if n in emitted) + "].")
    out.append("Definition dispatch : list (string * mexp) := [" + ";\n  ".join(f'("{g}", {t})' for g, t in dispatch) + "].")
    out.append("Definition class_mat : list (string * mexp) := [" + ";\n  ".join(f'("{c}", {t})' for c, t in class_mat.items()) + "].")
    out.append("Definition class_map : list (string * string) := [" + "; ".join(f'("{g}", "{c}")' for g, c in cmap) + "].")
    out.append(f"Definition globalphase_ex : ex := {gp_ex}.")
    out.append("(* operator embedded by the deprecated N/target expansion branch of a gate function, with the function's own matrix *)")
    out.append("Definition expansions : list (string * (mexp * mexp)) := [" +
               ";\n  ".join(f'("{n}", ({tr.expansions[n]}, fn_{n}))' for n in results
                            if n in emitted and tr.expansions.get(n)) + "].")
    text = "\n".join(out) + "\n"
    write_if_changed(os.path.join(COQ, "Gen", "Gates.v"), text)
    return dict(functions=sorted(emitted), refused=refused, dispatch=[g for g, _ in dispatch], classes=sorted(class_mat), class_map=cmap)


if __name__ == "__main__":
    import json
    print(json.dumps(generate(), indent=1))
