"""Fail-closed translator: qutip_qip/noise.py (class RelaxationNoise)  ->  coq/Gen/Noise.v

Walks the Python `ast` only and emits SYNTAX TREES of the languages of coq/Model/Relax.v (nex / cnd / stmt /
gex).  The only evaluation it performs is exact rational folding of sub-expressions that consist of numeric LITERALS
only (`1.0 / 2.0` and `0.5` both become `ENum (1 # 2)`; a literal division by zero is never folded), which is what
the exact-rational model would compute anyway.  Equivalent control-flow shapes are normalised before matching
(if/elif/else vs early return, conditional expression vs if/else assignment, `not`/De Morgan through the cnd/gex
constructors, `x > y` vs `y < x`), local temporaries are resolved through an environment (operator variables,
sqrt-valued scalar temporaries, `d = dims[q]`).  Any node outside the accepted subset raises
Broken("translator:noise.py:<function>", detail).

Emitted:
  ttl_rules      : list (gex * tact)   the if/elif/else chain of RelaxationNoise._T_to_list
  relax_lencheck : bool                whether get_noisy_pulses re-checks len(t1), len(t2) against N
  relax_body     : stmt                body of `for qu_ind in targets:` of RelaxationNoise.get_noisy_pulses
                                       (slot 0 = self.t1[qu_ind], slot 1 = self.t2[qu_ind], 2.. = locals)
"""
import ast
import os
import sys
from fractions import Fraction

sys.path.insert(0, os.path.dirname(os.path.dirname(os.path.abspath(__file__))))
from common import Broken, PKG, COQ, write_if_changed  # noqa: E402


class Refuse(Exception):
    pass


def q(x):
    fr = Fraction(x)
    n, d = fr.numerator, fr.denominator
    return f"(({n}) # {d})" if n < 0 else f"({n} # {d})"


def _is_name(n, name):
    return isinstance(n, ast.Name) and n.id == name


def _is_self_attr(n, attr=None):
    return (isinstance(n, ast.Attribute) and _is_name(n.value, "self") and (attr is None or n.attr == attr))


# ------------------------------------------------------------------------------------------------
# _T_to_list
# ------------------------------------------------------------------------------------------------
class Guards:
    def __init__(self, tname, nname):
        self.tname, self.nname = tname, nname

    def g(self, n, subj):
        """guard expression over the subject variable `subj`"""
        if isinstance(n, ast.BoolOp):
            op = "GAnd" if isinstance(n.op, ast.And) else "GOr"
            parts = [self.g(v, subj) for v in n.values]
            out = parts[-1]
            for p in reversed(parts[:-1]):       # a and b and c  ==  a and (b and c)  (same short-circuit order)
                out = f"{op} ({p}) ({out})"
            return out
        if isinstance(n, ast.UnaryOp) and isinstance(n.op, ast.Not):
            return f"GNot ({self.g(n.operand, subj)})"
        if isinstance(n, ast.Call) and _is_name(n.func, "isinstance") and len(n.args) == 2 and not n.keywords:
            if not _is_name(n.args[0], subj):
                raise Refuse(f"isinstance of {ast.unparse(n.args[0])}")
            cls = ast.unparse(n.args[1])
            if cls in ("numbers.Real", "Real"):
                return "GIsReal"
            if cls in ("Iterable", "collections.abc.Iterable"):
                return "GIsIter"
            raise Refuse(f"isinstance class {cls}")
        if isinstance(n, ast.Call) and _is_name(n.func, "all") and len(n.args) == 1 and not n.keywords:
            ge = n.args[0]
            if not isinstance(ge, (ast.GeneratorExp, ast.ListComp)) or len(ge.generators) != 1:
                raise Refuse("all() of a non-comprehension")
            c = ge.generators[0]
            if c.ifs or c.is_async or not isinstance(c.target, ast.Name) or not _is_name(c.iter, subj):
                raise Refuse("comprehension shape")
            if subj != self.tname:
                raise Refuse("nested all()")
            return f"GAll ({self.g(ge.elt, c.target.id)})"
        if isinstance(n, ast.Compare) and len(n.ops) == 1:
            l, op, r = n.left, n.ops[0], n.comparators[0]
            if isinstance(op, ast.Is) and _is_name(l, subj) and isinstance(r, ast.Constant) and r.value is None:
                return "GIsNone"
            if isinstance(op, ast.IsNot) and _is_name(l, subj) and isinstance(r, ast.Constant) and r.value is None:
                return "GNot (GIsNone)"

            def zero(x):
                return isinstance(x, ast.Constant) and not isinstance(x.value, bool) and x.value == 0
            if isinstance(op, ast.Gt) and _is_name(l, subj) and zero(r):
                return "GPos"
            if isinstance(op, ast.Lt) and zero(l) and _is_name(r, subj):
                return "GPos"
            if isinstance(op, ast.LtE) and _is_name(l, subj) and zero(r):
                return "GNot (GPos)"

            def is_len(x):
                return (isinstance(x, ast.Call) and _is_name(x.func, "len") and len(x.args) == 1
                        and _is_name(x.args[0], self.tname) and subj == self.tname)
            if isinstance(op, (ast.Eq, ast.NotEq)) and ((is_len(l) and _is_name(r, self.nname)) or (is_len(r) and _is_name(l, self.nname))):
                return "GLenEqN" if isinstance(op, ast.Eq) else "GNot (GLenEqN)"
        raise Refuse(f"guard {ast.unparse(n)}")

    def action(self, body):
        body = [s for s in body if not (isinstance(s, ast.Expr) and isinstance(s.value, ast.Constant))]
        if len(body) != 1:
            raise Refuse("branch of _T_to_list is not a single statement")
        s = body[0]
        if isinstance(s, ast.Raise):
            return "ARaise"
        if isinstance(s, ast.Return) and s.value is not None:
            v = s.value
            if _is_name(v, self.tname):
                return "ASame"
            if (isinstance(v, ast.BinOp) and isinstance(v.op, ast.Mult) and isinstance(v.left, ast.List)
                    and len(v.left.elts) == 1 and _is_name(v.left.elts[0], self.tname) and _is_name(v.right, self.nname)):
                return "ARepeat"
        raise Refuse(f"action {ast.unparse(s)}")


def tr_t_to_list(fn):
    args = [a.arg for a in fn.args.args]
    if len(args) != 3 or args[0] != "self" or fn.args.vararg or fn.args.kwarg or fn.args.kwonlyargs or fn.args.defaults:
        raise Refuse("signature of _T_to_list")
    G = Guards(args[1], args[2])
    body = [s for s in fn.body if not (isinstance(s, ast.Expr) and isinstance(s.value, ast.Constant))]
    rules = []
    while body:
        s = body[0]
        if isinstance(s, ast.If):
            rules.append((G.g(s.test, G.tname), G.action(s.body)))
            if len(body) > 1:
                if s.orelse:
                    raise Refuse("statements after an if/else chain")
                body = body[1:]          # `if ..: return/raise` followed by more statements = elif chain
            else:
                body = s.orelse
        else:
            rules.append(("GTrue", G.action([s])))
            if len(body) != 1:
                raise Refuse("unreachable statements in _T_to_list")
            body = []
    return rules


# ------------------------------------------------------------------------------------------------
# get_noisy_pulses
# ------------------------------------------------------------------------------------------------
def _const(n):
    """exact value of an expression made of numeric literals only, else None (never folds a division by zero)"""
    if isinstance(n, ast.Constant):
        v = n.value
        if isinstance(v, bool) or not isinstance(v, (int, float)) or v != v or v in (float("inf"), float("-inf")):
            return None
        return Fraction(v)
    if isinstance(n, ast.UnaryOp) and isinstance(n.op, (ast.USub, ast.UAdd)):
        v = _const(n.operand)
        return None if v is None else (-v if isinstance(n.op, ast.USub) else v)
    if isinstance(n, ast.BinOp):
        a, b = _const(n.left), _const(n.right)
        if a is None or b is None:
            return None
        if isinstance(n.op, ast.Add):
            return a + b
        if isinstance(n.op, ast.Sub):
            return a - b
        if isinstance(n.op, ast.Mult):
            return a * b
        if isinstance(n.op, ast.Div) and b != 0:
            return a / b
    return None


def _names(n):
    return {x.id for x in ast.walk(n) if isinstance(x, ast.Name)}


class Body:
    def __init__(self, loopvar, dims, sink):
        self.loopvar, self.dims, self.sink = loopvar, dims, sink
        self.slots = {}
        self.inline = {}     # sqrt-valued scalar temporaries: name -> (ast expression, names it reads)
        self.dimvars = set()  # names bound to dims[loopvar]

    def slot(self, name, create=False):
        if name not in self.slots:
            if not create:
                raise Refuse(f"unbound name {name}")
            self.slots[name] = len(self.slots)
        return self.slots[name]

    def ex(self, n):
        c = _const(n)
        if c is not None:
            return f"ENum {q(c)}"
        if isinstance(n, ast.Constant):
            raise Refuse(f"constant {n.value!r}")
        if isinstance(n, ast.Name):
            if n.id in self.inline:
                return self.ex(self.inline[n.id][0])
            return f"EVar {self.slot(n.id)}"
        if isinstance(n, ast.UnaryOp) and isinstance(n.op, ast.USub):
            return f"ENeg ({self.ex(n.operand)})"
        if isinstance(n, ast.UnaryOp) and isinstance(n.op, ast.UAdd):
            return self.ex(n.operand)
        if isinstance(n, ast.BinOp):
            for k, v in {ast.Add: "EAdd", ast.Sub: "ESub", ast.Mult: "EMul", ast.Div: "EDiv"}.items():
                if isinstance(n.op, k):
                    return f"{v} ({self.ex(n.left)}) ({self.ex(n.right)})"
            raise Refuse(f"operator {type(n.op).__name__}")
        if isinstance(n, ast.Call) and ast.unparse(n.func) in ("np.sqrt", "numpy.sqrt", "math.sqrt", "sqrt") and len(n.args) == 1 and not n.keywords:
            return f"ESqrt ({self.ex(n.args[0])})"
        raise Refuse(f"scalar {ast.unparse(n)}")

    def is_op(self, n):
        """does the expression contain a destroy()/num() call (i.e. is it operator-valued)?"""
        return any(isinstance(c, ast.Call) and isinstance(c.func, ast.Name) and c.func.id in ("destroy", "num")
                   for c in ast.walk(n))

    def opex(self, n):
        """operator expression -> (coef nex or None for 1, kind)"""
        if isinstance(n, ast.Call) and isinstance(n.func, ast.Name) and n.func.id in ("destroy", "num"):
            a = n.args
            ok = (len(a) == 1 and not n.keywords and
                  ((isinstance(a[0], ast.Subscript) and _is_name(a[0].value, self.dims) and _is_name(a[0].slice, self.loopvar))
                   or (isinstance(a[0], ast.Name) and a[0].id in self.dimvars)))
            if not ok:
                raise Refuse(f"operator argument {ast.unparse(n)}")
            return None, ("KDestroy" if n.func.id == "destroy" else "KNum")
        if isinstance(n, ast.BinOp) and isinstance(n.op, ast.Mult):
            lo, ro = self.is_op(n.left), self.is_op(n.right)
            if lo and not ro:
                c, k = self.opex(n.left)
                s = self.ex(n.right)
                return (s if c is None else f"EMul ({c}) ({s})"), k
            if ro and not lo:
                c, k = self.opex(n.right)
                s = self.ex(n.left)
                return (s if c is None else f"EMul ({s}) ({c})"), k
        if isinstance(n, ast.BinOp) and isinstance(n.op, ast.Div) and self.is_op(n.left) and not self.is_op(n.right):
            c, k = self.opex(n.left)
            return f"EDiv ({c if c is not None else 'ENum (1 # 1)'}) ({self.ex(n.right)})", k
        raise Refuse(f"operator expression {ast.unparse(n)}")

    def cond(self, n):
        if isinstance(n, ast.BoolOp):
            op = "CAnd" if isinstance(n.op, ast.And) else "COr"
            parts = [self.cond(v) for v in n.values]
            out = parts[-1]
            for p in reversed(parts[:-1]):
                out = f"{op} ({p}) ({out})"
            return out
        if isinstance(n, ast.UnaryOp) and isinstance(n.op, ast.Not):
            inner = self.cond(n.operand)
            if inner.startswith("CNot (") and inner.endswith(")"):      # double negation
                return inner[len("CNot ("):-1]
            return f"CNot ({inner})"
        if isinstance(n, ast.Name) and n.id in self.slots and self.slots[n.id] >= 2:
            return f"CNot (CEq (EVar {self.slots[n.id]}) (ENum (0 # 1)))"     # truthiness of a float local
        if isinstance(n, ast.Compare) and len(n.ops) == 1:
            l, op, r = n.left, n.ops[0], n.comparators[0]
            if isinstance(op, (ast.Is, ast.IsNot)) and isinstance(l, ast.Constant) and l.value is None and isinstance(r, ast.Name):
                l, r = r, l
            if isinstance(op, (ast.Is, ast.IsNot)):
                if isinstance(l, ast.Name) and isinstance(r, ast.Constant) and r.value is None:
                    return f"{'CIsNone' if isinstance(op, ast.Is) else 'CNotNone'} {self.slot(l.id)}"
                raise Refuse(f"identity test {ast.unparse(n)}")
            a, b = self.ex(l), self.ex(r)
            table = {ast.Lt: f"CLt ({a}) ({b})", ast.LtE: f"CLe ({a}) ({b})", ast.Gt: f"CLt ({b}) ({a})",
                     ast.GtE: f"CLe ({b}) ({a})", ast.Eq: f"CEq ({a}) ({b})", ast.NotEq: f"CNot (CEq ({a}) ({b}))"}
            for k, v in table.items():
                if isinstance(op, k):
                    return v
        raise Refuse(f"condition {ast.unparse(n)}")

    def block(self, stmts, ops, depth_in_branch=False):
        """ops: name -> (coef, kind) for operator variables assigned earlier in this or an enclosing block"""
        ops = dict(ops)
        saved_inline, saved_dim = dict(self.inline), set(self.dimvars)   # temporaries are block scoped
        out = []
        for s in stmts:
            if isinstance(s, ast.Pass) or (isinstance(s, ast.Expr) and isinstance(s.value, ast.Constant)):
                continue
            if isinstance(s, ast.Raise):
                out.append("SRaise")
            elif isinstance(s, ast.Continue):
                out.append("SContinue")
            elif isinstance(s, ast.If):
                th = self.block(s.body, ops, True)
                el = self.block(s.orelse, ops, True)
                # an operator variable (re)bound inside a branch is not tracked past the branch
                for sub in ast.walk(s):
                    if isinstance(sub, ast.Assign):
                        for t in sub.targets:
                            if isinstance(t, ast.Name) and t.id in ops:
                                del ops[t.id]
                out.append(f"SIf ({self.cond(s.test)}) ({th}) ({el})")
            elif isinstance(s, ast.Assign) and len(s.targets) == 1 and isinstance(s.targets[0], ast.Name):
                name = s.targets[0].id
                if self.is_op(s.value):
                    coef, kind = self.opex(s.value)
                    ops[name] = (coef if coef is not None else "ENum (1 # 1)", kind)
                    if name in self.slots:
                        raise Refuse(f"{name} is both scalar and operator")
                elif (isinstance(s.value, ast.Subscript) and _is_name(s.value.value, self.dims)
                      and _is_name(s.value.slice, self.loopvar)):
                    if name in self.slots or name in self.inline or name in ops:
                        raise Refuse(f"{name} rebound to a dimension")
                    self.dimvars.add(name)
                else:
                    if name in ops or name in self.dimvars:
                        raise Refuse(f"{name} is both scalar and operator/dimension")
                    for other, (_, reads) in self.inline.items():
                        if name in reads:
                            raise Refuse(f"{name} reassigned after the temporary {other} that reads it")
                    has_sqrt = any(isinstance(c, ast.Call) and ast.unparse(c.func) in ("np.sqrt", "numpy.sqrt", "math.sqrt", "sqrt")
                                   for c in ast.walk(s.value)) or any(x in self.inline for x in _names(s.value))
                    if has_sqrt:
                        if name in self.slots or name in self.inline:
                            raise Refuse(f"sqrt-valued temporary {name} rebound")
                        self.ex(s.value)      # must be translatable where it is defined
                        self.inline[name] = (s.value, _names(s.value))
                    else:
                        if name in self.inline:
                            raise Refuse(f"{name} rebound")
                        e = self.ex(s.value)
                        out.append(f"SAssign {self.slot(name, create=True)} ({e})")
            elif (isinstance(s, ast.Expr) and isinstance(s.value, ast.Call) and isinstance(s.value.func, ast.Attribute)
                  and s.value.func.attr == "add_lindblad_noise" and _is_name(s.value.func.value, self.sink)):
                c = s.value
                kw = {k.arg: k.value for k in c.keywords}
                pos = list(c.args)
                for nm in ("qobj", "targets", "tlist", "coeff"):
                    if nm in kw and len(pos) < 4:
                        pass
                names = ["qobj", "targets", "tlist", "coeff"]
                argd = {}
                for i, a in enumerate(pos):
                    if i >= 4:
                        raise Refuse("too many arguments to add_lindblad_noise")
                    argd[names[i]] = a
                for k, v in kw.items():
                    if k not in names or k in argd:
                        raise Refuse(f"argument {k} of add_lindblad_noise")
                    argd[k] = v
                if not (isinstance(argd.get("coeff"), ast.Constant) and argd["coeff"].value is True):
                    raise Refuse("add_lindblad_noise coeff is not the constant True")
                if "tlist" in argd and not (isinstance(argd["tlist"], ast.Constant) and argd["tlist"].value is None):
                    raise Refuse("add_lindblad_noise tlist is not None")
                if not _is_name(argd.get("targets"), self.loopvar):
                    raise Refuse("add_lindblad_noise target is not the loop variable")
                qo = argd.get("qobj")
                if isinstance(qo, ast.Name) and qo.id in ops:
                    coef, kind = ops[qo.id]
                elif qo is not None and self.is_op(qo):
                    coef, kind = self.opex(qo)
                    coef = coef if coef is not None else "ENum (1 # 1)"
                else:
                    raise Refuse("add_lindblad_noise operator is not a tracked operator expression")
                out.append(f"SEmit ({coef}) {kind}")
            else:
                raise Refuse(f"statement {type(s).__name__}: {ast.unparse(s)[:80]}")
        if depth_in_branch:
            self.inline, self.dimvars = saved_inline, saved_dim
        if not out:
            return "SSkip"
        res = out[-1]
        for st in reversed(out[:-1]):
            res = f"SSeq ({st}) ({res})"
        return res


def tr_get_noisy_pulses(fn, ttl_name):
    args = [a.arg for a in fn.args.args]
    if args[:1] != ["self"] or "dims" not in args or "systematic_noise" not in args:
        raise Refuse("signature of get_noisy_pulses")
    body = [s for s in fn.body if not (isinstance(s, ast.Expr) and isinstance(s.value, ast.Constant))]
    nname = None
    lencheck = False
    have = set()
    loop = None
    tvar = None
    pending_targets = False
    for s in body:
        src = ast.unparse(s)
        if loop is not None:
            if isinstance(s, ast.Return) and src == "return (pulses, systematic_noise)":
                have.add("return")
                continue
            raise Refuse(f"statement after the qubit loop: {src[:60]}")
        if (isinstance(s, ast.If) and ast.unparse(s.test) == "systematic_noise is None" and len(s.body) == 1 and not s.orelse
                and isinstance(s.body[0], ast.Assign) and ast.unparse(s.body[0].targets[0]) == "systematic_noise"
                and isinstance(s.body[0].value, ast.Call) and ast.unparse(s.body[0].value.func) == "Pulse"):
            continue
        if isinstance(s, ast.Assign) and len(s.targets) == 1 and isinstance(s.targets[0], ast.Name) and ast.unparse(s.value) == "len(dims)":
            nname = s.targets[0].id
            continue
        if (isinstance(s, ast.Assign) and len(s.targets) == 1 and _is_self_attr(s.targets[0]) and s.targets[0].attr in ("t1", "t2")
                and nname and ast.unparse(s.value) == f"self.{ttl_name}(self.{s.targets[0].attr}, {nname})"):
            if "t2" in have and s.targets[0].attr == "t1":
                raise Refuse("order of the _T_to_list calls")
            have.add(s.targets[0].attr)
            continue
        if (isinstance(s, ast.If) and nname and not s.orelse and len(s.body) == 1 and isinstance(s.body[0], ast.Raise)
                and ast.unparse(s.test) in (f"len(self.t1) != {nname} or len(self.t2) != {nname}",
                                            f"len(self.t2) != {nname} or len(self.t1) != {nname}",
                                            f"not (len(self.t1) == {nname} and len(self.t2) == {nname})",
                                            f"{nname} != len(self.t1) or {nname} != len(self.t2)")):
            if not {"t1", "t2"} <= have:
                raise Refuse("length check before normalisation")
            lencheck = True
            continue
        if (isinstance(s, ast.If) and ast.unparse(s.test) == "self.targets is None" and len(s.body) == 1 and len(s.orelse) == 1
                and nname and ast.unparse(s.body[0]) == f"targets = range({nname})" and ast.unparse(s.orelse[0]) == "targets = self.targets"):
            tvar = "targets"
            continue
        if (isinstance(s, ast.Assign) and len(s.targets) == 1 and isinstance(s.targets[0], ast.Name) and nname
                and isinstance(s.value, ast.IfExp)
                and (ast.unparse(s.value.test), ast.unparse(s.value.body), ast.unparse(s.value.orelse)) in (
                    ("self.targets is None", f"range({nname})", "self.targets"),
                    ("self.targets is not None", "self.targets", f"range({nname})"))):
            tvar = s.targets[0].id
            continue
        if (isinstance(s, ast.If) and ast.unparse(s.test) == "self.targets is not None" and len(s.body) == 1 and len(s.orelse) == 1
                and nname and ast.unparse(s.orelse[0]) == f"targets = range({nname})" and ast.unparse(s.body[0]) == "targets = self.targets"):
            tvar = "targets"
            continue
        if (isinstance(s, ast.Assign) and len(s.targets) == 1 and _is_name(s.targets[0], "targets")
                and ast.unparse(s.value) == "self.targets"):
            # `targets = self.targets` followed by `if targets is None: targets = range(N)`
            pending_targets = True
            continue
        if (isinstance(s, ast.If) and pending_targets and ast.unparse(s.test) == "targets is None" and not s.orelse and nname
                and len(s.body) == 1 and ast.unparse(s.body[0]) == f"targets = range({nname})"):
            tvar = "targets"
            pending_targets = False
            continue
        if isinstance(s, ast.For) and tvar and _is_name(s.iter, tvar) and isinstance(s.target, ast.Name) and not s.orelse:
            if not {"t1", "t2"} <= have:
                raise Refuse("loop before normalisation of t1/t2")
            loop = s
            continue
        raise Refuse(f"prelude statement: {src[:80]}")
    if pending_targets:
        raise Refuse("targets default not established")
    if loop is None or "return" not in have:
        raise Refuse("no qubit loop / return")
    lv = loop.target.id
    stmts = list(loop.body)
    B = Body(lv, "dims", "systematic_noise")
    # the first two statements read this qubit's times
    for i, attr in enumerate(("t1", "t2")):
        if not stmts:
            raise Refuse("empty loop body")
        s = stmts.pop(0)
        if not (isinstance(s, ast.Assign) and len(s.targets) == 1 and isinstance(s.targets[0], ast.Name)
                and ast.unparse(s.value) == f"self.{attr}[{lv}]"):
            raise Refuse(f"loop must start with x = self.{attr}[{lv}]: {ast.unparse(s)[:60]}")
        if B.slot(s.targets[0].id, create=True) != i:
            raise Refuse("slot order")
    return lencheck, B.block(stmts, {}), dict(B.slots)


def generate():
    path = os.path.join(PKG, "noise.py")
    where = "translator:noise.py"
    try:
        tree = ast.parse(open(path).read())
    except (OSError, SyntaxError) as e:
        raise Broken(where, repr(e))
    cls = [n for n in tree.body if isinstance(n, ast.ClassDef) and n.name == "RelaxationNoise"]
    if len(cls) != 1:
        raise Broken(where, "class RelaxationNoise not found")
    fns = {n.name: n for n in cls[0].body if isinstance(n, ast.FunctionDef)}
    extra = set(fns) - {"__init__", "_T_to_list", "get_noisy_pulses"}
    if extra:
        raise Broken(where + ":RelaxationNoise", f"unexpected methods {sorted(extra)}")
    for need in ("__init__", "_T_to_list", "get_noisy_pulses"):
        if need not in fns:
            raise Broken(where + ":RelaxationNoise", f"method {need} missing")
    init = [ast.unparse(s) for s in fns["__init__"].body if not (isinstance(s, ast.Expr) and isinstance(s.value, ast.Constant))]
    if sorted(init) != ["self.t1 = t1", "self.t2 = t2", "self.targets = targets"]:
        raise Broken(where + ":__init__", f"unexpected constructor body {init}")
    try:
        rules = tr_t_to_list(fns["_T_to_list"])
    except Refuse as e:
        raise Broken(where + ":_T_to_list", str(e))
    try:
        lencheck, body, slots = tr_get_noisy_pulses(fns["get_noisy_pulses"], "_T_to_list")
    except Refuse as e:
        raise Broken(where + ":get_noisy_pulses", str(e))
    txt = ["(* GENERATED by tools/translate/noise_tr.py from qutip_qip/noise.py - do not edit *)",
           "From Coq Require Import QArith List.", "From QV Require Import Model.Relax.", "Import ListNotations.", "",
           "Definition ttl_rules : list (gex * tact) :=", "  [ " + ";\n    ".join(f"({g}, {a})" for g, a in rules) + " ].", "",
           f"Definition relax_lencheck : bool := {'true' if lencheck else 'false'}.", "",
           "(* slots: " + ", ".join(f"{v} = {k}" for k, v in sorted(slots.items(), key=lambda kv: kv[1])) + " *)",
           "Definition relax_body : stmt :=", "  " + body + ".", ""]
    changed = write_if_changed(os.path.join(COQ, "Gen", "Noise.v"), "\n".join(txt))
    return dict(rules=len(rules), lencheck=lencheck, body=body, rules_text=[f"({g}, {a})" for g, a in rules], changed=changed)


if __name__ == "__main__":
    import json
    print(json.dumps(generate(), indent=1))
