"""Fail-closed translator: presence and position of the defensive copies / resets that property C16 rests on
  ->  coq/Gen/Purity.v   (Definition src_flags : flags)

Walks the Python `ast` of the CURRENT sources only and classifies specific statements of specific functions.
A function that is missing, or a statement whose shape is neither the recognised "copy / reset" form nor the
recognised "no copy" form, aborts with Broken("translator:<file>:<function>", detail).
"""
import ast
import os
import sys

sys.path.insert(0, os.path.dirname(os.path.dirname(os.path.abspath(__file__))))
from common import Broken, PKG, COQ, write_if_changed  # noqa: E402


def _parse(rel):
    path = os.path.join(PKG, rel)
    try:
        return ast.parse(open(path).read())
    except (OSError, SyntaxError) as e:
        raise Broken("translator:" + rel, str(e))


def _find(tree, rel, cls, fn):
    body = tree.body
    if cls is not None:
        for n in body:
            if isinstance(n, ast.ClassDef) and n.name == cls:
                body = n.body
                break
        else:
            raise Broken(f"translator:{rel}:{cls}", "class not found")
    for n in body:
        if isinstance(n, ast.FunctionDef) and n.name == fn:
            return n
    raise Broken(f"translator:{rel}:{cls + '.' if cls else ''}{fn}", "function not found")


def _stmts(fn):
    """top-level statements of a function without the docstring"""
    b = fn.body
    if b and isinstance(b[0], ast.Expr) and isinstance(getattr(b[0], "value", None), ast.Constant) and isinstance(b[0].value.value, str):
        b = b[1:]
    return b


def u(n):
    return ast.unparse(n).replace(" ", "")


def is_copy_of(expr, src):
    """expr is a (deep) copy of the expression text `src`"""
    s = u(expr)
    return s in (f"deepcopy({src})", f"copy.deepcopy({src})", f"list({src})", f"{src}.copy()", f"copy.copy({src})",
                 f"{src}[:]", f"copy({src})", f"[bforbin{src}]", f"[int(b)forbin{src}]")


def assign_to(stmt, target):
    return isinstance(stmt, ast.Assign) and len(stmt.targets) == 1 and u(stmt.targets[0]) == target


def returned_name(fn, where):
    """the local name the function returns in its last statement (whatever it is called)"""
    st = _stmts(fn)
    if not st or not isinstance(st[-1], ast.Return) or not isinstance(st[-1].value, ast.Name):
        raise Broken("translator:" + where, "does not end with `return <local name>`")
    return st[-1].value.id


def params(fn):
    """positional parameter names without self / cls"""
    names = [a.arg for a in fn.args.args]
    return names[1:] if names and names[0] in ("self", "cls") else names


def copy_src(expr):
    """if expr is a recognised copy of some expression X, the text of X (else None)"""
    if isinstance(expr, ast.Call):
        f = u(expr.func)
        if f in ("deepcopy", "copy.deepcopy", "copy", "copy.copy", "list", "dict", "tuple") and len(expr.args) == 1 and not expr.keywords:
            return u(expr.args[0])
        if isinstance(expr.func, ast.Attribute) and expr.func.attr == "copy" and not expr.args:
            return u(expr.func.value)
    if isinstance(expr, ast.Subscript) and isinstance(expr.slice, ast.Slice) and expr.slice.lower is None and expr.slice.upper is None:
        return u(expr.value)
    if isinstance(expr, ast.ListComp) and len(expr.generators) == 1 and isinstance(expr.generators[0].target, ast.Name):
        v = expr.generators[0].target.id
        if u(expr.elt) in (v, "int(%s)" % v):
            return u(expr.generators[0].iter)
    return None


def leaves(expr):
    """the alternatives of a (nested) conditional expression; [expr] for anything else"""
    if isinstance(expr, ast.IfExp):
        return leaves(expr.body) + leaves(expr.orelse)
    return [expr]


def fresh_expr(v):
    """an expression that always evaluates to a NEW list (or None), whichever way it is spelled"""
    if isinstance(v, ast.IfExp):
        return all(fresh_expr(x) for x in leaves(v))
    if isinstance(v, (ast.ListComp, ast.List)) or (isinstance(v, ast.Constant) and v.value is None):
        return True
    if isinstance(v, ast.Call) and u(v.func) in ("list", "sorted") and len(v.args) == 1:
        return True
    if isinstance(v, ast.BinOp) and isinstance(v.op, ast.Add):
        return fresh_expr(v.left) and fresh_expr(v.right)
    return False


def is_deep(expr):
    return isinstance(expr, ast.Call) and u(expr.func) in ("deepcopy", "copy.deepcopy")


def loop_var_over(fn, iter_texts, where):
    """name of the loop variable of the (first) `for <name> in <one of iter_texts>` of the function"""
    for n in ast.walk(fn):
        if isinstance(n, ast.For) and u(n.iter) in iter_texts and isinstance(n.target, ast.Name):
            return n.target.id
    raise Broken("translator:" + where, "no loop over " + " / ".join(iter_texts))


def flag_last_deepcopy(fn, where, obj=None):
    """the statement before the final `return <obj>` is `<obj>.gates = deepcopy(<obj>.gates)`
    (<obj> = the returned local name)"""
    obj = obj or returned_name(fn, where)
    st = _stmts(fn)
    prev = st[-2] if len(st) >= 2 else None
    if prev is not None and assign_to(prev, obj + ".gates"):
        if is_copy_of(prev.value, obj + ".gates") and "deepcopy" in u(prev.value):
            return True
        raise Broken("translator:" + where, "unrecognised final assignment to %s.gates: %s" % (obj, u(prev)))
    # any other assignment to <obj>.gates = deepcopy(..) elsewhere does not count: position matters
    return False


def calls_in(node, name):
    out = []
    for n in ast.walk(node):
        if isinstance(n, ast.Call) and u(n.func).split(".")[-1] == name:
            out.append(n)
    return out


WHERE = {}
EXTRA = {}     # obligations outside the flags record


def _w(flag, rel, node, note=""):
    """remember the source line a flag was read from"""
    WHERE[flag] = "%s:%d%s" % (rel, getattr(node, "lineno", 0), (" " + note) if note else "")


def _last_assign(fn, target):
    st = _stmts(fn)
    for s_ in reversed(st):
        if assign_to(s_, target):
            return s_
    return fn


def translate():
    F = {}
    WHERE.clear()
    # ---------------- circuit.py ----------------
    rel = "circuit/circuit.py"
    t = _parse(rel)
    fn = _find(t, rel, "QubitCircuit", "resolve_gates")
    F["f_resolve_final"] = flag_last_deepcopy(fn, rel + ":resolve_gates")
    _w("f_resolve_final", rel, _last_assign(fn, returned_name(fn, rel + ":resolve_gates") + ".gates"))
    fn = _find(t, rel, "QubitCircuit", "adjacent_gates")
    F["f_adjacent_final"] = flag_last_deepcopy(fn, rel + ":adjacent_gates")
    _w("f_adjacent_final", rel, _last_assign(fn, returned_name(fn, rel + ":adjacent_gates") + ".gates"))
    gv = loop_var_over(fn, ("self.gates",), rel + ":adjacent_gates")
    fn_adj = fn
    lit = True
    gate_calls = calls_in(fn, "Gate")
    if not gate_calls:
        raise Broken("translator:" + rel + ":adjacent_gates", "no Gate(...) construction found")
    for c in gate_calls:
        args = list(c.args[1:]) + [k.value for k in c.keywords if k.arg in ("targets", "controls")]
        for a in args:
            if fresh_expr(a):
                continue
            if isinstance(a, ast.Attribute) and u(a) in (gv + ".arg_value", gv + ".arg_label"):
                continue
            lit = False
    for c in calls_in(fn, "append") + calls_in(fn, "add_gate"):
        for a in c.args:
            if isinstance(a, ast.Name) and a.id == gv:
                lit = False
    F["f_adjacent_literals"] = lit
    _w("f_adjacent_literals", rel, fn_adj, "(all Gate(...) constructions and appends of adjacent_gates)")
    # reverse_circuit
    fn = _find(t, rel, "QubitCircuit", "reverse_circuit")
    st = _stmts(fn)
    rn = returned_name(fn, rel + ":reverse_circuit")
    bound = [s_ for s_ in st if assign_to(s_, rn)]
    if len(bound) != 1 or not (isinstance(bound[0].value, ast.Call) and u(bound[0].value.func) == "QubitCircuit"):
        raise Broken("translator:" + rel + ":reverse_circuit", "the returned object is not bound once to a QubitCircuit(...) construction")
    gates_copied = any(assign_to(s, rn + ".gates") and is_deep(s.value) and copy_src(s.value) == rn + ".gates" for s in st[-3:-1]) or \
        all(("deepcopy" in u(c)) for c in calls_in(fn, "add_gate") + calls_in(fn, "add_measurement")) and bool(calls_in(fn, "add_gate"))
    ctor = [bound[0].value]
    io_shared = False
    for k in ctor[0].keywords:
        if k.arg in ("input_states", "output_states"):
            for kv in leaves(k.value):
                if u(kv) in ("self.input_states", "self.output_states"):
                    io_shared = True
                elif copy_src(kv) == "self." + k.arg or fresh_expr(kv):
                    pass
                else:
                    raise Broken("translator:" + rel + ":reverse_circuit", "unrecognised %s=%s" % (k.arg, u(kv)))
    F["f_reverse_copy"] = bool(gates_copied and not io_shared)
    _w("f_reverse_copy", rel, _last_assign(fn, rn + ".gates"), "(and input_states=/output_states= of the constructor, line %d)" % ctor[0].lineno)
    # add_circuit(self, qc, ...): loop over the gates of the circuit that is passed in
    fn = _find(t, rel, "QubitCircuit", "add_circuit")
    src = params(fn)[0]
    ov = loop_var_over(fn, (src + ".gates",), rel + ":add_circuit")
    # local names that are only ever bound to new lists (or None)
    binds = {}
    for s_ in ast.walk(fn):
        if isinstance(s_, ast.Assign) and len(s_.targets) == 1 and isinstance(s_.targets[0], ast.Name):
            ok_ = fresh_expr(s_.value)
            binds[s_.targets[0].id] = binds.get(s_.targets[0].id, True) and ok_
    fresh_lists = True
    arg_copy = None
    found = False
    for c in calls_in(fn, "add_gate") + calls_in(fn, "add_measurement"):
        for k in c.keywords:
            if k.arg in ("targets", "controls"):
                found = True
                v = k.value
                if isinstance(v, ast.Name) and binds.get(v.id, False):
                    continue
                if fresh_expr(v):
                    continue
                fresh_lists = False
            if k.arg == "arg_value":
                if u(k.value) == ov + ".arg_value":
                    arg_copy = False
                elif copy_src(k.value) == ov + ".arg_value":
                    arg_copy = True
                else:
                    raise Broken("translator:" + rel + ":add_circuit", "unrecognised arg_value=%s" % u(k.value))
    if not found or arg_copy is None:
        raise Broken("translator:" + rel + ":add_circuit", "add_gate(... targets=, arg_value=) not found")
    F["f_addc_fresh_lists"] = fresh_lists
    F["f_addc_arg_copy"] = arg_copy
    for c in calls_in(fn, "add_gate"):
        for k in c.keywords:
            if k.arg == "targets":
                _w("f_addc_fresh_lists", rel, k.value, "(index lists built by comprehensions above)")
            if k.arg == "arg_value":
                _w("f_addc_arg_copy", rel, k.value)

    # ---------------- transpiler/chain.py ----------------
    rel = "transpiler/chain.py"
    t = _parse(rel)
    fn = _find(t, rel, None, "to_chain_structure")
    st = _stmts(fn)
    src = params(fn)[0]
    rn = returned_name(fn, rel + ":to_chain_structure")
    first = [s for s in st if assign_to(s, rn)]
    if not first:
        raise Broken("translator:" + rel + ":to_chain_structure", "no assignment to the returned circuit")
    v = first[0].value
    is_dc = is_deep(v) and copy_src(v) == src
    if is_dc:
        incopy = True
    elif isinstance(v, ast.Call) and u(v.func) == "QubitCircuit":
        incopy = True      # a new circuit object
    elif u(v) == src or (copy_src(v) == src and not is_deep(v)):
        incopy = False
    else:
        raise Broken("translator:" + rel + ":to_chain_structure", "unrecognised binding of the returned circuit: " + u(v))
    i0 = st.index(first[0])
    nxt = st[i0 + 1] if i0 + 1 < len(st) else None
    if not (nxt is not None and assign_to(nxt, rn + ".gates") and u(nxt.value) == "[]"):
        if is_dc:
            raise Broken("translator:" + rel + ":to_chain_structure", "<copy>.gates = [] does not follow the copy")
    F["f_chain_input_copy"] = incopy
    _w("f_chain_input_copy", rel, first[0])
    F["f_chain_final"] = flag_last_deepcopy(fn, rel + ":to_chain_structure")
    _w("f_chain_final", rel, _last_assign(fn, rn + ".gates"))

    # ---------------- compiler/scheduler.py, instruction.py ----------------
    rel = "compiler/scheduler.py"
    t = _parse(rel)
    fn = _find(t, rel, "Scheduler", "schedule")
    st = _stmts(fn)
    pn = params(fn)[0]
    F["f_sched_copy"] = bool(st and assign_to(st[0], pn) and is_deep(st[0].value) and copy_src(st[0].value) == pn)
    _w("f_sched_copy", rel, st[0] if st else fn)
    fn = _find(t, rel, "InstructionsGraph", "__init__")
    st = _stmts(fn)
    pn = params(fn)[0]
    F["f_graph_copy"] = bool(st and assign_to(st[0], pn) and is_deep(st[0].value) and copy_src(st[0].value) == pn)
    _w("f_graph_copy", rel, st[0] if st else fn)
    rel = "compiler/instruction.py"
    t = _parse(rel)
    fn = _find(t, rel, "Instruction", "__init__")
    st = _stmts(fn)
    g = [s for s in st if assign_to(s, "self.gate")]
    if len(g) != 1:
        raise Broken("translator:" + rel + ":Instruction.__init__", "expected one assignment to self.gate")
    pn = params(fn)[0]
    if is_deep(g[0].value) and copy_src(g[0].value) == pn:
        ic = True
    elif u(g[0].value) == pn or copy_src(g[0].value) == pn:
        ic = False
    else:
        raise Broken("translator:" + rel + ":Instruction.__init__", "unrecognised self.gate = " + u(g[0].value))
    # the in-place sorts must come after the copy
    pos = st.index(g[0])
    for s in st[:pos]:
        if calls_in(s, "sort"):
            ic = False
    F["f_instr_copy"] = ic
    _w("f_instr_copy", rel, g[0])

    # ---------------- circuit/circuitsimulator.py ----------------
    rel = "circuit/circuitsimulator.py"
    t = _parse(rel)
    fn = _find(t, rel, "CircuitSimulator", "initialize")
    cb = [s for s in ast.walk(fn) if assign_to(s, "self.cbits")]
    kinds = []
    pset = set(params(fn))
    for v in [x for s in cb for x in leaves(s.value)]:
        if isinstance(v, ast.Name) and v.id in pset:
            kinds.append("ref")
        elif copy_src(v) in pset:
            kinds.append("copy")
        elif isinstance(v, ast.Constant) and v.value is None:
            kinds.append("none")
        elif isinstance(v, ast.BinOp) and isinstance(v.left, ast.List):
            kinds.append("fresh")
        else:
            raise Broken("translator:" + rel + ":initialize", "unrecognised self.cbits = " + u(v))
    if not cb or "fresh" not in kinds:
        raise Broken("translator:" + rel + ":initialize", "assignments to self.cbits not found")
    F["f_sim_cbits_copy"] = "ref" not in kinds
    _w("f_sim_cbits_copy", rel, cb[0])
    assigned = set()
    for s in _stmts(fn):
        for n in ast.walk(s) if isinstance(s, ast.If) else [s]:
            if isinstance(n, ast.Assign) and len(n.targets) == 1:
                assigned.add(u(n.targets[0]))
    need = {"self.cbits", "self._state", "self._probability", "self._op_index", "self._measure_results", "self._measure_ind"}
    fn_run = _find(t, rel, "CircuitSimulator", "run")
    st = _stmts(fn_run)
    first_is_init = bool(st and isinstance(st[0], ast.Expr) and isinstance(st[0].value, ast.Call) and u(st[0].value.func) == "self.initialize")
    F["f_sim_reinit"] = bool(first_is_init and need <= assigned)
    _w("f_sim_reinit", rel, st[0] if st else fn_run, "(run starts with self.initialize; initialize assigns %s)" % ", ".join(sorted(x.split(".")[1] for x in need)))
    fn_stats = _find(t, rel, "CircuitSimulator", "run_statistics")
    if not [c for c in calls_in(fn_stats, "run") if u(c.func) == "self.run"]:
        raise Broken("translator:" + rel + ":run_statistics", "does not go through self.run")

    # ---------------- device/processor.py, noise.py ----------------
    rel = "device/processor.py"
    t = _parse(rel)
    fn = _find(t, rel, "Processor", "get_noisy_pulses")
    calls = calls_in(fn, "process_noise")
    if len(calls) != 1:
        raise Broken("translator:" + rel + ":get_noisy_pulses", "expected one process_noise call")
    arg0 = calls[0].args[0] if calls[0].args else None
    a = [s for s in _stmts(fn) if isinstance(arg0, ast.Name) and assign_to(s, arg0.id)]
    if arg0 is not None and u(arg0) == "self.pulses":
        F["f_gnp_copy"] = False
    elif a and is_deep(a[-1].value) and copy_src(a[-1].value) == "self.pulses":
        F["f_gnp_copy"] = True
    elif a and (u(a[-1].value) == "self.pulses" or copy_src(a[-1].value) == "self.pulses"):
        F["f_gnp_copy"] = False
    elif arg0 is not None and is_deep(arg0) and copy_src(arg0) == "self.pulses":
        F["f_gnp_copy"] = True
    else:
        raise Broken("translator:" + rel + ":get_noisy_pulses", "unrecognised pulses argument of process_noise")
    _w("f_gnp_copy", rel, a[0] if a else calls[0])
    fn = _find(t, rel, "Processor", "set_coeffs")
    st = _stmts(fn)
    F["f_set_coeffs_clears"] = bool(st and isinstance(st[0], ast.Expr) and u(st[0].value) == "self.clear_pulses()")
    _w("f_set_coeffs_clears", rel, st[0] if st else fn)
    rel = "noise.py"
    t = _parse(rel)
    fn = _find(t, rel, None, "process_noise")
    st = _stmts(fn)
    p_pulses, p_noise = params(fn)[0], params(fn)[1]
    # the list the noise is applied to: a name bound to (a copy of) the first parameter
    a = [s for s in st if isinstance(s, ast.Assign) and len(s.targets) == 1 and isinstance(s.targets[0], ast.Name)
         and (u(s.value) == p_pulses or copy_src(s.value) == p_pulses)]
    if not a:
        F["f_pn_copy"] = False          # works on the caller's list itself
        _w("f_pn_copy", rel, fn, "(no copy of the pulses parameter)")
    else:
        F["f_pn_copy"] = bool(is_deep(a[0].value))
        _w("f_pn_copy", rel, a[0])
    # appends to the noise list: onto a copy of the second parameter, or onto the parameter itself / an alias
    copies, aliases = set(), {p_noise}
    a2 = None
    for s_ in st:
        if isinstance(s_, ast.Assign) and len(s_.targets) == 1 and isinstance(s_.targets[0], ast.Name):
            tn = s_.targets[0].id
            if copy_src(s_.value) in aliases:
                copies.add(tn)
                aliases.discard(tn)
                a2 = a2 or s_
            elif isinstance(s_.value, ast.Name) and s_.value.id in aliases:
                aliases.add(tn)
    appends = [c for c in ast.walk(fn) if isinstance(c, ast.Call) and isinstance(c.func, ast.Attribute)
               and c.func.attr in ("append", "extend", "insert") and isinstance(c.func.value, ast.Name) and c.func.value.id in aliases]
    F["f_pn_list_copy"] = not appends
    _w("f_pn_list_copy", rel, a2 if a2 is not None else fn)

    # ---------------- load_circuit overrides ----------------
    sets_gp = True
    fresh_comp = True
    for rel, cls in (("device/spinchain.py", "SpinChain"), ("device/cavityqed.py", "DispersiveCavityQED")):
        t = _parse(rel)
        fn = _find(t, rel, cls, "load_circuit")
        g = [s for s in ast.walk(fn) if isinstance(s, (ast.Assign, ast.AugAssign)) and u(s.targets[0] if isinstance(s, ast.Assign) else s.target) == "self.global_phase"]
        if len(g) != 1:
            raise Broken("translator:" + rel + ":load_circuit", "expected one assignment to self.global_phase")
        cv = None
        if isinstance(g[0], ast.Assign) and isinstance(g[0].value, ast.Attribute) and g[0].value.attr == "global_phase" \
                and isinstance(g[0].value.value, ast.Name):
            cv = g[0].value.value.id
        else:
            sets_gp = False
        if cv is None:
            cand = [x for x in params(fn) if "compiler" in x]
            cv = cand[0] if cand else "compiler"
        WHERE["f_load_sets_gp"] = (WHERE.get("f_load_sets_gp", "") + " %s:%d" % (rel, g[0].lineno)).strip()
        ifs = [s for s in _stmts(fn) if isinstance(s, ast.If) and u(s.test) == cv + "isNone"]
        ok = False
        for s in ifs:
            for b in s.body:
                if assign_to(b, cv) and isinstance(b.value, ast.Call) and u(b.value.func).endswith("Compiler"):
                    ok = True
                    WHERE["f_default_comp_fresh"] = (WHERE.get("f_default_comp_fresh", "") + " %s:%d" % (rel, b.lineno)).strip()
        if not ok:
            fresh_comp = False
    rel = "device/modelprocessor.py"
    t = _parse(rel)
    fn = _find(t, rel, "ModelProcessor", "load_circuit")
    ok = False
    for s in ast.walk(fn):
        if isinstance(s, ast.Assign) and len(s.targets) == 1 and isinstance(s.targets[0], ast.Name) \
                and isinstance(s.value, ast.Call) and u(s.value.func) == "self._default_compiler":
            ok = True
            WHERE["f_default_comp_fresh"] = (WHERE.get("f_default_comp_fresh", "") + " %s:%d" % (rel, s.lineno)).strip()
    if not ok:
        fresh_comp = False
    # every load must reach set_coeffs (which clears the old pulses): no `return` before that call
    idx = None
    for i, st_ in enumerate(_stmts(fn)):
        if isinstance(st_, ast.Expr) and isinstance(st_.value, ast.Call) and u(st_.value.func) in ("self.set_coeffs", "self.set_all_coeffs"):
            idx = i
            break
    if idx is None:
        raise Broken("translator:" + rel + ":load_circuit", "no top-level self.set_coeffs(...) call")
    early = [r for st_ in _stmts(fn)[:idx] for r in ast.walk(st_) if isinstance(r, ast.Return)]
    if early:
        F["f_set_coeffs_clears"] = False
        WHERE["f_set_coeffs_clears"] = "%s:%d (return before set_coeffs, line %d)" % (rel, early[0].lineno, _stmts(fn)[idx].lineno)
    else:
        WHERE["f_set_coeffs_clears"] += " and %s:%d (every load reaches set_coeffs)" % (rel, _stmts(fn)[idx].lineno)
    F["f_load_sets_gp"] = sets_gp
    F["f_default_comp_fresh"] = fresh_comp

    # ---------------- compiler/gatecompiler.py ----------------
    rel = "compiler/gatecompiler.py"
    t = _parse(rel)
    fn = _find(t, rel, "GateCompiler", "compile")
    st = _stmts(fn)
    loops = [i for i, s in enumerate(st) if isinstance(s, ast.For)]
    if not loops:
        raise Broken("translator:" + rel + ":compile", "gate loop not found")
    pre = st[:loops[0]]
    resets = False
    for s in pre:
        for n in ast.walk(s):
            if assign_to(n, "self.global_phase"):
                resets = True
                _w("f_compile_resets_gp", rel, n)
    if not resets:
        _w("f_compile_resets_gp", rel, fn, "(no assignment to self.global_phase before the gate loop)")
    F["f_compile_resets_gp"] = resets
    stores = False
    aliases = set()
    where_args = fn
    for s in ast.walk(fn):
        if isinstance(s, ast.Call) and u(s.func) == "self.args.update":
            stores = True
            where_args = s
        if isinstance(s, ast.Assign) and any(u(x).startswith("self.args") for x in s.targets):
            stores = True
            where_args = s
        if isinstance(s, ast.Assign) and len(s.targets) == 1 and isinstance(s.targets[0], ast.Name) and "self.args" in u(s.value):
            if u(s.value) == "self.args":
                aliases.add(s.targets[0].id)       # a second name for the compiler's own dict
                where_args = s
            elif is_copy_of(s.value, "self.args") or u(s.value) in ("dict(self.args)", "{**self.args}"):
                where_args = s
            else:
                raise Broken("translator:" + rel + ":compile", "unrecognised use of self.args: " + u(s))
    for s in ast.walk(fn):
        if isinstance(s, ast.Call) and isinstance(s.func, ast.Attribute) and s.func.attr in ("update", "setdefault", "pop", "clear") \
                and isinstance(s.func.value, ast.Name) and s.func.value.id in aliases:
            stores = True
        if isinstance(s, ast.Assign) and any(isinstance(x, ast.Subscript) and isinstance(x.value, ast.Name) and x.value.id in aliases for x in s.targets):
            stores = True
    F["f_compile_args_local"] = not stores
    _w("f_compile_args_local", rel, where_args)

    # ---------------- no state outside the objects on the pulse-shape path ----------------
    # generate_pulse_shape and every module-level helper it reaches: no caching decorator, no global statement,
    # no mutable default argument, no write into a module-level container
    fn = _find(t, rel, "GateCompiler", "generate_pulse_shape")
    mod_funcs = {n.name: n for n in t.body if isinstance(n, ast.FunctionDef)}
    mod_names = set()
    for n in t.body:
        if isinstance(n, ast.Assign):
            for x in n.targets:
                if isinstance(x, ast.Name):
                    mod_names.add(x.id)
    todo, seen = [fn], []
    while todo:
        f = todo.pop()
        if f in seen:
            continue
        seen.append(f)
        for n in ast.walk(f):
            if isinstance(n, ast.Call) and isinstance(n.func, ast.Name) and n.func.id in mod_funcs:
                todo.append(mod_funcs[n.func.id])
    stateless, why = True, None
    for f in seen:
        for dec in f.decorator_list:
            if u(dec).split("(")[0].split(".")[-1] not in ("classmethod", "staticmethod"):
                stateless, why = False, "%s:%d decorator %s on %s" % (rel, dec.lineno, u(dec), f.name)
        for dflt in list(f.args.defaults) + [k for k in f.args.kw_defaults if k is not None]:
            if isinstance(dflt, (ast.List, ast.Dict, ast.Set, ast.Call)):
                stateless, why = False, "%s:%d mutable default argument of %s" % (rel, dflt.lineno, f.name)
        for n in ast.walk(f):
            if isinstance(n, (ast.Global, ast.Nonlocal)):
                stateless, why = False, "%s:%d global statement in %s" % (rel, n.lineno, f.name)
            if isinstance(n, (ast.Assign, ast.AugAssign)):
                for x in (n.targets if isinstance(n, ast.Assign) else [n.target]):
                    if isinstance(x, ast.Subscript) and isinstance(x.value, ast.Name) and x.value.id in mod_names:
                        stateless, why = False, "%s:%d write into module-level %s" % (rel, n.lineno, x.value.id)
            if isinstance(n, ast.Call) and isinstance(n.func, ast.Attribute) and isinstance(n.func.value, ast.Name) \
                    and n.func.value.id in mod_names and n.func.attr in ("append", "update", "setdefault", "pop", "clear", "extend", "insert", "add"):
                stateless, why = False, "%s:%d %s on module-level %s" % (rel, n.lineno, n.func.attr, n.func.value.id)
    EXTRA["src_shape_path_stateless"] = stateless
    WHERE["src_shape_path_stateless"] = why or "%s:%d generate_pulse_shape -> %s" % (rel, fn.lineno, ", ".join(f.name for f in seen[1:]) or "-")
    return F


ORDER = ["f_resolve_final", "f_adjacent_final", "f_adjacent_literals", "f_chain_input_copy", "f_chain_final",
         "f_reverse_copy", "f_addc_fresh_lists", "f_addc_arg_copy", "f_sched_copy", "f_graph_copy", "f_instr_copy",
         "f_sim_cbits_copy", "f_sim_reinit", "f_gnp_copy", "f_pn_copy", "f_pn_list_copy", "f_set_coeffs_clears",
         "f_load_sets_gp", "f_default_comp_fresh", "f_compile_resets_gp", "f_compile_args_local"]


def emit(F):
    lines = ["(* GENERATED by tools/translate/purity_tr.py from the current sources -- do not edit *)",
             "From QV Require Import Model.Heap.", "",
             "Definition src_flags : flags :=", "  mkFlags"]
    for k in ORDER:
        lines.append("    %s   (* %s *)" % ("true" if F[k] else "false", k))
    lines[-1] += "."
    lines += ["", "(* state outside the objects (module level / caches) is outside the heap model: its absence on the pulse-shape",
              "   path GateCompiler.generate_pulse_shape -> _normalized_window is extracted as a separate obligation *)",
              "Definition src_shape_path_stateless : bool := %s." % ("true" if EXTRA.get("src_shape_path_stateless") else "false")]
    return "\n".join(lines) + "\n"


def generate():
    F = translate()
    write_if_changed(os.path.join(COQ, "Gen", "Purity.v"), emit(F))
    return F


if __name__ == "__main__":
    F = generate()
    for k in ORDER:
        print("%-22s %-5s %s" % (k, F[k], WHERE.get(k, "?")))
    for k, v in EXTRA.items():
        print("%-22s %-5s %s" % (k, v, WHERE.get(k, "?")))
