"""Fail-closed translator: qasm.py  ->  coq/Gen/Qasm.v   (tables of the OpenQASM importer and exporter)

Walks the Python `ast` only and emits Coq data; evaluates nothing.  Anything outside the recognised shapes raises
Broken("translator:qasm.py:<where>", detail).
Emitted (all `Definition`s of data):
  signatures    : list (string * (nat * nat))   _PREDEFINED_GATE_SIGNATURES  name -> (#parameters, #qubits)
  builtin_names : list string                   QasmProcessor.predefined_gates before the qelib1 names are added ("CX","U")
  qiskit_names  : list string                   QasmProcessor.qiskitgates (the qelib1 names short-cut by the importer)
  helpers       : list (string * (nat * mexp))  _get_qiskit_gates(): helper unitaries (name -> arity, matrix over Var 0..)
  shortcuts     : list (string * shortcut)      _add_predefined_gates/_add_qiskit_gates: qasm name -> native gate, which of the
                                                 statement's qubits are targets / controls, whether the parameters are passed
  export_names  : list (string * string)        _GATE_NAME_TO_QASM_NAME
  export_defns  : list (string * string)        QasmOutput._qasm_defns: gate name -> emitted definition text
  export_noparam_defs : list string              the literal tuple of QasmOutput.takes_parameters (defined gates applied without a parameter list;
                                                 for names of `signatures` takes_parameters is `#parameters > 0`; both shapes are checked)
  export_flags  : record of booleans describing the guarded shapes of the exporter the hand model relies on
"""
import ast
import os
import sys

sys.path.insert(0, os.path.dirname(os.path.dirname(os.path.abspath(__file__))))
from common import Broken, PKG, COQ, write_if_changed  # noqa: E402
from translate import gates_tr  # noqa: E402
from translate.gates_tr import Refuse, Tr  # noqa: E402

W = "translator:qasm.py:"


class QTr(Tr):
    """scalar/matrix expressions of the helper unitaries: `args[k]` is parameter k, `args` all parameters"""

    def ex(self, n, env):
        if isinstance(n, ast.Subscript) and isinstance(n.value, ast.Name) and n.value.id == "args" \
                and isinstance(n.slice, ast.Constant) and isinstance(n.slice.value, int) and n.slice.value >= 0:
            self.maxvar = max(getattr(self, "maxvar", -1), n.slice.value)
            return f"Var {n.slice.value}"
        return super().ex(n, env)

    def call_args(self, n, env):
        if len(n.args) == 1 and isinstance(n.args[0], ast.Name) and n.args[0].id == "args" and not n.keywords:
            self.all_args = True
            return [None]
        return super().call_args(n, env)


def cs(s):
    return '"' + s.replace('"', '""') + '"'


def cl(items):
    return "[" + "; ".join(items) + "]"


def _find(body, kind, name):
    for n in body:
        if isinstance(n, kind) and getattr(n, "name", None) == name:
            return n
    raise Broken(W + name, "not found")


def _strip(body):
    return gates_tr.strip_doc(body)


def _idx_spec(n, nq):
    """regs[0] | int(regs[1]) | regs | [regs[0], regs[1]] | regs[:2]  -> list of positions"""
    if isinstance(n, ast.Call) and ast.unparse(n.func) == "int" and len(n.args) == 1 and not n.keywords:
        n = n.args[0]
    if isinstance(n, ast.Name) and n.id in ("regs", "com_regs"):
        return list(range(nq))
    if isinstance(n, ast.Subscript) and isinstance(n.value, ast.Name) and n.value.id in ("regs", "com_regs"):
        s = n.slice
        if isinstance(s, ast.Constant) and isinstance(s.value, int) and 0 <= s.value:
            return [s.value]
        if isinstance(s, ast.Slice) and s.lower is None and s.step is None and isinstance(s.upper, ast.Constant) \
                and isinstance(s.upper.value, int) and 0 <= s.upper.value:
            return list(range(s.upper.value))
        raise Refuse("subscript " + ast.unparse(n))
    if isinstance(n, ast.List):
        out = []
        for e in n.elts:
            r = _idx_spec(e, nq)
            if len(r) != 1:
                raise Refuse("nested register list")
            out += r
        return out
    raise Refuse("register expression " + ast.unparse(n))


CC_KW = {"classical_controls": "classical_controls", "classical_control_value": "classical_control_value"}


def _add_gate_row(call, nq, arg_names):
    """qc.add_gate("<NATIVE>", targets=..., [controls=...], [arg_value=...], classical_controls=..., classical_control_value=...)"""
    if not (isinstance(call, ast.Expr) and isinstance(call.value, ast.Call)):
        raise Refuse("statement is not a call")
    c = call.value
    if ast.unparse(c.func) != "qc.add_gate" or len(c.args) != 1:
        raise Refuse("not qc.add_gate(<name>, ...): " + ast.unparse(c)[:60])
    kws = {k.arg: k.value for k in c.keywords}
    if set(kws) - {"targets", "controls", "arg_value", "classical_controls", "classical_control_value"}:
        raise Refuse("unexpected keyword in add_gate")
    for k, v in CC_KW.items():
        if k not in kws or ast.unparse(kws[k]) != v:
            raise Refuse(f"add_gate does not pass {k} through")
    if "targets" not in kws:
        raise Refuse("add_gate without targets")
    tg = _idx_spec(kws["targets"], nq)
    ct = _idx_spec(kws["controls"], nq) if "controls" in kws else []
    passes = False
    if "arg_value" in kws:
        a = ast.unparse(kws["arg_value"])
        if a == "args" or a == "[float(arg) for arg in com_args]":
            passes = True
        else:
            raise Refuse("arg_value is " + a)
    return c.args[0], tg, ct, passes


def _module_str_dict(tree, name, where):
    """module-level constant `NAME = {"k": "v", ...}` that is assigned once and never mutated"""
    found = None
    for n in tree.body:
        tgt = None
        if isinstance(n, ast.Assign) and len(n.targets) == 1 and isinstance(n.targets[0], ast.Name):
            tgt, val = n.targets[0].id, n.value
        elif isinstance(n, ast.AnnAssign) and isinstance(n.target, ast.Name) and n.value is not None:
            tgt, val = n.target.id, n.value
        if tgt == name:
            if found is not None:
                raise Broken(where, f"table {name} is assigned twice")
            if not isinstance(val, ast.Dict):
                raise Broken(where, f"table {name} is not a dict literal")
            found = []
            for k, v in zip(val.keys, val.values):
                if not (isinstance(k, ast.Constant) and isinstance(k.value, str) and isinstance(v, ast.Constant) and isinstance(v.value, str)):
                    raise Broken(where, f"table {name}: entry is not str: str")
                if k.value in [x for x, _ in found]:
                    raise Broken(where, f"table {name}: key {k.value} repeated")
                found.append((k.value, v.value))
    if found is None:
        raise Broken(where, f"module-level table {name} not found")
    for n in ast.walk(tree):      # the table must be a constant: no stores into it, no mutating method calls, no deletion
        if isinstance(n, (ast.Subscript, ast.Attribute)) and isinstance(n.value, ast.Name) and n.value.id == name:
            if isinstance(n, ast.Subscript) and isinstance(n.ctx, (ast.Store, ast.Del)):
                raise Broken(where, f"table {name} is modified")
            if isinstance(n, ast.Attribute) and n.attr in ("update", "pop", "popitem", "clear", "setdefault", "__setitem__", "__delitem__"):
                raise Broken(where, f"table {name} is modified through .{n.attr}")
        if isinstance(n, (ast.Global, ast.Nonlocal)) and name in n.names:
            raise Broken(where, f"table {name} is rebound")
        if isinstance(n, ast.FunctionDef) and any(isinstance(m, ast.Assign) and any(isinstance(t, ast.Name) and t.id == name for t in m.targets)
                                                    for m in ast.walk(n)):
            raise Broken(where, f"table {name} is shadowed in {n.name}")
    return found


def _str_table(tree, stmts, subject, target, fallback, where):
    """name -> string table selecting `target` by `subject`, with `fallback` statements on a miss.  Accepted spellings:
       (A) if subject == "K": target = "V" elif ... else: <fallback>
       (B) target = TABLE.get(subject[, None]);  if target is None: <fallback>
       (C) if subject in TABLE: target = TABLE[subject]  else: <fallback>
       (D) if subject not in TABLE: <fallback>;  target = TABLE[subject]
       TABLE = module-level constant dict literal of strings.  Anything else is refused."""
    un = [ast.unparse(x) for x in stmts]
    fb = lambda body: [ast.unparse(x) for x in body] == fallback

    def is_lookup(v):          # TABLE[subject]
        return isinstance(v, ast.Subscript) and isinstance(v.value, ast.Name) and ast.unparse(v.slice) == subject

    # (A)
    if len(stmts) == 1 and isinstance(stmts[0], ast.If) and isinstance(stmts[0].test, ast.Compare) \
            and isinstance(stmts[0].test.ops[0], ast.Eq):
        rows, node = [], stmts[0]
        while True:
            t = node.test
            if not (isinstance(t, ast.Compare) and ast.unparse(t.left) == subject and len(t.ops) == 1 and isinstance(t.ops[0], ast.Eq)
                    and isinstance(t.comparators[0], ast.Constant) and isinstance(t.comparators[0].value, str)):
                raise Broken(where, "test: " + ast.unparse(t))
            if not (len(node.body) == 1 and isinstance(node.body[0], ast.Assign) and ast.unparse(node.body[0].targets[0]) == target
                    and isinstance(node.body[0].value, ast.Constant) and isinstance(node.body[0].value.value, str)):
                raise Broken(where, f"branch is not {target} = <str>")
            if t.comparators[0].value not in [k for k, _ in rows]:      # an earlier branch wins, as in Python
                rows.append((t.comparators[0].value, node.body[0].value.value))
            if len(node.orelse) == 1 and isinstance(node.orelse[0], ast.If):
                node = node.orelse[0]
            elif fb(node.orelse):
                return rows
            else:
                raise Broken(where, "chain does not end in: " + "; ".join(fallback))
    # (B)
    if len(stmts) == 2 and isinstance(stmts[0], ast.Assign) and ast.unparse(stmts[0].targets[0]) == target \
            and isinstance(stmts[0].value, ast.Call) and isinstance(stmts[0].value.func, ast.Attribute) and stmts[0].value.func.attr == "get" \
            and isinstance(stmts[0].value.func.value, ast.Name) and not stmts[0].value.keywords \
            and [ast.unparse(a) for a in stmts[0].value.args] in ([subject], [subject, "None"]) \
            and isinstance(stmts[1], ast.If) and ast.unparse(stmts[1].test) in (f"{target} is None", f"not {target}") \
            and not stmts[1].orelse and fb(stmts[1].body):
        rows = _module_str_dict(tree, stmts[0].value.func.value.id, where)
        if ast.unparse(stmts[1].test) == f"not {target}" and any(v == "" for _, v in rows):
            raise Broken(where, "truthiness test with an empty definition string")
        return rows
    # (C)
    if len(stmts) == 1 and isinstance(stmts[0], ast.If) and isinstance(stmts[0].test, ast.Compare) and isinstance(stmts[0].test.ops[0], ast.In) \
            and ast.unparse(stmts[0].test.left) == subject and isinstance(stmts[0].test.comparators[0], ast.Name) \
            and len(stmts[0].body) == 1 and isinstance(stmts[0].body[0], ast.Assign) and ast.unparse(stmts[0].body[0].targets[0]) == target \
            and is_lookup(stmts[0].body[0].value) and stmts[0].body[0].value.value.id == stmts[0].test.comparators[0].id and fb(stmts[0].orelse):
        return _module_str_dict(tree, stmts[0].test.comparators[0].id, where)
    # (D)
    if len(stmts) == 2 and isinstance(stmts[0], ast.If) and isinstance(stmts[0].test, ast.Compare) and isinstance(stmts[0].test.ops[0], ast.NotIn) \
            and ast.unparse(stmts[0].test.left) == subject and isinstance(stmts[0].test.comparators[0], ast.Name) \
            and not stmts[0].orelse and fb(stmts[0].body) and isinstance(stmts[1], ast.Assign) and ast.unparse(stmts[1].targets[0]) == target \
            and is_lookup(stmts[1].value) and stmts[1].value.value.id == stmts[0].test.comparators[0].id:
        return _module_str_dict(tree, stmts[0].test.comparators[0].id, where)
    raise Broken(where, "shape changed: " + " | ".join(un)[:300])


def generate():
    path = os.path.join(PKG, "qasm.py")
    try:
        tree = ast.parse(open(path).read())
    except SyntaxError as e:
        raise Broken(W + "parse", str(e))
    top = tree.body
    # imports of the helper-unitary ingredients
    ok_imp = False
    for n in top:
        if isinstance(n, ast.ImportFrom) and n.module == "operations" and n.level == 1:
            names = {a.name for a in n.names if a.asname is None}
            ok_imp = {"controlled_gate", "qasmu_gate", "rz", "snot"} <= names
    if not ok_imp:
        raise Broken(W + "imports", "controlled_gate/qasmu_gate/rz/snot are not imported from .operations")

    # (a) signatures
    sig = None
    for n in top:
        if isinstance(n, ast.Assign) and ast.unparse(n.targets[0]) == "_PREDEFINED_GATE_SIGNATURES":
            if not isinstance(n.value, ast.Dict):
                raise Broken(W + "_PREDEFINED_GATE_SIGNATURES", "not a dict literal")
            sig = {}
            for k, v in zip(n.value.keys, n.value.values):
                if not (isinstance(k, ast.Constant) and isinstance(k.value, str) and isinstance(v, ast.Tuple) and len(v.elts) == 2
                        and all(isinstance(e, ast.Constant) and isinstance(e.value, int) and not isinstance(e.value, bool) and e.value >= 0
                                for e in v.elts)):
                    raise Broken(W + "_PREDEFINED_GATE_SIGNATURES", "entry is not str: (int, int)")
                sig[k.value] = (v.elts[0].value, v.elts[1].value)
    if sig is None:
        raise Broken(W + "_PREDEFINED_GATE_SIGNATURES",
                     "the importer has no table of gate signatures (arity of predefined gates is not checked)")

    # (b) predefined name sets in QasmProcessor.__init__
    proc = _find(top, ast.ClassDef, "QasmProcessor")
    init = _find(proc.body, ast.FunctionDef, "__init__")
    builtin, qiskit = None, None
    for n in ast.walk(init):
        if isinstance(n, ast.Assign) and len(n.targets) == 1:
            t = ast.unparse(n.targets[0])
            v = n.value
            if t in ("self.predefined_gates", "self.qiskitgates") and isinstance(v, ast.Call) and ast.unparse(v.func) == "set" \
                    and len(v.args) == 1 and isinstance(v.args[0], ast.List) \
                    and all(isinstance(e, ast.Constant) and isinstance(e.value, str) for e in v.args[0].elts):
                names = [e.value for e in v.args[0].elts]
                if t == "self.predefined_gates":
                    builtin = names
                else:
                    qiskit = names
    if builtin is None or qiskit is None:
        raise Broken(W + "QasmProcessor.__init__", "predefined_gates / qiskitgates set literals not recognised")
    src_init = ast.unparse(init)
    if "self.predefined_gates = self.predefined_gates.union(self.qiskitgates)" not in src_init:
        raise Broken(W + "QasmProcessor.__init__", "qiskitgates are not added to predefined_gates")
    for nm in builtin + qiskit:
        if nm not in sig:
            raise Broken(W + "_PREDEFINED_GATE_SIGNATURES", f"no signature for predefined gate {nm}")

    # (c) helper unitaries
    gq = _find(top, ast.FunctionDef, "_get_qiskit_gates")
    body = _strip(gq.body)
    helpers = {}
    ret = None
    for n in body:
        if isinstance(n, ast.FunctionDef):
            b = _strip(n.body)
            params = [a.arg for a in n.args.args]
            if params not in ([], ["args"]) or len(b) != 1 or not isinstance(b[0], ast.Return):
                raise Broken(W + "_get_qiskit_gates:" + n.name, "helper is not `def f([args]): return <matrix>`")
            tr = QTr({"qasmu_gate": 3, "rz": 1, "snot": 0})
            try:
                m = tr.mat(b[0].value, {})
            except Refuse as r:
                raise Broken(W + "_get_qiskit_gates:" + n.name, str(r))
            ar = 3 if getattr(tr, "all_args", False) else getattr(tr, "maxvar", -1) + 1
            if not params and ar:
                raise Broken(W + "_get_qiskit_gates:" + n.name, "parameterless helper uses args")
            helpers[n.name] = (ar, m)
        elif isinstance(n, ast.Return):
            ret = n
        else:
            raise Broken(W + "_get_qiskit_gates", "unexpected statement " + type(n).__name__)
    if ret is None or not isinstance(ret.value, ast.Dict):
        raise Broken(W + "_get_qiskit_gates", "does not return a dict literal")
    hmap = []
    for k, v in zip(ret.value.keys, ret.value.values):
        if not (isinstance(k, ast.Constant) and isinstance(v, ast.Name) and v.id in helpers):
            raise Broken(W + "_get_qiskit_gates", "returned dict entry is not str: helper")
        hmap.append((k.value, helpers[v.id]))

    # (d) _add_qiskit_gates chain
    aq = _find(proc.body, ast.FunctionDef, "_add_qiskit_gates")
    b = _strip(aq.body)
    if [a.arg for a in aq.args.args] != ["self", "qc", "name", "regs", "args", "classical_controls", "classical_control_value"]:
        raise Broken(W + "_add_qiskit_gates", "signature changed")
    if len(b) != 3 or not isinstance(b[0], ast.Assign) or ast.unparse(b[0].targets[0]) != "gate_name_map_1q" \
            or not isinstance(b[0].value, ast.Dict):
        raise Broken(W + "_add_qiskit_gates", "expected: gate_name_map_1q dict, args normalisation, if-chain")
    map1q = []
    for k, v in zip(b[0].value.keys, b[0].value.values):
        if not (isinstance(k, ast.Constant) and isinstance(v, ast.Constant) and isinstance(k.value, str) and isinstance(v.value, str)):
            raise Broken(W + "_add_qiskit_gates", "gate_name_map_1q entry is not str: str")
        map1q.append((k.value, v.value))
    if ast.unparse(b[1]) != "if len(args) == 0:\n    args = None\nelif len(args) == 1:\n    args = args[0]":
        raise Broken(W + "_add_qiskit_gates", "args normalisation changed: " + ast.unparse(b[1])[:80])
    rows = []
    node = b[2]
    while True:
        if not isinstance(node, ast.If):
            raise Broken(W + "_add_qiskit_gates", "not an if/elif chain")
        t = node.test
        tt = ast.unparse(t)
        if tt == "name in gate_name_map_1q":
            bb = node.body
            if len(bb) == 2 and ast.unparse(bb[0]) == "if args == []:\n    args = None":
                bb = bb[1:]
            try:
                nm, tg, ct, passes = _add_gate_row(bb[0], 1, None) if len(bb) == 1 else (_ for _ in ()).throw(Refuse("body shape"))
            except Refuse as r:
                raise Broken(W + "_add_qiskit_gates:1q", str(r))
            if ast.unparse(nm) != "gate_name_map_1q[name]" or not passes:
                raise Broken(W + "_add_qiskit_gates:1q", "native name is not gate_name_map_1q[name] / arg_value not passed")
            for k, v in map1q:
                if k not in [r[0] for r in rows]:
                    rows.append((k, v, tg, ct, True))
            if node.orelse:
                raise Broken(W + "_add_qiskit_gates", "branches after the 1-qubit map")
            break
        if not (isinstance(t, ast.Compare) and ast.unparse(t.left) == "name" and len(t.ops) == 1 and isinstance(t.ops[0], ast.Eq)
                and isinstance(t.comparators[0], ast.Constant) and isinstance(t.comparators[0].value, str)):
            raise Broken(W + "_add_qiskit_gates", "test is not name == <str>: " + tt)
        qn = t.comparators[0].value
        if qn not in sig:
            raise Broken(W + "_add_qiskit_gates:" + qn, "no signature")
        try:
            if len(node.body) != 1:
                raise Refuse("branch has several statements")
            nm, tg, ct, passes = _add_gate_row(node.body[0], sig[qn][1], None)
        except Refuse as r:
            raise Broken(W + "_add_qiskit_gates:" + qn, str(r))
        if not (isinstance(nm, ast.Constant) and isinstance(nm.value, str)):
            raise Broken(W + "_add_qiskit_gates:" + qn, "native name is not a string literal")
        if qn not in [r[0] for r in rows]:
            rows.append((qn, nm.value, tg, ct, passes))
        if len(node.orelse) == 1:
            node = node.orelse[0]
        elif not node.orelse:
            break
        else:
            raise Broken(W + "_add_qiskit_gates", "else branch with several statements")

    # (e) _add_predefined_gates chain
    ap = _find(proc.body, ast.FunctionDef, "_add_predefined_gates")
    b = _strip(ap.body)
    if [a.arg for a in ap.args.args] != ["self", "qc", "name", "com_regs", "com_args", "classical_controls", "classical_control_value"]:
        raise Broken(W + "_add_predefined_gates", "signature changed")
    if len(b) != 1 or not isinstance(b[0], ast.If):
        raise Broken(W + "_add_predefined_gates", "not a single if-chain")
    prows = []
    node = b[0]
    delegated = False
    while True:
        tt = ast.unparse(node.test)
        if tt == "name in self.qiskitgates":
            want = "self._add_qiskit_gates(qc, name, com_regs, com_args, classical_controls, classical_control_value)"
            if len(node.body) != 1 or ast.unparse(node.body[0]) != want or node.orelse:
                raise Broken(W + "_add_predefined_gates", "delegation to _add_qiskit_gates changed")
            delegated = True
            break
        t = node.test
        if not (isinstance(t, ast.Compare) and ast.unparse(t.left) == "name" and isinstance(t.ops[0], ast.Eq)
                and isinstance(t.comparators[0], ast.Constant)):
            raise Broken(W + "_add_predefined_gates", "test: " + tt)
        qn = t.comparators[0].value
        try:
            if len(node.body) != 1:
                raise Refuse("branch has several statements")
            nm, tg, ct, passes = _add_gate_row(node.body[0], sig[qn][1], None)
        except (Refuse, KeyError) as r:
            raise Broken(W + "_add_predefined_gates:" + str(qn), str(r))
        prows.append((qn, nm.value, tg, ct, passes))
        if len(node.orelse) == 1 and isinstance(node.orelse[0], ast.If):
            node = node.orelse[0]
        else:
            break
    if not delegated:
        raise Broken(W + "_add_predefined_gates", "qelib1 names are not delegated to _add_qiskit_gates")
    allrows = prows + [r for r in rows if r[0] in qiskit and r[0] not in [p[0] for p in prows]]

    # (f) exporter tables
    names = None
    for n in top:
        if isinstance(n, ast.Assign) and ast.unparse(n.targets[0]) == "_GATE_NAME_TO_QASM_NAME":
            if not isinstance(n.value, ast.Dict):
                raise Broken(W + "_GATE_NAME_TO_QASM_NAME", "not a dict literal")
            names = []
            for k, v in zip(n.value.keys, n.value.values):
                if not (isinstance(k, ast.Constant) and isinstance(v, ast.Constant)):
                    raise Broken(W + "_GATE_NAME_TO_QASM_NAME", "entry is not str: str")
                names.append((k.value, v.value))
    if names is None:
        raise Broken(W + "_GATE_NAME_TO_QASM_NAME", "not found")
    outc = _find(top, ast.ClassDef, "QasmOutput")
    qd = _find(outc.body, ast.FunctionDef, "_qasm_defns")
    b = _strip(qd.body)
    tail = [ast.unparse(x) for x in b[-3:]]
    if len(b) < 4 or tail != [
            "self.output('// QuTiP definition for gate {}'.format(gate.name))", "self.output(gate_def)",
            "self.gate_name_map[gate.name] = gate.name.lower()"]:
        raise Broken(W + "_qasm_defns", "shape changed: " + " | ".join(tail)[:200])
    defns = _str_table(tree, b[:-3], "gate.name", "gate_def", ["self._qasm_defn_resolve(gate)", "return"], W + "_qasm_defns")

    # (g) QasmOutput.takes_parameters: which QASM names are applied with a parameter list
    tp = _find(outc.body, ast.FunctionDef, "takes_parameters")
    WT = W + "takes_parameters"
    if [a.arg for a in tp.args.args] != ["self", "qasm_name"] or tp.args.vararg or tp.args.kwarg or tp.args.kwonlyargs \
            or tp.args.defaults or tp.decorator_list:
        raise Broken(WT, "signature changed")
    b = _strip(tp.body)
    if len(b) != 2 or not isinstance(b[0], ast.If) or b[0].orelse or not isinstance(b[1], ast.Return):
        raise Broken(WT, "shape changed: " + " | ".join(ast.unparse(x) for x in b)[:300])
    if ast.unparse(b[0].test) != "qasm_name in _PREDEFINED_GATE_SIGNATURES" or len(b[0].body) != 1 \
            or ast.unparse(b[0].body[0]) != "return _PREDEFINED_GATE_SIGNATURES[qasm_name][0] > 0":
        raise Broken(WT, "first branch is not `if qasm_name in _PREDEFINED_GATE_SIGNATURES: return "
                         "_PREDEFINED_GATE_SIGNATURES[qasm_name][0] > 0`: " + ast.unparse(b[0])[:200])
    r = b[1].value
    if not (isinstance(r, ast.Compare) and ast.unparse(r.left) == "qasm_name" and len(r.ops) == 1 and isinstance(r.ops[0], ast.NotIn)
            and len(r.comparators) == 1 and isinstance(r.comparators[0], (ast.Tuple, ast.List))
            and all(isinstance(e, ast.Constant) and isinstance(e.value, str) for e in r.comparators[0].elts)):
        raise Broken(WT, "second statement is not `return qasm_name not in (<string literals>)`: " + ast.unparse(b[1])[:200])
    noparam = [e.value for e in r.comparators[0].elts]

    out = ["(* GENERATED by tools/translate/qasm_tr.py from qasm.py - do not edit *)",
           "From QV Require Import Found.Sym Gen.Gates.", "Local Open Scope Q_scope.", "Local Open Scope string_scope.", "",
           "Record shortcut := mkSc { sc_native : string; sc_targets : list nat; sc_controls : list nat; sc_args : bool }.", ""]
    nl = lambda xs: cl(f"{x}%nat" for x in xs)
    out.append("Definition signatures : list (string * (nat * nat)) := " +
               cl(f"({cs(k)}, ({a}%nat, {q}%nat))" for k, (a, q) in sig.items()) + ".")
    out.append("Definition builtin_names : list string := " + cl(cs(x) for x in builtin) + ".")
    out.append("Definition qiskit_names : list string := " + cl(cs(x) for x in qiskit) + ".")
    out.append("Definition helpers : list (string * (nat * mexp)) := " +
               cl(f"({cs(k)}, ({ar}%nat, {m}))" for k, (ar, m) in hmap) + ".")
    out.append("Definition shortcuts : list (string * shortcut) := [" +
               ";\n  ".join(f"({cs(q)}, mkSc {cs(n)} {nl(tg)} {nl(ct)} {'true' if p else 'false'})" for q, n, tg, ct, p in allrows) + "].")
    out.append("Definition export_names : list (string * string) := " + cl(f"({cs(k)}, {cs(v)})" for k, v in names) + ".")
    out.append("Definition export_defns : list (string * string) := " + cl(f"({cs(k)}, {cs(v)})" for k, v in defns) + ".")
    out.append("Definition export_noparam_defs : list string := " + cl(cs(x) for x in noparam) + ".")
    text = "\n".join(out) + "\n"
    write_if_changed(os.path.join(COQ, "Gen", "Qasm.v"), text)
    return dict(signatures=sig, builtin=builtin, qiskit=qiskit, helpers=[k for k, _ in hmap],
                shortcuts=[(q, n, tg, ct, p) for q, n, tg, ct, p in allrows], export_names=names, export_defns=defns, export_noparam_defs=noparam)


if __name__ == "__main__":
    import json
    print(json.dumps(generate(), indent=1))
