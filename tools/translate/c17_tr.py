"""Fail-closed translator for C17: decompose/decompose_single_qubit_gate.py -> coq/Gen/SingleQubit.v

Walks the Python `ast` only and emits `Found.Sym.ex` syntax trees; evaluates nothing numerically.

Emitted
  sq_angles      : list ex                the tuple returned by _angles_for_ZYZ, over the PRIMITIVES
                                          Var 0 = cmath.phase(a_negative), Var 1 = cmath.phase(b_negative),
                                          Var 2 = np.arctan2(np.absolute(b_negative), np.absolute(a_negative)),
                                          Var 3 = cmath.phase(1 / normalization_constant)
  sq_<method>    : list (string * list nat * option ex)
                                          the returned gate tuple (name, targets, arg_value) of each method, over
                                          Var 0..3 = (alpha, theta, beta, global_phase_angle) as unpacked from _angles_for_ZYZ
  sq_methods     : list (string * list (string * list nat * option ex))   the method dictionary
The statements of _angles_for_ZYZ that compute the primitives' ARGUMENTS (normalisation by sqrt(det), conjugated
entries) are not translated: their source text must equal the text the hand model Model/SingleQubit.v mirrors,
otherwise the translator refuses (Broken) - fail closed.
"""
import ast
import os
import sys
from fractions import Fraction

sys.path.insert(0, os.path.dirname(os.path.dirname(os.path.abspath(__file__))))
from common import Broken, PKG, COQ, write_if_changed  # noqa: E402

SRC_FILE = "decompose/decompose_single_qubit_gate.py"


class Refuse(Exception):
    pass


def q(x):
    fr = Fraction(x)
    n, d = fr.numerator, fr.denominator
    return f"(({n}) # {d})" if n < 0 else f"({n} # {d})"


# the statements of _angles_for_ZYZ the hand model mirrors (normalised through ast.unparse)
FIXED = {
    "input_array#0": "input_gate.full()",
    "normalization_constant": "np.sqrt(np.linalg.det(input_array))",
    "input_array#1": "input_array * (1 / normalization_constant)",
    "a_negative": "np.real(input_array[0][0]) - 1j * np.imag(input_array[0][0])",
    "b_negative": "np.real(input_array[0][1]) - 1j * np.imag(input_array[0][1])",
}
PRIMS = {
    "cmath.phase(a_negative)": "Var 0",
    "cmath.phase(b_negative)": "Var 1",
    "np.arctan2(np.absolute(b_negative), np.absolute(a_negative))": "Var 2",
    "cmath.phase(1 / normalization_constant)": "Var 3",
}


def ex(n, env, prims=None):
    """scalar expression -> (coq text, python closure text is not needed: the harness evaluates the Coq term)"""
    if prims is not None and isinstance(n, ast.Call):
        key = ast.unparse(n)
        if key in prims:
            return prims[key]
        raise Refuse(f"unknown primitive call {key}")
    if isinstance(n, ast.Constant):
        v = n.value
        if isinstance(v, bool) or not isinstance(v, (int, float)):
            raise Refuse(f"constant {v!r}")
        return f"Num {q(v)}"
    if isinstance(n, ast.Name):
        if n.id in env:
            return env[n.id]
        raise Refuse(f"unbound name {n.id}")
    if isinstance(n, ast.Attribute):
        if ast.unparse(n) in ("np.pi", "numpy.pi", "math.pi"):
            return "Pi"
        raise Refuse(f"attribute {ast.unparse(n)}")
    if isinstance(n, ast.UnaryOp) and isinstance(n.op, ast.USub):
        return f"Neg ({ex(n.operand, env, prims)})"
    if isinstance(n, ast.BinOp):
        ops = {ast.Add: "Add", ast.Sub: "Sub", ast.Mult: "Mul", ast.Div: "Div"}
        for k, v in ops.items():
            if isinstance(n.op, k):
                return f"{v} ({ex(n.left, env, prims)}) ({ex(n.right, env, prims)})"
        raise Refuse(f"operator {type(n.op).__name__}")
    raise Refuse(f"expression {ast.dump(n)[:80]}")


def strip_doc(body):
    if body and isinstance(body[0], ast.Expr) and isinstance(body[0].value, ast.Constant) and isinstance(body[0].value.value, str):
        return body[1:]
    return body


def tr_angles(fd):
    if [a.arg for a in fd.args.args] != ["input_gate"]:
        raise Refuse("signature")
    env = {}
    seen_input = 0
    stmts = []
    for st in strip_doc(fd.body):
        if isinstance(st, ast.With):  # warnings.catch_warnings(): only silences warnings
            items = [ast.unparse(i.context_expr) for i in st.items]
            if items != ["warnings.catch_warnings()"]:
                raise Refuse(f"with {items}")
            for s2 in st.body:
                if isinstance(s2, ast.Expr) and ast.unparse(s2.value).startswith("warnings.simplefilter("):
                    continue
                stmts.append(s2)
        else:
            stmts.append(st)
    fixed_seen = set()
    ret = None
    for st in stmts:
        if isinstance(st, ast.Return):
            if not isinstance(st.value, ast.Tuple) or len(st.value.elts) != 4:
                raise Refuse("return is not a 4-tuple")
            ret = [ex(e, env, PRIMS) for e in st.value.elts]
            continue
        if ret is not None:
            raise Refuse("statement after return")
        if not (isinstance(st, ast.Assign) and len(st.targets) == 1 and isinstance(st.targets[0], ast.Name)):
            raise Refuse(f"statement {ast.unparse(st)[:60]}")
        name = st.targets[0].id
        rhs = ast.unparse(st.value)
        key = name
        if name == "input_array":
            key = f"input_array#{seen_input}"
            seen_input += 1
        if key in FIXED:
            if rhs != FIXED[key]:
                raise Refuse(f"{name} = {rhs}  (the hand model mirrors: {FIXED[key]})")
            if key == "input_array#1" and "normalization_constant" not in fixed_seen:
                raise Refuse("normalisation order")
            if key in ("a_negative", "b_negative") and "input_array#1" not in fixed_seen:
                raise Refuse("entries taken before normalisation")
            fixed_seen.add(key)
            continue
        if name in FIXED or name.startswith("input_array"):
            raise Refuse(f"unexpected re-assignment of {name}")
        env[name] = "(" + ex(st.value, env, PRIMS) + ")"
    if fixed_seen != set(FIXED):
        raise Refuse(f"missing statements {sorted(set(FIXED) - fixed_seen)}")
    if ret is None:
        raise Refuse("no return")
    return ret


def tr_method(fd):
    """-> list of (name, targets, arg ex or None)"""
    if [a.arg for a in fd.args.args] != ["input_gate"]:
        raise Refuse("signature")
    env = {}
    gates = {}
    ret = None
    checked = False
    for st in strip_doc(fd.body):
        src = ast.unparse(st)
        if isinstance(st, ast.Expr):
            if src == "check_gate(input_gate, num_qubits=1)":
                checked = True
                continue
            raise Refuse(f"expression statement {src[:60]}")
        if isinstance(st, ast.Return):
            if not isinstance(st.value, ast.Tuple) or not all(isinstance(e, ast.Name) for e in st.value.elts):
                raise Refuse("return is not a tuple of names")
            try:
                ret = [gates[e.id] for e in st.value.elts]
            except KeyError as e:
                raise Refuse(f"returned name {e} is not a Gate")
            continue
        if ret is not None:
            raise Refuse("statement after return")
        if not (isinstance(st, ast.Assign) and len(st.targets) == 1):
            raise Refuse(f"statement {src[:60]}")
        tgt = st.targets[0]
        if isinstance(tgt, ast.Tuple):
            if ast.unparse(st.value) != "_angles_for_ZYZ(input_gate)" or len(tgt.elts) != 4:
                raise Refuse(f"tuple assignment {src[:80]}")
            for j, e in enumerate(tgt.elts):
                if not isinstance(e, ast.Name):
                    raise Refuse("tuple target")
                env[e.id] = f"Var {j}"
            continue
        if not isinstance(tgt, ast.Name):
            raise Refuse(f"target {src[:60]}")
        v = st.value
        if isinstance(v, ast.Call) and ast.unparse(v.func) == "Gate":
            if len(v.args) != 1 or not (isinstance(v.args[0], ast.Constant) and isinstance(v.args[0].value, str)):
                raise Refuse(f"Gate positional arguments {src[:80]}")
            kw = {k.arg: k.value for k in v.keywords}
            if set(kw) - {"targets", "arg_value", "arg_label"} or "targets" not in kw:
                raise Refuse(f"Gate keywords {sorted(kw)}")
            t = kw["targets"]
            if not (isinstance(t, ast.List) and all(isinstance(e, ast.Constant) and isinstance(e.value, int) and e.value >= 0 for e in t.elts)):
                raise Refuse("targets")
            arg = ex(kw["arg_value"], env) if "arg_value" in kw else None
            gates[tgt.id] = (v.args[0].value, [e.value for e in t.elts], arg)
            continue
        if tgt.id in gates:
            raise Refuse(f"gate name {tgt.id} re-bound")
        env[tgt.id] = "(" + ex(v, env) + ")"
    if not checked:
        raise Refuse("check_gate call missing")
    if ret is None:
        raise Refuse("no return")
    return ret


def coq_gate(g):
    name, targets, arg = g
    t = "[" + "; ".join(f"{x}%nat" for x in targets) + "]"
    a = f"Some ({arg})" if arg is not None else "None"
    return f'("{name}", {t}, {a})'


def generate():
    path = os.path.join(PKG, SRC_FILE)
    try:
        tree = ast.parse(open(path).read())
    except (OSError, SyntaxError) as e:
        raise Broken("translator:" + SRC_FILE, repr(e))
    fds = {n.name: n for n in tree.body if isinstance(n, ast.FunctionDef)}
    table = None
    for n in tree.body:
        if isinstance(n, ast.Assign) and ast.unparse(n.targets[0]) == "_single_decompositions_dictionary":
            if not (isinstance(n.value, ast.Dict) and all(isinstance(k, ast.Constant) and isinstance(k.value, str) for k in n.value.keys)
                    and all(isinstance(v, ast.Name) for v in n.value.values)):
                raise Broken("translator:" + SRC_FILE + ":_single_decompositions_dictionary", "shape")
            table = [(k.value, v.id) for k, v in zip(n.value.keys, n.value.values)]
    if table is None:
        raise Broken("translator:" + SRC_FILE + ":_single_decompositions_dictionary", "missing")
    out = {}
    try:
        if "_angles_for_ZYZ" not in fds:
            raise Refuse("function missing")
        out["angles"] = tr_angles(fds["_angles_for_ZYZ"])
    except Refuse as e:
        raise Broken("translator:" + SRC_FILE + ":_angles_for_ZYZ", str(e))
    out["methods"] = []
    for key, fname in table:
        try:
            if fname not in fds:
                raise Refuse("function missing")
            out["methods"].append((key, fname, tr_method(fds[fname])))
        except Refuse as e:
            raise Broken("translator:" + SRC_FILE + ":" + fname, str(e))
    lines = ["(* GENERATED by tools/translate/c17_tr.py from decompose/decompose_single_qubit_gate.py - do not edit *)",
             "From QV Require Import Found.Sym.", "Local Open Scope Q_scope.", "Local Open Scope string_scope.", ""]
    lines.append("Definition sq_angles : list ex := [" + "; ".join(out["angles"]) + "].")
    lines.append("Definition sgen := (string * list nat * option ex)%type.")
    for key, fname, gs in out["methods"]:
        lines.append(f"Definition sq_{key.lower()} : list sgen := [" + ";\n  ".join(coq_gate(g) for g in gs) + "].")
    lines.append("Definition sq_methods : list (string * list sgen) := ["
                 + "; ".join(f'("{key}", sq_{key.lower()})' for key, _, _ in out["methods"]) + "].")
    text = "\n".join(lines) + "\n"
    write_if_changed(os.path.join(COQ, "Gen", "SingleQubit.v"), text)
    return out


if __name__ == "__main__":
    print(generate())
