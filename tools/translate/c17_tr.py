"""Fail-closed translator for C17: decompose/decompose_single_qubit_gate.py -> coq/Gen/SingleQubit.v

Walks the Python `ast` only and emits `Found.Sym.ex` syntax trees; evaluates nothing numerically.

Emitted
  sq_angles      : list ex                the tuple returned by _angles_for_ZYZ, over the PRIMITIVES
                                          Var 0 = cmath.phase(a_negative), Var 1 = cmath.phase(b_negative),
                                          Var 2 = np.arctan2(np.absolute(b_negative), np.absolute(a_negative)),
                                          Var 3 = cmath.phase(1 / normalization_constant)
  sq_<method>    : list (string * list nat * option ex)
                                          the returned gate tuple (name, targets, arg_value) of each method, over
                                          Var 0..3 = (alpha, theta, beta, global_phase_angle) as unpacked from _angles_for_ZYZ
  sq_methods     : list (string * list (string * list nat * option ex))   the method dictionary

How source is read (tolerant to behaviour-preserving refactorings, still fail-closed):
  * every function body must be straight-line code of assignments of PURE expressions (numbers, np.pi, + - * /, unary -,
    constant subscripts, and calls of a fixed white-list of numpy/cmath functions) - anything else is refused;
  * each assignment is turned into an expression TREE with all earlier locals (and module-level constants such as
    `_HALF_PI = np.pi / 2`) inlined, so renaming locals, extracting a sub-expression into a temporary or inlining one
    does not change the trees;
  * `c * x` / `x * c` with 1/c an integer (0.5 * x) is the same tree as `x / (1/c)` (identical IEEE result: scaling by a
    power of two; the Coq side is over the reals anyway);
  * the four primitives are recognised by comparing TREES with the trees of the reference statements REF below - the
    five statements of _angles_for_ZYZ that prepare the arguments of phase/sqrt/arctan2, which the hand model
    Model/SingleQubit.v [prims] mirrors.  Any call whose tree is not one of the four primitives is refused.
"""
import ast
import os
import sys
from fractions import Fraction

sys.path.insert(0, os.path.dirname(os.path.dirname(os.path.abspath(__file__))))
import common  # noqa: E402
from common import Broken, PKG, write_if_changed  # noqa: E402

SRC_FILE = "decompose/decompose_single_qubit_gate.py"

# what Model/SingleQubit.v [prims] mirrors
REF = '''
def _ref(input_gate):
    input_array = input_gate.full()
    normalization_constant = np.sqrt(np.linalg.det(input_array))
    input_array = input_array * (1 / normalization_constant)
    a_negative = np.real(input_array[0][0]) - 1j * np.imag(input_array[0][0])
    b_negative = np.real(input_array[0][1]) - 1j * np.imag(input_array[0][1])
    return (cmath.phase(a_negative), cmath.phase(b_negative),
            np.arctan2(np.absolute(b_negative), np.absolute(a_negative)),
            cmath.phase(1 / normalization_constant))
'''

# pure functions that may occur (canonical name by alias)
PURE_CALLS = {
    "np.sqrt": "sqrt", "numpy.sqrt": "sqrt",
    "np.linalg.det": "det", "numpy.linalg.det": "det",
    "np.real": "real", "numpy.real": "real", "np.imag": "imag", "numpy.imag": "imag",
    "np.absolute": "abs", "numpy.absolute": "abs", "np.abs": "abs", "numpy.abs": "abs",
    "np.arctan2": "arctan2", "numpy.arctan2": "arctan2",
    "cmath.phase": "phase",
}
ANGLES = ("angles_for_ZYZ",)   # the tree of the call _angles_for_ZYZ(input_gate)
ARG = ("arg",)                 # the function argument input_gate


class Refuse(Exception):
    pass


def q(x):
    fr = Fraction(x)
    n, d = fr.numerator, fr.denominator
    return f"(({n}) # {d})" if n < 0 else f"({n} # {d})"


def _num(v):
    if isinstance(v, bool):
        raise Refuse("bool constant")
    if isinstance(v, (int, float)):
        if isinstance(v, float) and (v != v or v in (float("inf"), float("-inf"))):
            raise Refuse("non-finite constant")
        return ("num", Fraction(v))
    if isinstance(v, complex) and v.real == 0:
        return ("imag", Fraction(v.imag))
    raise Refuse(f"constant {v!r}")


def _mul(a, b):
    """canonical product: scaling by the reciprocal of an integer is a division"""
    for c, x in ((a, b), (b, a)):
        if c[0] == "num" and c[1] != 0 and c[1].numerator in (1, -1) and c[1].denominator != 1:
            k = Fraction(1) / c[1]
            return ("div", x, ("num", k))
    return ("mul", a, b)


def tree(n, env):
    """pure expression -> canonical tree with locals / module constants inlined"""
    if isinstance(n, ast.Constant):
        return _num(n.value)
    if isinstance(n, ast.Name):
        if n.id in env:
            return env[n.id]
        raise Refuse(f"unbound name {n.id}")
    if isinstance(n, ast.Attribute):
        if ast.unparse(n) in ("np.pi", "numpy.pi", "math.pi", "cmath.pi"):
            return ("pi",)
        raise Refuse(f"attribute {ast.unparse(n)}")
    if isinstance(n, ast.UnaryOp):
        if isinstance(n.op, ast.USub):
            return ("neg", tree(n.operand, env))
        if isinstance(n.op, ast.UAdd):
            return tree(n.operand, env)
        raise Refuse(f"unary {type(n.op).__name__}")
    if isinstance(n, ast.BinOp):
        a, b = tree(n.left, env), tree(n.right, env)
        if isinstance(n.op, ast.Add):
            return ("add", a, b)
        if isinstance(n.op, ast.Sub):
            return ("sub", a, b)
        if isinstance(n.op, ast.Mult):
            return _mul(a, b)
        if isinstance(n.op, ast.Div):
            return ("div", a, b)
        raise Refuse(f"operator {type(n.op).__name__}")
    if isinstance(n, ast.Subscript):
        base = tree(n.value, env)
        sl = n.slice
        idxs = sl.elts if isinstance(sl, ast.Tuple) else [sl]
        for i in idxs:
            if not (isinstance(i, ast.Constant) and isinstance(i.value, int) and not isinstance(i.value, bool) and i.value >= 0):
                raise Refuse(f"subscript {ast.unparse(n)}")
            base = ("idx", base, i.value)
        return base
    if isinstance(n, ast.Call):
        if n.keywords:
            raise Refuse(f"keyword arguments in {ast.unparse(n)[:60]}")
        f = n.func
        fname = ast.unparse(f)
        if fname in PURE_CALLS and fname.split(".")[0] not in env:
            return ("call", PURE_CALLS[fname]) + tuple(tree(a, env) for a in n.args)
        if fname == "_angles_for_ZYZ" and len(n.args) == 1 and tree(n.args[0], env) == ARG and fname not in env:
            return ANGLES
        if isinstance(f, ast.Attribute) and f.attr == "full" and not n.args:
            return ("full", tree(f.value, env))
        raise Refuse(f"call {fname}")
    raise Refuse(f"expression {ast.dump(n)[:80]}")


def to_ex(t, prims):
    """tree -> Coq text of Found.Sym.ex; `prims` maps primitive trees to variables"""
    if t in prims:
        return prims[t]
    k = t[0]
    if k == "num":
        return f"Num {q(t[1])}"
    if k == "pi":
        return "Pi"
    if k == "neg":
        return f"Neg ({to_ex(t[1], prims)})"
    if k in ("add", "sub", "mul", "div"):
        return f"{k.capitalize()} ({to_ex(t[1], prims)}) ({to_ex(t[2], prims)})"
    raise Refuse(f"not an angle expression over the primitives: {str(t)[:120]}")


def strip_doc(body):
    if body and isinstance(body[0], ast.Expr) and isinstance(body[0].value, ast.Constant) and isinstance(body[0].value.value, str):
        return body[1:]
    return body


def flatten(body):
    """straight-line statements; `with warnings.catch_warnings():` blocks (which only silence warnings) are opened"""
    out = []
    for st in body:
        if isinstance(st, ast.With):
            items = [ast.unparse(i.context_expr) for i in st.items]
            if items != ["warnings.catch_warnings()"] or any(i.optional_vars is not None for i in st.items):
                raise Refuse(f"with {items}")
            out += flatten(st.body)
        elif isinstance(st, ast.Expr) and ast.unparse(st.value).startswith("warnings.simplefilter("):
            continue
        elif isinstance(st, ast.Pass):
            continue
        else:
            out.append(st)
    return out


def run_assignments(stmts, env, on_other=None):
    """bind names sequentially; returns the Return node"""
    ret = None
    for st in stmts:
        if ret is not None:
            raise Refuse("statement after return")
        if isinstance(st, ast.Return):
            ret = st
            continue
        if isinstance(st, ast.Assign) and len(st.targets) == 1:
            tgt = st.targets[0]
            if isinstance(tgt, ast.Name):
                if on_other is not None and on_other(tgt.id, st.value, env):
                    continue
                env[tgt.id] = tree(st.value, env)
                continue
            if isinstance(tgt, ast.Tuple) and all(isinstance(e, ast.Name) for e in tgt.elts):
                if isinstance(st.value, ast.Tuple) and len(st.value.elts) == len(tgt.elts):
                    vals = [tree(v, env) for v in st.value.elts]
                else:
                    v = tree(st.value, env)
                    if v != ANGLES or len(tgt.elts) != 4:
                        raise Refuse(f"tuple assignment {ast.unparse(st)[:80]}")
                    vals = [("idx", v, j) for j in range(4)]
                for e, v in zip(tgt.elts, vals):
                    env[e.id] = v
                continue
        raise Refuse(f"statement {ast.unparse(st)[:70]}")
    if ret is None:
        raise Refuse("no return")
    return ret


def _arg_name(fd):
    a = fd.args
    if len(a.args) != 1 or a.vararg or a.kwarg or a.kwonlyargs or a.posonlyargs or a.defaults:
        raise Refuse("signature")
    return a.args[0].arg


def _no_scoping_tricks(fd):
    for n in ast.walk(fd):
        if isinstance(n, (ast.Global, ast.Nonlocal, ast.FunctionDef, ast.Lambda, ast.ClassDef, ast.NamedExpr)) and n is not fd:
            raise Refuse(f"{type(n).__name__} inside {fd.name}")


def prim_trees(fd, consts):
    """4-tuple of trees returned by a function shaped like REF"""
    _no_scoping_tricks(fd)
    env = dict(consts)
    env[_arg_name(fd)] = ARG
    ret = run_assignments(flatten(strip_doc(fd.body)), env)
    if not isinstance(ret.value, ast.Tuple) or len(ret.value.elts) != 4:
        raise Refuse("return is not a 4-tuple")
    return [tree(e, env) for e in ret.value.elts]


def tr_angles(fd, consts):
    ref = ast.parse(REF).body[0]
    prims = {t: f"Var {j}" for j, t in enumerate(prim_trees(ref, {}))}
    return [to_ex(t, prims) for t in prim_trees(fd, consts)]


def tr_method(fd, consts):
    """-> list of (name, targets, arg ex or None)"""
    _no_scoping_tricks(fd)
    env = dict(consts)
    env[_arg_name(fd)] = ARG
    gates = {}
    prims = {("idx", ANGLES, j): f"Var {j}" for j in range(4)}
    state = {"checked": False}

    def gate_assign(name, value, env_):
        if isinstance(value, ast.Call) and ast.unparse(value.func) == "Gate" and "Gate" not in env_:
            kw = {k.arg: k.value for k in value.keywords}
            if None in kw:
                raise Refuse("**kwargs in Gate(...)")
            args = list(value.args)
            if args and "name" not in kw:
                kw["name"] = args.pop(0)
            if args or set(kw) - {"name", "targets", "arg_value", "arg_label"} or "name" not in kw or "targets" not in kw:
                raise Refuse(f"Gate arguments {ast.unparse(value)[:80]}")
            if not (isinstance(kw["name"], ast.Constant) and isinstance(kw["name"].value, str)):
                raise Refuse("Gate name is not a string literal")
            t = kw["targets"]
            if not (isinstance(t, ast.List) and all(isinstance(e, ast.Constant) and isinstance(e.value, int) and not isinstance(e.value, bool) and e.value >= 0 for e in t.elts)):
                raise Refuse("targets")
            arg = to_ex(tree(kw["arg_value"], env_), prims) if "arg_value" in kw else None
            gates[name] = (kw["name"].value, [e.value for e in t.elts], arg)
            env_.pop(name, None)
            return True
        if name in gates:
            if isinstance(value, ast.Name) and value.id in gates:
                gates[name] = gates[value.id]
                return True
            raise Refuse(f"gate name {name} re-bound")
        if isinstance(value, ast.Name) and value.id in gates:
            gates[name] = gates[value.id]
            return True
        return False

    stmts = []
    for st in flatten(strip_doc(fd.body)):
        if isinstance(st, ast.Expr):
            if ast.unparse(st) == f"check_gate({_arg_name(fd)}, num_qubits=1)":
                state["checked"] = True
                continue
            raise Refuse(f"expression statement {ast.unparse(st)[:60]}")
        stmts.append(st)
    ret = run_assignments(stmts, env, gate_assign)
    if not isinstance(ret.value, ast.Tuple) or not all(isinstance(e, ast.Name) for e in ret.value.elts):
        raise Refuse("return is not a tuple of names")
    try:
        out = [gates[e.id] for e in ret.value.elts]
    except KeyError as e:
        raise Refuse(f"returned name {e} is not a Gate")
    if not state["checked"]:
        raise Refuse("check_gate call missing")
    return out


def module_constants(tree_):
    """module-level `NAME = pure arithmetic over numbers and np.pi`, assigned exactly once and never declared global"""
    for n in ast.walk(tree_):
        if isinstance(n, (ast.Global, ast.Nonlocal)):
            raise Refuse("global/nonlocal statement")
    counts = {}
    for n in ast.walk(tree_):
        if isinstance(n, (ast.Assign, ast.AugAssign, ast.AnnAssign)):
            tg = n.targets if isinstance(n, ast.Assign) else [n.target]
            for t in tg:
                for m in ast.walk(t):
                    if isinstance(m, ast.Name):
                        counts[m.id] = counts.get(m.id, 0) + 1
    consts = {}
    for n in tree_.body:
        if isinstance(n, ast.Assign) and len(n.targets) == 1 and isinstance(n.targets[0], ast.Name):
            name = n.targets[0].id
            try:
                t = tree(n.value, consts)
                to_ex(t, {})
            except Refuse:
                continue
            if counts.get(name, 0) == 1:
                consts[name] = t
    return consts


def coq_gate(g):
    name, targets, arg = g
    t = "[" + "; ".join(f"{x}%nat" for x in targets) + "]"
    a = f"Some ({arg})" if arg is not None else "None"
    return f'("{name}", {t}, {a})'


def generate():
    path = os.path.join(PKG, SRC_FILE)
    try:
        mod = ast.parse(open(path).read())
    except (OSError, SyntaxError) as e:
        raise Broken("translator:" + SRC_FILE, repr(e))
    fds = {}
    for n in mod.body:
        if isinstance(n, ast.FunctionDef):
            if n.name in fds:
                raise Broken("translator:" + SRC_FILE + ":" + n.name, "defined twice")
            fds[n.name] = n
    try:
        consts = module_constants(mod)
    except Refuse as e:
        raise Broken("translator:" + SRC_FILE, str(e))
    table = None
    for n in mod.body:
        if isinstance(n, ast.Assign) and ast.unparse(n.targets[0]) == "_single_decompositions_dictionary":
            if not (isinstance(n.value, ast.Dict) and all(isinstance(k, ast.Constant) and isinstance(k.value, str) for k in n.value.keys)
                    and all(isinstance(v, ast.Name) for v in n.value.values)):
                raise Broken("translator:" + SRC_FILE + ":_single_decompositions_dictionary", "shape")
            table = [(k.value, v.id) for k, v in zip(n.value.keys, n.value.values)]
    if table is None:
        raise Broken("translator:" + SRC_FILE + ":_single_decompositions_dictionary", "missing")
    out = {}
    try:
        if "_angles_for_ZYZ" not in fds:
            raise Refuse("function missing")
        out["angles"] = tr_angles(fds["_angles_for_ZYZ"], consts)
    except Refuse as e:
        raise Broken("translator:" + SRC_FILE + ":_angles_for_ZYZ", str(e))
    out["methods"] = []
    for key, fname in table:
        try:
            if fname not in fds:
                raise Refuse("function missing")
            out["methods"].append((key, fname, tr_method(fds[fname], consts)))
        except Refuse as e:
            raise Broken("translator:" + SRC_FILE + ":" + fname, str(e))
    lines = ["(* GENERATED by tools/translate/c17_tr.py from decompose/decompose_single_qubit_gate.py - do not edit *)",
             "From QV Require Import Found.Sym.", "Local Open Scope Q_scope.", "Local Open Scope string_scope.", ""]
    lines.append("Definition sq_angles : list ex := [" + "; ".join(out["angles"]) + "].")
    lines.append("Definition sgen := (string * list nat * option ex)%type.")
    for key, fname, gs in out["methods"]:
        lines.append(f"Definition sq_{key.lower()} : list sgen := [" + ";\n  ".join(coq_gate(g) for g in gs) + "].")
    lines.append("Definition sq_methods : list (string * list sgen) := ["
                 + "; ".join(f'("{key}", sq_{key.lower()})' for key, _, _ in out["methods"]) + "].")
    text = "\n".join(lines) + "\n"
    write_if_changed(os.path.join(common.COQ, "Gen", "SingleQubit.v"), text)
    return out


if __name__ == "__main__":
    print(generate())
