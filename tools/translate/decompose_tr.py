"""Fail-closed translator: circuit/_decompose.py + QubitCircuit.resolve_gates (circuit/circuit.py) -> coq/Gen/Decompose.v

Walks the Python `ast` only and emits DATA (no computation, no control flow) in the syntax of Model/ResolveTypes.v:
  gate_defs        : list (string * rule)     body of every `def _gate_<X>` (key = X)
  gate_table       : list (string * string)   every module-level name `_gate_<N>` -> the def it is bound to (defs and aliases,
                                              in module order, later bindings override earlier ones like Python does)
  basis_passes     : list (string * list (string * list emit))   `_basis_<Y>`: per gate-name branch, what is appended
                                              (every other gate is appended unchanged)
  elim_rules       : list (string * list emit) third-rotation elimination branches of resolve_gates (applied when the
                                              name is not in basis_1q)
  basis_1q_valid, basis_2q_valid, basis_2q_order, default_1q_list, default_1q_str, default_basis : list string
  pauli_names      : list string;  pauli_marker, pauli_subst : emit
  pauli_marker_to_temp : bool     the Pauli phase marker is appended to `temp_resolved` (true) or to `qc_temp.gates` (false)
  str_basis_listified  : bool     the string-basis branch rebinds `basis = [basis]` (true) or leaves the string (false)
  rot_normalised       : bool     the list branch reduces basis_1q to `[g for g in rot_norm_list if g in basis_1q]` before counting
  rot_norm_list        : list string
Any shape outside the recognised subset raises Broken("translator:<file>:<function>", detail).
"""
import ast
import os
import sys
from fractions import Fraction

sys.path.insert(0, os.path.dirname(os.path.dirname(os.path.abspath(__file__))))
from common import Broken, PKG, COQ, write_if_changed  # noqa: E402


class Refuse(Exception):
    pass


def q(x):
    fr = Fraction(x)
    n, d = fr.numerator, fr.denominator
    return f"(({n}) # {d})" if n < 0 else f"({n} # {d})"


def cstr(s):
    if not isinstance(s, str) or '"' in s or "\\" in s or any(ord(c) > 126 or ord(c) < 32 for c in s):
        raise Refuse(f"string constant {s!r}")
    return '"' + s + '"'


def cstrs(l):
    return "[" + "; ".join(cstr(s) for s in l) + "]"


def strip_outer(e):
    """remove parentheses that enclose the whole text (canonical form: compositions add exactly one pair)"""
    while e.startswith("(") and e.endswith(")"):
        depth = 0
        for i, ch in enumerate(e):
            depth += ch == "("
            depth -= ch == ")"
            if depth == 0 and i < len(e) - 1:
                return e
        e = e[1:-1].strip()
    return e


def _lin(t):
    """exact value of an emitted expression text as c0 + cpi*pi + cvar*Var0 (Fractions), or None if it is not of that form"""
    toks = t.replace("(", " ( ").replace(")", " ) ").split()
    pos = [0]

    def atom():
        k = toks[pos[0]]
        if k == "(":
            pos[0] += 1
            v = term()
            if toks[pos[0]] != ")":
                raise ValueError
            pos[0] += 1
            return v
        return term()

    def term():
        k = toks[pos[0]]
        pos[0] += 1
        if k == "Pi":
            return (Fraction(0), Fraction(1), Fraction(0))
        if k == "Var":
            if toks[pos[0]] != "0":
                raise ValueError
            pos[0] += 1
            return (Fraction(0), Fraction(0), Fraction(1))
        if k == "Num":
            if toks[pos[0]] != "(":
                raise ValueError
            pos[0] += 1
            neg = False
            if toks[pos[0]] == "(":          # ((-3) # 4)
                pos[0] += 1
                num = int(toks[pos[0]])
                pos[0] += 2
            else:
                num = int(toks[pos[0]])
                pos[0] += 1
            if toks[pos[0]] != "#":
                raise ValueError
            den = int(toks[pos[0] + 1])
            pos[0] += 3
            return (Fraction(num, den), Fraction(0), Fraction(0))
        if k == "Neg":
            a = atom()
            return tuple(-x for x in a)
        if k in ("Add", "Sub", "Mul", "Div"):
            a, b = atom(), atom()
            if k == "Add":
                return tuple(x + y for x, y in zip(a, b))
            if k == "Sub":
                return tuple(x - y for x, y in zip(a, b))
            ca, cb = a[1] == 0 and a[2] == 0, b[1] == 0 and b[2] == 0
            if k == "Mul":
                if ca:
                    return tuple(a[0] * y for y in b)
                if cb:
                    return tuple(b[0] * x for x in a)
                raise ValueError
            if cb and b[0] != 0:
                return tuple(x / b[0] for x in a)
            raise ValueError
        raise ValueError
    try:
        v = term()
        if pos[0] != len(toks):
            return None
        return v
    except (ValueError, IndexError, ZeroDivisionError):
        return None


def canonical(t):
    """canonical text of a rational-linear expression in pi and gate.arg_value (exact folding of the literal parts);
    anything else is left as it is written"""
    v = _lin(t)
    if v is None:
        return t
    c0, cpi, cv = v
    parts = []
    if c0 != 0:
        parts.append(f"Num {q(c0)}")
    for c, base in ((cpi, "Pi"), (cv, "Var 0")):
        if c == 1:
            parts.append(base)
        elif c == -1:
            parts.append(f"Neg ({base})")
        elif c != 0:
            parts.append(f"Mul (Num {q(c)}) ({base})")
    if not parts:
        return f"Num {q(0)}"
    out = parts[0]
    for p_ in parts[1:]:
        out = f"Add ({out}) ({p_})"
    return out


def ex(n, env, gate="gate"):
    return canonical(strip_outer(_ex(n, env, gate)))


def _ex(n, env, gate="gate"):
    """scalar (angle) expression -> Found.Sym.ex text; gate.arg_value = Var 0"""
    if isinstance(n, ast.Constant):
        v = n.value
        if isinstance(v, bool) or not isinstance(v, (int, float)):
            raise Refuse(f"constant {v!r}")
        return f"Num {q(v)}"
    if isinstance(n, ast.Name):
        if n.id in env:
            if not isinstance(env[n.id], str):
                raise Refuse(f"local {n.id} is not a scalar")
            return env[n.id]
        raise Refuse(f"unbound name {n.id}")
    if isinstance(n, ast.Attribute):
        t = ast.unparse(n)
        if t in ("np.pi", "numpy.pi", "math.pi"):
            return "Pi"
        if t == gate + ".arg_value":
            return "Var 0"
        raise Refuse(f"attribute {t}")
    if isinstance(n, ast.UnaryOp) and isinstance(n.op, ast.USub):
        return f"Neg ({ex(n.operand, env, gate)})"
    if isinstance(n, ast.UnaryOp) and isinstance(n.op, ast.UAdd):
        return ex(n.operand, env, gate)
    if isinstance(n, ast.BinOp):
        for k, v in {ast.Add: "Add", ast.Sub: "Sub", ast.Mult: "Mul", ast.Div: "Div"}.items():
            if isinstance(n.op, k):
                return f"{v} ({ex(n.left, env, gate)}) ({ex(n.right, env, gate)})"
        raise Refuse(f"operator {type(n.op).__name__}")
    raise Refuse(f"scalar node {type(n).__name__}")


def qroles(n, gate="gate", env=None):
    """qubit argument of Gate(...) -> list of role texts.  Locals bound to qubit expressions (`first = gate.targets[0]`) are
    kept in env as ("Q", roles, is_scalar); their use is recorded in env["__used__"]."""
    env = env if env is not None else {}
    if n is None or (isinstance(n, ast.Constant) and n.value is None):
        return []
    t = ast.unparse(n)
    if t == gate + ".targets":
        return ["AllT"]
    if t == gate + ".controls":
        return ["AllC"]
    if isinstance(n, ast.Name) and isinstance(env.get(n.id), tuple) and env[n.id][0] == "Q":
        env.setdefault("__used__", set()).add(n.id)
        return list(env[n.id][1])
    if isinstance(n, ast.Subscript) and isinstance(n.slice, ast.Constant) and isinstance(n.slice.value, int) \
            and not isinstance(n.slice.value, bool) and n.slice.value >= 0:
        b = ast.unparse(n.value)
        if b == gate + ".targets":
            return [f"TIdx {n.slice.value}"]
        if b == gate + ".controls":
            return [f"CIdx {n.slice.value}"]
        raise Refuse(f"subscript of {b}")
    if isinstance(n, ast.List):
        out = []
        for e in n.elts:
            if isinstance(e, ast.Subscript):
                out += qroles(e, gate, env)
            elif isinstance(e, ast.Name) and isinstance(env.get(e.id), tuple) and env[e.id][0] == "Q" and env[e.id][2]:
                out += qroles(e, gate, env)       # a local holding ONE qubit index
            else:
                raise Refuse("list element is not an indexed qubit")
        return out
    raise Refuse(f"qubit argument {t}")


def qubit_local(n, gate, env):
    """value of `name = <qubit expression>` -> ("Q", roles, holds a single index) or None"""
    try:
        r = qroles(n, gate, env)
    except Refuse:
        return None
    if n is None or isinstance(n, ast.Constant):
        return None
    single = isinstance(n, ast.Subscript) or (isinstance(n, ast.Name) and env[n.id][2])
    return ("Q", r, single)


def gate_call(c, env, gate="gate"):
    """Gate(name, targets, controls, arg_value, arg_label=...) -> emit text"""
    if not (isinstance(c, ast.Call) and isinstance(c.func, ast.Name) and c.func.id == "Gate"):
        raise Refuse("not a Gate(...) call: " + ast.unparse(c)[:60])
    pos = ["name", "targets", "controls", "arg_value"]
    d = {}
    if len(c.args) > 5:
        raise Refuse("too many positional arguments")
    for i, a in enumerate(c.args):
        if isinstance(a, ast.Starred):
            raise Refuse("starred argument")
        if i == 4:
            # fifth positional parameter of Gate.__init__ is control_value: only `gate.arg_label`-style labels were ever
            # passed here by the rules; it does not influence name/qubits/argument
            d["_fifth"] = a
            continue
        d[pos[i]] = a
    for k in c.keywords:
        if k.arg in d or k.arg is None:
            raise Refuse(f"duplicate/unpacked keyword {k.arg}")
        if k.arg in ("name", "targets", "controls", "arg_value"):
            d[k.arg] = k.value
        elif k.arg == "arg_label":
            pass
        else:
            raise Refuse(f"keyword {k.arg}")
    if "name" not in d:
        raise Refuse("Gate without name")
    nm = d["name"]
    if isinstance(nm, ast.Constant) and isinstance(nm.value, str):
        name = f"NConst {cstr(nm.value)}"
    elif ast.unparse(nm) == gate + ".name":
        name = "NSame"
    elif isinstance(nm, ast.BinOp) and isinstance(nm.op, ast.Add) and isinstance(nm.left, ast.Constant) \
            and isinstance(nm.left.value, str) and ast.unparse(nm.right) == gate + ".name":
        name = f"NPrefix {cstr(nm.left.value)}"
    else:
        raise Refuse("gate name " + ast.unparse(nm))
    tg = qroles(d.get("targets"), gate, env)
    ct = qroles(d.get("controls"), gate, env)
    av = d.get("arg_value")
    if av is None or (isinstance(av, ast.Constant) and av.value is None):
        arg = "ANone"
    elif ast.unparse(av) == gate + ".arg_value":
        arg = "ACopy"
    else:
        e = ex(av, env, gate)
        alias = isinstance(av, ast.Name) and e == "Var 0" and av.id in env.get("__alias__", set())
        arg = "ACopy" if alias else f"AExpr ({e})"      # a local alias of gate.arg_value is still a plain copy
    return f"EGate ({name}) [{'; '.join(tg)}] [{'; '.join(ct)}] ({arg})"


def strip_doc(body):
    """drop the docstring, bare string statements and `pass`"""
    out = []
    for st in body:
        if isinstance(st, ast.Expr) and isinstance(st.value, ast.Constant) and isinstance(st.value.value, str):
            continue
        if isinstance(st, ast.Pass):
            continue
        out.append(st)
    return out


def positional(fd, n):
    """names of the n positional parameters of a plain function (identified by POSITION); anything fancier is refused"""
    a = fd.args
    if a.vararg or a.kwarg or a.kwonlyargs or a.defaults or a.kw_defaults or fd.decorator_list or isinstance(fd, ast.AsyncFunctionDef):
        raise Refuse("unexpected signature (defaults / *args / decorators)")
    names = [x.arg for x in list(a.posonlyargs) + list(a.args)]
    if len(names) != n or len(set(names)) != n:
        raise Refuse(f"unexpected signature ({len(names)} parameters, {n} expected)")
    return names


class Rename(ast.NodeTransformer):
    """alpha-renaming of local names (roles are found from the calls they are passed to)"""

    def __init__(self, mp):
        self.mp = mp

    def visit_Name(self, n):
        if n.id in self.mp:
            return ast.copy_location(ast.Name(id=self.mp[n.id], ctx=n.ctx), n)
        return n

    def visit_arg(self, n):
        if n.arg in self.mp:
            n.arg = self.mp[n.arg]
        return n


def rename(node, mp):
    """mp: actual -> canonical; refuses a renaming that would capture an existing name"""
    mp = {a: c for a, c in mp.items() if a != c}
    if not mp:
        return node
    used = {n.id for n in ast.walk(node) if isinstance(n, ast.Name)} | {n.arg for n in ast.walk(node) if isinstance(n, ast.arg)}
    for a, c in mp.items():
        if c in used and c not in mp:
            raise Refuse(f"cannot normalise local name {a} -> {c}: {c} is used for something else")
    if len(set(mp.values())) != len(mp):
        raise Refuse("two locals play the same role")
    return ast.fix_missing_locations(Rename(mp).visit(node))


def flatten_if(node):
    """if/elif/else chain (also written as else: if ...) -> ([(test, body)], else_body)"""
    chain = []
    while True:
        chain.append((node.test, strip_doc(node.body)))
        oe = strip_doc(node.orelse)
        if len(oe) == 1 and isinstance(oe[0], ast.If):
            node = oe[0]
            continue
        return chain, oe


def const_table(n, env):
    """literal tuple/list of constant rows (or a local bound to one) -> list of rows (tuples of str/int/float) or None"""
    if isinstance(n, ast.Name) and isinstance(env.get(n.id), tuple) and env[n.id][0] == "T":
        return env[n.id][1]
    if not isinstance(n, (ast.Tuple, ast.List)) or not n.elts:
        return None
    rows = []
    for r in n.elts:
        cells = r.elts if isinstance(r, (ast.Tuple, ast.List)) else [r]
        if not cells or not all(isinstance(c, ast.Constant) and isinstance(c.value, (str, int, float)) and not isinstance(c.value, bool)
                                for c in cells):
            return None
        rows.append((isinstance(r, (ast.Tuple, ast.List)), tuple(c.value for c in cells)))
    if len({(k, len(v)) for k, v in rows}) != 1:
        return None
    return rows


class _Subst(ast.NodeTransformer):
    def __init__(self, mp):
        self.mp = mp

    def visit_Name(self, n):
        if n.id in self.mp:
            if not isinstance(n.ctx, ast.Load):
                raise Refuse(f"loop variable {n.id} is assigned in the loop body")
            return ast.copy_location(ast.Constant(value=self.mp[n.id]), n)
        return n


def expand_for(st, env):
    """`for a, b in <constant table>: BODY [else: E]` -> the statements it stands for, or None if st is not such a loop.
    Accepted bodies: no break/continue at all (the bodies one after the other, then E), or exactly `if TEST: ...; break`
    (an if/elif chain over the rows with E as the final else; TEST must be a pure comparison)."""
    if not isinstance(st, ast.For):
        return None
    rows = const_table(st.iter, env)
    if rows is None:
        return None
    import copy
    if isinstance(st.target, ast.Name):
        names = [st.target.id]
        if rows[0][0]:
            raise Refuse("loop over rows with a single loop variable")
    elif isinstance(st.target, (ast.Tuple, ast.List)) and all(isinstance(e, ast.Name) for e in st.target.elts):
        names = [e.id for e in st.target.elts]
        if not rows[0][0] or len(names) != len(rows[0][1]) or len(set(names)) != len(names):
            raise Refuse("loop targets do not match the table rows")
    else:
        raise Refuse("loop target over a constant table")
    body = strip_doc(st.body)
    orelse = strip_doc(st.orelse)
    jumps = [n for x in body for n in ast.walk(x) if isinstance(n, (ast.Break, ast.Continue, ast.Return))]

    def inst(stmts, row):
        return [ast.fix_missing_locations(_Subst(dict(zip(names, row))).visit(copy.deepcopy(x))) for x in stmts]
    if not jumps:
        out = []
        for _, row in rows:
            out += inst(body, row)
        return out + orelse
    if len(body) == 1 and isinstance(body[0], ast.If) and not strip_doc(body[0].orelse) and len(jumps) == 1 \
            and isinstance(jumps[0], ast.Break) and strip_doc(body[0].body) and strip_doc(body[0].body)[-1] is jumps[0]:
        test = body[0].test
        if any(isinstance(n, (ast.Call, ast.NamedExpr, ast.Await, ast.Yield, ast.YieldFrom, ast.Lambda)) for n in ast.walk(test)):
            raise Refuse("table loop: the test is not a pure comparison")
        inner = strip_doc(body[0].body)[:-1]
        chain = None
        for _, row in reversed(rows):
            node = ast.If(test=inst([ast.Expr(value=test)], row)[0].value, body=inst(inner, row) or [ast.Pass()],
                          orelse=[chain] if chain is not None else (orelse or []))
            chain = ast.copy_location(node, st)
        return [ast.fix_missing_locations(chain)]
    raise Refuse("table loop with an unsupported break/continue structure")


def expand_stmts(stmts, env):
    out = []
    for st in stmts:
        e = expand_for(st, env)
        out += [st] if e is None else expand_stmts(e, env)
    return out


def append_arg(st, dest):
    """`dest.append(x)` -> x, else None"""
    if isinstance(st, ast.Expr) and isinstance(st.value, ast.Call) and isinstance(st.value.func, ast.Attribute) \
            and st.value.func.attr == "append" and ast.unparse(st.value.func.value) == dest \
            and len(st.value.args) == 1 and not st.value.keywords and not isinstance(st.value.args[0], ast.Starred):
        return st.value.args[0]
    return None


def emits(stmts, env, dest, gate="gate"):
    """straight-line code appending gates to `dest` -> list of emit texts.  The environment `env` holds the local
    temporaries of the block: scalar constants (name = expression over pi and earlier names), qubit locals
    (name = gate.targets[0]) and constant tables; loops over constant tables are unrolled."""
    out = []
    here = []     # qubit locals read in this block whose evaluation can fail (an index): they must be used in this block

    def one(a):
        if isinstance(a, ast.Name) and a.id == gate:
            return "ESame"
        return gate_call(a, env, gate)

    def bind(nm, value):
        if nm in (gate, dest.split(".")[0]):
            raise Refuse(f"assignment to {nm}")
        tb = const_table(value, env) if isinstance(value, (ast.Tuple, ast.List)) else None
        if tb is not None:
            env[nm] = ("T", tb)
            return
        ql = qubit_local(value, gate, env)
        if ql is not None:
            env[nm] = ql
            if any(r.startswith(("TIdx", "CIdx")) for r in ql[1]):
                here.append(nm)
            env.get("__used__", set()).discard(nm)
            return
        env[nm] = ex(value, env, gate)
        al = env.setdefault("__alias__", set())
        if ast.unparse(value) == gate + ".arg_value" or (isinstance(value, ast.Name) and value.id in al):
            al.add(nm)
        else:
            al.discard(nm)
    for st in expand_stmts(strip_doc(stmts), env):
        if isinstance(st, ast.Assign) and len(st.targets) == 1 and isinstance(st.targets[0], ast.Name):
            bind(st.targets[0].id, st.value)
        elif isinstance(st, ast.AnnAssign) and isinstance(st.target, ast.Name) and st.value is not None and st.simple:
            bind(st.target.id, st.value)
        elif append_arg(st, dest) is not None:
            out.append(one(append_arg(st, dest)))
        elif isinstance(st, ast.AugAssign) and isinstance(st.op, ast.Add) and ast.unparse(st.target) == dest \
                and isinstance(st.value, (ast.List, ast.Tuple)) and "." not in dest:
            # `name += [..]` on a plain list name extends in place (as the rules use it on their parameter)
            out += [one(el) for el in st.value.elts]
        elif isinstance(st, ast.AugAssign) and isinstance(st.op, ast.Add) and ast.unparse(st.target) == dest \
                and isinstance(st.value, ast.List):
            out += [one(el) for el in st.value.elts]
        elif isinstance(st, ast.Expr) and isinstance(st.value, ast.Call) and isinstance(st.value.func, ast.Attribute) \
                and st.value.func.attr == "extend" and ast.unparse(st.value.func.value) == dest and len(st.value.args) == 1 \
                and not st.value.keywords and isinstance(st.value.args[0], (ast.List, ast.Tuple)):
            out += [one(el) for el in st.value.args[0].elts]
        else:
            raise Refuse(f"statement {type(st).__name__} at line {getattr(st, 'lineno', 0)}: {ast.unparse(st)[:70]}")
    unused = [nm for nm in here if nm not in env.get("__used__", set())]
    if unused:
        # reading gate.targets[i] raises for a short list; an unused read has no counterpart in the emitted data
        raise Refuse(f"qubit local {unused[0]} is read but not used in its block")
    return out


def name_test(t, gate="gate"):
    """`gate.name == "X"` (either way round) -> "X" """
    if isinstance(t, ast.Compare) and len(t.ops) == 1 and isinstance(t.ops[0], ast.Eq):
        l, r = t.left, t.comparators[0]
        if isinstance(l, ast.Constant):
            l, r = r, l
        if ast.unparse(l) == gate + ".name" and isinstance(r, ast.Constant) and isinstance(r.value, str):
            return r.value
    raise Refuse("test is not gate.name == <str>: " + ast.unparse(t))


def branches(loop_body, env, dest, parse_test, gate="gate"):
    """body of `for gate in ...:` = local constants + one if/elif chain on the gate name ending in `else: dest.append(gate)`
    -> [(name, [emit])]"""
    body = expand_stmts(strip_doc(loop_body), env)
    ifs = [s for s in body if isinstance(s, ast.If)]
    if len(ifs) != 1 or body[-1] is not ifs[0]:
        raise Refuse("loop body is not (local constants; one if/elif chain)")
    if emits(body[:-1], env, dest, gate):
        raise Refuse("gate appended before the if chain")
    chain, els = flatten_if(ifs[0])
    def blk():
        e = dict(env)
        e["__used__"] = set()
        return e
    out = [(parse_test(t), emits(b, blk(), dest, gate)) for t, b in chain]
    if emits(els, blk(), dest, gate) != ["ESame"]:
        raise Refuse("chain does not end in `else: append(gate)`")
    names = [n for n, _ in out]
    if len(set(names)) != len(names):
        raise Refuse("duplicate branch " + str(names))
    return out


def str_list(n):
    if isinstance(n, (ast.List, ast.Tuple)) and all(isinstance(e, ast.Constant) and isinstance(e.value, str) for e in n.elts):
        return [e.value for e in n.elts]
    raise Refuse("not a list of string constants: " + ast.unparse(n)[:60])


def call_of(st):
    """expression statement that is a plain positional call -> (callee text, [arg texts]) else None"""
    if isinstance(st, ast.Expr) and isinstance(st.value, ast.Call) and not st.value.keywords \
            and not any(isinstance(a, ast.Starred) for a in st.value.args):
        return ast.unparse(st.value.func), [ast.unparse(a) for a in st.value.args]
    return None


def dispatch_shape(body, tests_values, args):
    """`if t1: M = v1 elif t2: M = v2 ... else: M = vn` followed by `M(args)`, or the same with the calls written in the
    branches; returns True iff the chain has exactly the given tests/values (tests_values[-1][0] is None for the else)"""
    body = strip_doc(body)
    if not body or not isinstance(body[0], ast.If):
        return False
    chain, els = flatten_if(body[0])
    got = chain + [(None, els)]
    if len(got) != len(tests_values):
        return False
    local = None
    direct = len(body) == 1
    if not direct:
        if len(body) != 2:
            return False
        c = call_of(body[1])
        if c is None or c[1] != args or not c[0].isidentifier():
            return False
        local = c[0]
        if local in args:
            return False
    for (t, b), (wt, wv) in zip(got, tests_values):
        if (t is None) != (wt is None) or (t is not None and ast.unparse(t) != wt):
            return False
        if len(b) != 1:
            return False
        if direct:
            c = call_of(b[0])
            if c is None or c[0] != wv or c[1] != args:
                return False
        else:
            if not (isinstance(b[0], ast.Assign) and len(b[0].targets) == 1 and ast.unparse(b[0].targets[0]) == local
                    and ast.unparse(b[0].value) == wv):
                return False
    return True


def check_resolve_to_universal(fd):
    g, out, b1, b2 = positional(fd, 4)
    want = [(f"{g}.name in {b2}", "_gate_basis_2q"),
            (f"{g}.name == 'SWAP' and 'ISWAP' in {b2}", "_gate_IGNORED"),
            (None, f"globals()['_gate_' + str({g}.name)]")]
    if not dispatch_shape(fd.body, want, [g, out]):
        raise Refuse("dispatch differs from the modelled precedence (name in basis_2q; SWAP with ISWAP in basis_2q; _gate_<name>)")


def check_resolve_2q(fd):
    b, qc, temp = positional(fd, 3)
    body = strip_doc(fd.body)
    look = f"globals()['_basis_' + str({b})]"
    if len(body) == 1:
        c = call_of(body[0])
        if c is not None and c[0] == look and c[1] == [qc, temp]:
            return
    if len(body) == 2 and isinstance(body[0], ast.Assign) and len(body[0].targets) == 1 and isinstance(body[0].targets[0], ast.Name) \
            and ast.unparse(body[0].value) == look:
        c = call_of(body[1])
        m = body[0].targets[0].id
        if c is not None and c[0] == m and c[1] == [qc, temp] and m not in (b, qc, temp):
            return
    raise Refuse("dispatch differs from the modelled one (_basis_<name>(qc_temp, temp_resolved))")


def translate_decompose(path):
    where = "translator:_decompose.py"
    try:
        mod = ast.parse(open(path).read())
    except (OSError, SyntaxError) as e:
        raise Broken(where + ":parse", str(e))
    defs = {}      # X -> rule text
    table = {}     # N -> X   (module order; a later binding overrides an earlier one like in Python)
    passes = {}
    seen_dispatch = set()
    # module-level constants (scalars over pi, constant tables): globals are looked up when a rule runs, so their position in
    # the module does not matter; they must be bound exactly once and never rebound from inside a function
    menv = {}
    const_nodes = set()
    for node in mod.body:
        if isinstance(node, ast.Assign) and len(node.targets) == 1 and isinstance(node.targets[0], ast.Name) \
                and not node.targets[0].id.startswith(("_gate_", "_basis_", "__")) and not isinstance(node.value, ast.Name):
            nm = node.targets[0].id
            try:
                if nm in menv:
                    raise Refuse("bound twice")
                tb = const_table(node.value, menv) if isinstance(node.value, (ast.Tuple, ast.List)) else None
                menv[nm] = ("T", tb) if tb is not None else ex(node.value, menv, "__no_gate__")
            except Refuse as r:
                raise Broken(f"{where}:{nm}", "module-level constant: " + str(r))
            const_nodes.add(id(node))
    for n in ast.walk(mod):
        if isinstance(n, (ast.Global, ast.Nonlocal)):
            raise Broken(where, "global/nonlocal statement")
        if isinstance(n, (ast.AugAssign, ast.Delete)) and any(isinstance(t, ast.Name) and t.id in menv
                                                                for t in ([n.target] if isinstance(n, ast.AugAssign) else n.targets)):
            raise Broken(where, "module-level constant is modified")

    def fenv(fd):
        """the module constants a function sees: those it does not shadow by a local of the same name"""
        local = {n.id for n in ast.walk(fd) if isinstance(n, ast.Name) and isinstance(n.ctx, ast.Store)} | \
                {a.arg for a in fd.args.args}
        return {k: v for k, v in menv.items() if k not in local}
    for node in mod.body:
        if id(node) in const_nodes:
            continue
        if isinstance(node, ast.FunctionDef) and node.name.startswith("_gate_"):
            X = node.name[len("_gate_"):]
            try:
                g, out = positional(node, 2)
                body = strip_doc(node.body)
                if len(body) == 1 and isinstance(body[0], ast.Raise):
                    exc = body[0].exc
                    en = ast.unparse(exc.func) if isinstance(exc, ast.Call) else (ast.unparse(exc) if exc is not None else "")
                    if en != "NotImplementedError":
                        raise Refuse(f"rule raises {en or 'nothing'} (only NotImplementedError is modelled)")
                    defs[X] = "RRaise"
                else:
                    defs[X] = "REmit [" + "; ".join(emits(body, fenv(node), out, g)) + "]"
            except Refuse as r:
                raise Broken(f"{where}:{node.name}", str(r))
            table[X] = X
        elif isinstance(node, ast.FunctionDef) and node.name.startswith("_basis_"):
            Y = node.name[len("_basis_"):]
            try:
                qc, temp = positional(node, 2)
                dest = qc + ".gates"
                body = strip_doc(node.body)
                env = fenv(node)
                loops = [s for s in body if isinstance(s, ast.For) and const_table(s.iter, env) is None]
                if len(loops) != 1 or body[-1] is not loops[0]:
                    raise Refuse("body is not (local constants; one loop over the gates)")
                if emits(body[:-1], env, dest, "__no_gate__"):
                    raise Refuse("gate appended before the loop")
                loop = loops[0]
                if not (isinstance(loop.target, ast.Name) and ast.unparse(loop.iter) == temp and not strip_doc(loop.orelse)
                        and loop.target.id not in (qc, temp)):
                    raise Refuse("loop is not `for gate in temp_resolved:`")
                g = loop.target.id
                passes[Y] = branches(loop.body, env, dest, lambda t: name_test(t, g), g)
            except Refuse as r:
                raise Broken(f"{where}:{node.name}", str(r))
        elif isinstance(node, ast.FunctionDef) and node.name == "_resolve_to_universal":
            try:
                check_resolve_to_universal(node)
            except Refuse as r:
                raise Broken(f"{where}:_resolve_to_universal", str(r))
            seen_dispatch.add(node.name)
        elif isinstance(node, ast.FunctionDef) and node.name == "_resolve_2q_basis":
            try:
                check_resolve_2q(node)
            except Refuse as r:
                raise Broken(f"{where}:_resolve_2q_basis", str(r))
            seen_dispatch.add(node.name)
        elif isinstance(node, (ast.FunctionDef, ast.AsyncFunctionDef, ast.ClassDef)):
            raise Broken(f"{where}:{node.name}", "unknown module-level definition")
        elif isinstance(node, ast.Assign) and all(isinstance(t, ast.Name) for t in node.targets) and isinstance(node.value, ast.Name):
            src = node.value.id
            for t in node.targets:
                if not t.id.startswith("_gate_") or not src.startswith("_gate_"):
                    raise Broken(f"{where}:{t.id}", "alias outside the _gate_ namespace")
                if src[len("_gate_"):] not in table:
                    raise Broken(f"{where}:{t.id}", f"alias of the undefined name {src}")
            for t in node.targets:
                table[t.id[len("_gate_"):]] = table[src[len("_gate_"):]]
        elif isinstance(node, (ast.Import, ast.ImportFrom)):
            pass
        elif isinstance(node, ast.Expr) and isinstance(node.value, ast.Constant) and isinstance(node.value.value, str):
            pass
        elif isinstance(node, ast.Assign) and ast.unparse(node.targets[0]) == "__all__" and len(node.targets) == 1:
            str_list(node.value) if isinstance(node.value, (ast.List, ast.Tuple)) else None
        else:
            raise Broken(f"{where}:line{node.lineno}", "unknown module-level statement " + ast.unparse(node)[:60])
    if seen_dispatch != {"_resolve_to_universal", "_resolve_2q_basis"}:
        raise Broken(where, "dispatch functions missing")
    return defs, table, passes


def _find_method(path):
    where = "translator:circuit.py:resolve_gates"
    try:
        mod = ast.parse(open(path).read())
    except (OSError, SyntaxError) as e:
        raise Broken(where + ":parse", str(e))
    cls = next((n for n in mod.body if isinstance(n, ast.ClassDef) and n.name == "QubitCircuit"), None)
    if cls is None:
        raise Broken(where, "class QubitCircuit not found")
    m = next((n for n in cls.body if isinstance(n, ast.FunctionDef) and n.name == "resolve_gates"), None)
    if m is None:
        raise Broken(where, "method not found")
    return m


# ---- resolve_gates ---------------------------------------------------------------------------------------------------
def _roles(m):
    """canonical names of the locals, found from the two dispatch calls they are passed to (by position)"""
    mp = {}
    u = [n for n in ast.walk(m) if isinstance(n, ast.Call) and ast.unparse(n.func) == "_resolve_to_universal"]
    q = [n for n in ast.walk(m) if isinstance(n, ast.Call) and ast.unparse(n.func) == "_resolve_2q_basis"]
    if len(u) != 1 or len(q) != 1:
        raise Refuse("expected exactly one call of _resolve_to_universal and one of _resolve_2q_basis")
    for call, canon in ((u[0], ["gate", "temp_resolved", "basis_1q", "basis_2q"]), (q[0], ["basis_unit", "qc_temp", "temp_resolved"])):
        if call.keywords or len(call.args) != len(canon) or not all(isinstance(a, ast.Name) for a in call.args):
            raise Refuse("dispatch call is not a plain positional call on local names")
        for a, c in zip(call.args, canon):
            if mp.get(a.id, c) != c:
                raise Refuse(f"local {a.id} plays two roles")
            mp[a.id] = c
    return mp


def _is_meas_pred(n, var):
    return ast.unparse(n) == f"isinstance({var}, Measurement)"


def _meas_collection(n):
    """an expression that enumerates exactly the measurements among self.gates (filter / comprehension / generator)"""
    if isinstance(n, ast.Call) and ast.unparse(n.func) in ("list", "tuple") and len(n.args) == 1 and not n.keywords:
        return _meas_collection(n.args[0])
    if isinstance(n, ast.Call) and ast.unparse(n.func) == "filter" and len(n.args) == 2 and not n.keywords \
            and ast.unparse(n.args[1]) == "self.gates" and isinstance(n.args[0], ast.Lambda):
        la = n.args[0]
        if len(la.args.args) == 1 and not la.args.defaults and not la.args.vararg and not la.args.kwarg \
                and _is_meas_pred(la.body, la.args.args[0].arg):
            return True
    if isinstance(n, (ast.ListComp, ast.GeneratorExp)) and len(n.generators) == 1:
        g = n.generators[0]
        if isinstance(g.target, ast.Name) and not g.is_async and ast.unparse(g.iter) == "self.gates" and len(g.ifs) == 1 \
                and _is_meas_pred(g.ifs[0], g.target.id) and isinstance(n.elt, (ast.Name, ast.Constant)):
            return True
    return False


def _meas_count(n):
    """len(<collection>) or sum(1 for ...)"""
    if isinstance(n, ast.Call) and not n.keywords and len(n.args) == 1:
        f = ast.unparse(n.func)
        if f == "len" and not isinstance(n.args[0], ast.GeneratorExp) and _meas_collection(n.args[0]):
            return True
        if f == "sum" and isinstance(n.args[0], (ast.GeneratorExp, ast.ListComp)) and isinstance(n.args[0].elt, ast.Constant) \
                and n.args[0].elt.value == 1 and _meas_collection(n.args[0]):
            return True
    return False


def _meas_test(t, counts):
    """is `t` true exactly when the circuit contains a measurement? (counts: local names bound to the number of measurements)"""
    def is_count(e):
        return _meas_count(e) or (isinstance(e, ast.Name) and e.id in counts)
    if isinstance(t, ast.Compare) and len(t.ops) == 1 and isinstance(t.comparators[0], ast.Constant) and is_count(t.left):
        v, op = t.comparators[0].value, t.ops[0]
        if (isinstance(op, ast.Gt) and v == 0) or (isinstance(op, ast.GtE) and v == 1) or (isinstance(op, ast.NotEq) and v == 0):
            return True
    if is_count(t):
        return True          # truthiness of the count
    if isinstance(t, ast.Call) and ast.unparse(t.func) == "any" and len(t.args) == 1 and not t.keywords:
        a = t.args[0]
        if isinstance(a, (ast.GeneratorExp, ast.ListComp)) and len(a.generators) == 1:
            g = a.generators[0]
            if isinstance(g.target, ast.Name) and not g.is_async and not g.ifs and ast.unparse(g.iter) == "self.gates" \
                    and _is_meas_pred(a.elt, g.target.id):
                return True
    if isinstance(t, (ast.List, ast.ListComp)) and _meas_collection(t):
        return True
    return False


def _only_raises(body):
    body = strip_doc(body)
    return bool(body) and isinstance(body[-1], ast.Raise) and all(
        isinstance(x, ast.Raise) or (isinstance(x, ast.Assign) and all(isinstance(t, ast.Name) for t in x.targets)
                                     and not any(isinstance(c, ast.Call) for c in ast.walk(x.value)))
        for x in body)


LIST_BRANCH = (
    "basis_1q = []\nbasis_2q = []\n"
    "for gate in basis:\n"
    "    if gate in basis_2q_valid:\n        basis_2q.append(gate)\n"
    "    elif gate in basis_1q_valid:\n        basis_1q.append(gate)")


def _parse_basis_block(st, consts):
    """the `if isinstance(basis, list): ... else: ...` statement -> dict of data"""
    lb = strip_doc(st.body)
    # canonical local names inside the list branch: the loop variable
    if len(lb) < 5 or not isinstance(lb[2], ast.For) or not isinstance(lb[2].target, ast.Name):
        raise Refuse("list-basis branch shape")
    loop = lb[2]
    lv = loop.target.id
    if strip_doc(loop.orelse) or ast.unparse(loop.iter) != "basis":
        raise Refuse("list-basis loop")
    body = strip_doc(loop.body)
    if len(body) != 1 or not isinstance(body[0], ast.If):
        raise Refuse("list-basis loop body")
    chain, els = flatten_if(body[0])
    if strip_doc(els) or len(chain) != 2:
        raise Refuse("list-basis loop: classification chain")
    got = [ast.unparse(lb[0]), ast.unparse(lb[1])] + [(ast.unparse(t), [ast.unparse(x) for x in b]) for t, b in chain]
    want = ["basis_1q = []", "basis_2q = []", (f"{lv} in basis_2q_valid", [f"basis_2q.append({lv})"]),
            (f"{lv} in basis_1q_valid", [f"basis_1q.append({lv})"])]
    if got != want and got != [want[1], want[0], want[2], want[3]]:
        raise Refuse("list-basis branch differs from the modelled parsing")
    rest = lb[3:]
    rot_norm = None
    if len(rest) == 3:
        nz = rest[0]
        ok = (isinstance(nz, ast.Assign) and len(nz.targets) == 1 and ast.unparse(nz.targets[0]) == "basis_1q"
              and isinstance(nz.value, ast.ListComp) and len(nz.value.generators) == 1 and isinstance(nz.value.elt, ast.Name))
        if ok:
            gen = nz.value.generators[0]
            v = nz.value.elt.id
            ok = (isinstance(gen.target, ast.Name) and gen.target.id == v and not gen.is_async and len(gen.ifs) == 1
                  and ast.unparse(gen.ifs[0]) == f"{v} in basis_1q")
        if not ok:
            raise Refuse("list-basis branch: unrecognised statement " + ast.unparse(nz)[:70])
        it = gen.iter
        rot_norm = consts[it.id] if isinstance(it, ast.Name) and it.id in consts else str_list(it)
        rest = rest[1:]
    if len(rest) != 2:
        raise Refuse("list-basis branch: statements after the loop")
    one, zero = rest
    if not (isinstance(one, ast.If) and ast.unparse(one.test) == "len(basis_1q) == 1" and _only_raises(one.body) and not strip_doc(one.orelse)):
        raise Refuse("list-basis branch: single-rotation refusal")
    zb = strip_doc(zero.body) if isinstance(zero, ast.If) else []
    if not (isinstance(zero, ast.If) and ast.unparse(zero.test) in ("len(basis_1q) == 0", "not basis_1q") and not strip_doc(zero.orelse)
            and len(zb) == 1 and isinstance(zb[0], ast.Assign) and ast.unparse(zb[0].targets[0]) == "basis_1q" and len(zb[0].targets) == 1):
        raise Refuse("list-basis branch: default rotations")
    d1_list = consts[zb[0].value.id] if isinstance(zb[0].value, ast.Name) and zb[0].value.id in consts else str_list(zb[0].value)
    # string branch
    sb = strip_doc(st.orelse)
    if len(sb) != 2:
        raise Refuse("string-basis branch shape")
    if isinstance(sb[0], ast.If):
        sb = [sb[1], sb[0]]
    if not (isinstance(sb[0], ast.Assign) and len(sb[0].targets) == 1 and ast.unparse(sb[0].targets[0]) == "basis_1q"):
        raise Refuse("string-basis branch: default rotations")
    d1_str = consts[sb[0].value.id] if isinstance(sb[0].value, ast.Name) and sb[0].value.id in consts else str_list(sb[0].value)
    s2 = sb[1]
    if not (isinstance(s2, ast.If) and ast.unparse(s2.test) == "basis in basis_2q_valid" and _only_raises(s2.orelse)):
        raise Refuse("string-basis validity test")
    sbody = sorted(ast.unparse(x) for x in strip_doc(s2.body))
    if sbody == ["basis_2q = [basis]"]:
        listified = False
    elif sbody == ["basis = [basis]", "basis_2q = [basis]"] and ast.unparse(strip_doc(s2.body)[0]) == "basis_2q = [basis]":
        listified = True
    else:
        raise Refuse("string-basis assignment: " + "; ".join(sbody))
    return dict(d1_list=d1_list, d1_str=d1_str, listified=listified, rot_norm=rot_norm)


def _parse_main_loop(st, scal):
    if not (isinstance(st.target, ast.Name) and st.target.id == "gate" and not strip_doc(st.orelse)):
        raise Refuse("main loop shape")
    body = strip_doc(st.body)
    if len(body) != 2:
        raise Refuse("main loop body")
    pa, tr = body
    if not (isinstance(pa, ast.If) and isinstance(pa.test, ast.Compare) and ast.unparse(pa.test.left) == "gate.name"
            and len(pa.test.ops) == 1 and isinstance(pa.test.ops[0], ast.In) and not strip_doc(pa.orelse)):
        raise Refuse("Pauli substitution test")
    pauli_names = str_list(pa.test.comparators[0])
    pb = strip_doc(pa.body)
    if len(pb) != 2:
        raise Refuse("Pauli substitution body")
    mk, sub = pb
    to_temp = None
    for dest, flag in (("temp_resolved", True), ("qc_temp.gates", False)):
        a = append_arg(mk, dest)
        if a is not None:
            to_temp, marker = flag, gate_call(a, dict(scal))
    if to_temp is None:
        raise Refuse("Pauli marker statement: " + ast.unparse(mk)[:70])
    if not (isinstance(sub, ast.Assign) and len(sub.targets) == 1 and ast.unparse(sub.targets[0]) == "gate"):
        raise Refuse("Pauli substitution statement")
    subst = gate_call(sub.value, dict(scal))
    if not (isinstance(tr, ast.Try) and len(tr.handlers) == 1 and not strip_doc(tr.orelse) and not tr.finalbody
            and ast.unparse(tr.handlers[0].type) == "KeyError" and tr.handlers[0].name is None):
        raise Refuse("try/except KeyError shape")
    tb = strip_doc(tr.body)
    if len(tb) != 1 or call_of(tb[0]) != ("_resolve_to_universal", ["gate", "temp_resolved", "basis_1q", "basis_2q"]):
        raise Refuse("try body is not the dispatch call")
    hb = strip_doc(tr.handlers[0].body)
    if len(hb) != 1 or not isinstance(hb[0], ast.If):
        raise Refuse("KeyError handler shape")
    h = hb[0]
    keep = strip_doc(h.body)
    if not (ast.unparse(h.test) == "gate.name in basis" and len(keep) == 1 and append_arg(keep[0], "temp_resolved") is not None
            and ast.unparse(append_arg(keep[0], "temp_resolved")) == "gate" and _only_raises(h.orelse)):
        raise Refuse("KeyError handler differs from (kept if gate.name in basis, else raise)")
    return dict(pauli_names=pauli_names, to_temp=to_temp, marker=marker, subst=subst)


def _parse_2q_pass(loop, after, flags_false):
    """-> (order, number of following statements consumed).  Accepts the flag+break and the for/else spelling."""
    if not isinstance(loop.target, ast.Name):
        raise Refuse("two-qubit pass loop")
    u = loop.target.id
    order = str_list(loop.iter)
    body = strip_doc(loop.body)
    if len(body) != 1 or not isinstance(body[0], ast.If) or strip_doc(body[0].orelse) or ast.unparse(body[0].test) != f"{u} in basis_2q":
        raise Refuse("two-qubit pass body")
    ib = strip_doc(body[0].body)
    if not ib or not isinstance(ib[-1], ast.Break):
        raise Refuse("two-qubit pass: no break after the first match")
    ib = ib[:-1]
    flag = None
    rest = []
    for x in ib:
        if isinstance(x, ast.Assign) and len(x.targets) == 1 and isinstance(x.targets[0], ast.Name) and ast.unparse(x.value) == "True" \
                and flag is None:
            flag = x.targets[0].id
        else:
            rest.append(x)
    if len(rest) != 1 or call_of(rest[0]) != ("_resolve_2q_basis", [u, "qc_temp", "temp_resolved"]):
        raise Refuse("two-qubit pass: dispatch call")
    nomatch = "qc_temp.gates = temp_resolved"
    oe = strip_doc(loop.orelse)
    if oe:
        if [ast.unparse(x) for x in oe] != [nomatch]:
            raise Refuse("two-qubit pass: for/else suite")
        return order, 0, None
    if flag is None or flag not in flags_false:
        raise Refuse("two-qubit pass: neither for/else nor a match flag initialised to False")
    if not after:
        raise Refuse("two-qubit pass: no-match assignment missing")
    nx = after[0]
    if not (isinstance(nx, ast.If) and ast.unparse(nx.test) == f"not {flag}" and not strip_doc(nx.orelse)
            and [ast.unparse(x) for x in strip_doc(nx.body)] == [nomatch]):
        raise Refuse("two-qubit pass: no-match assignment")
    return order, 1, flag


def _parse_elim(st, scal):
    if strip_doc(st.orelse):
        raise Refuse("elimination guard has an else")
    eb = strip_doc(st.body)
    if len(eb) < 3:
        raise Refuse("elimination body")
    loops = [s for s in eb if isinstance(s, ast.For)]
    if len(loops) != 1 or eb[-1] is not loops[0]:
        raise Refuse("elimination: body is not (prologue; one loop)")
    loop = loops[0]
    pro = eb[:-1]
    # X = qc_temp.gates ; qc_temp.gates = []  (in this order), local constants anywhere around
    src = None
    consts = []
    stage = 0
    for x in pro:
        t = ast.unparse(x)
        if stage == 0 and isinstance(x, ast.Assign) and len(x.targets) == 1 and isinstance(x.targets[0], ast.Name) \
                and ast.unparse(x.value) == "qc_temp.gates":
            src = x.targets[0].id
            stage = 1
        elif stage == 1 and t == "qc_temp.gates = []":
            stage = 2
        elif isinstance(x, ast.Assign):
            consts.append(x)
        else:
            raise Refuse("elimination prologue: " + t[:60])
    if stage != 2 or src in ("qc_temp", "basis_1q", "basis_2q", "basis"):
        raise Refuse("elimination prologue")
    env = dict(scal)
    if emits(consts, env, "qc_temp.gates", "__no_gate__"):
        raise Refuse("elimination prologue appends gates")
    if not (isinstance(loop.target, ast.Name) and ast.unparse(loop.iter) == src and not strip_doc(loop.orelse)):
        raise Refuse("elimination loop")
    g = loop.target.id
    if g in (src, "qc_temp") or src in env or g in env:
        raise Refuse("elimination loop variable")

    def elim_test(t):
        if isinstance(t, ast.BoolOp) and isinstance(t.op, ast.And) and len(t.values) == 2:
            for a, b in ((t.values[0], t.values[1]), (t.values[1], t.values[0])):
                try:
                    nm = name_test(a, g)
                except Refuse:
                    continue
                if ast.unparse(b) in (f"'{nm}' not in basis_1q", f"not '{nm}' in basis_1q"):
                    return nm
        raise Refuse("elimination test: " + ast.unparse(t))
    return branches(loop.body, env, "qc_temp.gates", elim_test, g)


def translate_resolve(path):
    where = "translator:circuit.py:resolve_gates"
    m = _find_method(path)
    try:
        a = m.args
        if a.vararg or a.kwarg or a.kwonlyargs or a.posonlyargs or len(a.args) != 2 or len(a.defaults) != 1 or m.decorator_list:
            raise Refuse("signature")
        default_basis = str_list(a.defaults[0])
        mp = _roles(m)
        mp[a.args[0].arg] = "self"
        mp[a.args[1].arg] = "basis"
        m = rename(m, mp)
        body = strip_doc(m.body)
        if not body or ast.unparse(body[-1]) != "return qc_temp":
            raise Refuse("does not end in `return qc_temp`")
        body = body[:-1]
        consts = {}          # local names bound to lists of string constants
        flags_false = set()  # local names initialised to False
        counts = set()       # local names bound to the number of measurements
        scal = {}            # local names bound to constant angle expressions
        seen = {}
        data = {}
        i = 0
        while i < len(body):
            st = body[i]
            i += 1
            txt = ast.unparse(st)
            main_done = "main" in seen
            if isinstance(st, ast.Assign) and len(st.targets) == 1 and isinstance(st.targets[0], ast.Name) and not main_done:
                nm = st.targets[0].id
                if nm == "qc_temp" and isinstance(st.value, ast.Call) and ast.unparse(st.value.func) == "QubitCircuit" \
                        and st.value.args and ast.unparse(st.value.args[0]) == "self.N" and "qc_temp" not in seen:
                    seen["qc_temp"] = i
                    continue
                if nm == "temp_resolved" and txt == "temp_resolved = []" and "temp_resolved" not in seen:
                    seen["temp_resolved"] = i
                    continue
                if isinstance(st.value, (ast.List, ast.Tuple)) and st.value.elts and nm not in consts and nm not in seen \
                        and nm not in scal and nm not in ("basis", "basis_1q", "basis_2q", "gate", "self"):
                    try:
                        consts[nm] = str_list(st.value)
                    except Refuse:
                        tb = const_table(st.value, scal)
                        if tb is None:
                            raise
                        scal[nm] = ("T", tb)
                    continue
                if _meas_count(st.value) and nm not in consts and nm not in seen:
                    counts.add(nm)
                    continue
                if nm not in consts and nm not in seen and nm not in scal and nm not in ("basis", "basis_1q", "basis_2q", "gate", "self"):
                    try:
                        scal[nm] = ex(st.value, scal)      # hoisted local constant (pi, half_pi, ...)
                        continue
                    except Refuse:
                        pass
            if isinstance(st, ast.Assign) and len(st.targets) == 1 and isinstance(st.targets[0], ast.Name) and txt.endswith("= False") \
                    and "pass2q" not in seen:
                flags_false.add(st.targets[0].id)
                continue
            if isinstance(st, ast.If) and not main_done and "meas" not in seen and not strip_doc(st.orelse) and _meas_test(st.test, counts) \
                    and _only_raises(st.body):
                seen["meas"] = i
                continue
            if isinstance(st, ast.If) and not main_done and "parse" not in seen and txt.startswith("if isinstance(basis, list):"):
                if "basis_1q_valid" not in consts or "basis_2q_valid" not in consts:
                    raise Refuse("basis parsing before the *_valid lists are defined")
                data.update(_parse_basis_block(st, consts))
                seen["parse"] = i
                continue
            if isinstance(st, ast.For) and ast.unparse(st.iter) == "self.gates" and not main_done:
                for need in ("qc_temp", "temp_resolved", "meas", "parse"):
                    if need not in seen:
                        raise Refuse(f"main loop before {need}")
                data.update(_parse_main_loop(st, scal))
                seen["main"] = i
                continue
            if isinstance(st, ast.For) and main_done and "pass2q" not in seen:
                order, used, flag = _parse_2q_pass(st, body[i:], flags_false)
                i += used
                data["order"] = order
                seen["pass2q"] = i
                continue
            if isinstance(st, ast.If) and "pass2q" in seen and "elim" not in seen and ast.unparse(st.test) == "len(basis_1q) == 2":
                data["elim"] = _parse_elim(st, scal)
                seen["elim"] = i
                continue
            if txt == "qc_temp.gates = deepcopy(qc_temp.gates)" and "elim" in seen and "copy" not in seen:
                seen["copy"] = i
                continue
            raise Refuse(f"unrecognised statement at line {st.lineno}: {txt[:80]}")
        for need in ("main", "pass2q", "elim", "copy"):
            if need not in seen:
                raise Refuse(f"missing part: {need}")
        # the constants and flags must not be touched anywhere else
        stores = [n.id for n in ast.walk(m) if isinstance(n, ast.Name) and isinstance(n.ctx, (ast.Store, ast.Del))]
        for nm in list(consts) + list(flags_false) + list(counts) + list(scal):
            if stores.count(nm) > (2 if nm in flags_false else 1):
                raise Refuse(f"local {nm} is reassigned")
        for nm in flags_false:
            loads = [n for n in ast.walk(m) if isinstance(n, ast.Name) and n.id == nm and isinstance(n.ctx, ast.Load)]
            if len(loads) > 1:
                raise Refuse(f"flag {nm} is read more than once")
    except Refuse as r:
        raise Broken(where, str(r))
    return dict(default_basis=default_basis, v1=consts["basis_1q_valid"], v2=consts["basis_2q_valid"], **data)


def atomic_write_if_changed(path, text):
    """a refusal never reaches this point; the file is replaced in one step so that no reader sees a partial file"""
    try:
        with open(path) as f:
            if f.read() == text:
                return False
    except FileNotFoundError:
        pass
    os.makedirs(os.path.dirname(path), exist_ok=True)
    tmp = f"{path}.tmp.{os.getpid()}"
    with open(tmp, "w") as f:
        f.write(text)
    os.replace(tmp, path)
    return True


def generate(out_path=None):
    dpath = os.path.join(PKG, "circuit", "_decompose.py")
    cpath = os.path.join(PKG, "circuit", "circuit.py")
    defs, table, passes = translate_decompose(dpath)
    r = translate_resolve(cpath)
    try:
        out = ["(* GENERATED by tools/translate/decompose_tr.py from circuit/_decompose.py and QubitCircuit.resolve_gates - do not edit *)",
               "From QV Require Import Found.Sym Model.ResolveTypes.", "Local Open Scope Q_scope.", "Local Open Scope string_scope.", ""]
        for X, txt in defs.items():
            out.append(f"Definition rule_{X} : rule := {txt}.")
        out.append("")
        out.append("Definition gate_defs : list (string * rule) := [" + "; ".join(f"({cstr(X)}, rule_{X})" for X in defs) + "].")
        out.append("Definition gate_table : list (string * string) := [" + "; ".join(f"({cstr(n)}, {cstr(x)})" for n, x in table.items()) + "].")
        out.append("Definition basis_passes : list (string * list (string * list emit)) := [" + ";\n  ".join(
            f"({cstr(Y)}, [" + ";\n     ".join(f"({cstr(n)}, [{'; '.join(es)}])" for n, es in br) + "])" for Y, br in passes.items()) + "].")
        out.append("Definition elim_rules : list (string * list emit) := [" + ";\n  ".join(
            f"({cstr(n)}, [{'; '.join(es)}])" for n, es in r["elim"]) + "].")
        out.append(f"Definition basis_1q_valid : list string := {cstrs(r['v1'])}.")
        out.append(f"Definition basis_2q_valid : list string := {cstrs(r['v2'])}.")
        out.append(f"Definition basis_2q_order : list string := {cstrs(r['order'])}.")
        out.append(f"Definition default_1q_list : list string := {cstrs(r['d1_list'])}.")
        out.append(f"Definition default_1q_str : list string := {cstrs(r['d1_str'])}.")
        out.append(f"Definition default_basis : list string := {cstrs(r['default_basis'])}.")
        out.append(f"Definition pauli_names : list string := {cstrs(r['pauli_names'])}.")
        out.append(f"Definition pauli_marker : emit := {r['marker']}.")
        out.append(f"Definition pauli_subst : emit := {r['subst']}.")
        out.append(f"Definition pauli_marker_to_temp : bool := {'true' if r['to_temp'] else 'false'}.")
        out.append(f"Definition str_basis_listified : bool := {'true' if r['listified'] else 'false'}.")
        out.append(f"Definition rot_normalised : bool := {'true' if r['rot_norm'] is not None else 'false'}.")
        out.append(f"Definition rot_norm_list : list string := {cstrs(r['rot_norm'] or [])}.")
        if any(not X.isidentifier() for X in defs):
            raise Refuse("rule name is not an identifier")
    except Refuse as e:
        raise Broken("translator:emit", str(e))
    text = "\n".join(out) + "\n"
    atomic_write_if_changed(out_path or os.path.join(COQ, "Gen", "Decompose.v"), text)
    return dict(rules=sorted(defs), table=dict(table), passes={k: [n for n, _ in v] for k, v in passes.items()},
                elim=[n for n, _ in r["elim"]], marker_to_temp=r["to_temp"], str_basis_listified=r["listified"],
                rot_normalised=r["rot_norm"], order=r["order"],
                n_emits=sum(t.count("EGate") + t.count("ESame") for t in defs.values()))


if __name__ == "__main__":
    import json
    print(json.dumps(generate(), indent=1))
