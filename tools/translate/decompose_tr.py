"""Fail-closed translator: circuit/_decompose.py + QubitCircuit.resolve_gates (circuit/circuit.py) -> coq/Gen/Decompose.v

Walks the Python `ast` only and emits DATA (no computation, no control flow) in the syntax of Model/ResolveTypes.v:
  gate_defs        : list (string * rule)     body of every `def _gate_<X>` (key = X)
  gate_table       : list (string * string)   every module-level name `_gate_<N>` -> the def it is bound to (defs and aliases,
                                              in module order, later bindings override earlier ones like Python does)
  basis_passes     : list (string * list (string * list emit))   `_basis_<Y>`: per gate-name branch, what is appended
                                              (every other gate is appended unchanged)
  elim_rules       : list (string * list emit) third-rotation elimination branches of resolve_gates (applied when the
                                              name is not in basis_1q)
  basis_1q_valid, basis_2q_valid, basis_2q_order, default_1q_list, default_1q_str, default_basis : list string
  pauli_names      : list string;  pauli_marker, pauli_subst : emit
  pauli_marker_to_temp : bool     the Pauli phase marker is appended to `temp_resolved` (true) or to `qc_temp.gates` (false)
  str_basis_listified  : bool     the string-basis branch rebinds `basis = [basis]` (true) or leaves the string (false)
  rot_normalised       : bool     the list branch reduces basis_1q to `[g for g in rot_norm_list if g in basis_1q]` before counting
  rot_norm_list        : list string
Any shape outside the recognised subset raises Broken("translator:<file>:<function>", detail).
"""
import ast
import os
import sys
from fractions import Fraction

sys.path.insert(0, os.path.dirname(os.path.dirname(os.path.abspath(__file__))))
from common import Broken, PKG, COQ, write_if_changed  # noqa: E402


class Refuse(Exception):
    pass


def q(x):
    fr = Fraction(x)
    n, d = fr.numerator, fr.denominator
    return f"(({n}) # {d})" if n < 0 else f"({n} # {d})"


def cstr(s):
    if not isinstance(s, str) or '"' in s or "\\" in s or any(ord(c) > 126 or ord(c) < 32 for c in s):
        raise Refuse(f"string constant {s!r}")
    return '"' + s + '"'


def cstrs(l):
    return "[" + "; ".join(cstr(s) for s in l) + "]"


def ex(n, env, gate="gate"):
    """scalar (angle) expression -> Found.Sym.ex text; gate.arg_value = Var 0"""
    if isinstance(n, ast.Constant):
        v = n.value
        if isinstance(v, bool) or not isinstance(v, (int, float)):
            raise Refuse(f"constant {v!r}")
        return f"Num {q(v)}"
    if isinstance(n, ast.Name):
        if n.id in env:
            return env[n.id]
        raise Refuse(f"unbound name {n.id}")
    if isinstance(n, ast.Attribute):
        t = ast.unparse(n)
        if t in ("np.pi", "numpy.pi", "math.pi"):
            return "Pi"
        if t == gate + ".arg_value":
            return "Var 0"
        raise Refuse(f"attribute {t}")
    if isinstance(n, ast.UnaryOp) and isinstance(n.op, ast.USub):
        return f"Neg ({ex(n.operand, env, gate)})"
    if isinstance(n, ast.UnaryOp) and isinstance(n.op, ast.UAdd):
        return ex(n.operand, env, gate)
    if isinstance(n, ast.BinOp):
        for k, v in {ast.Add: "Add", ast.Sub: "Sub", ast.Mult: "Mul", ast.Div: "Div"}.items():
            if isinstance(n.op, k):
                return f"{v} ({ex(n.left, env, gate)}) ({ex(n.right, env, gate)})"
        raise Refuse(f"operator {type(n.op).__name__}")
    raise Refuse(f"scalar node {type(n).__name__}")


def qroles(n, gate="gate"):
    """qubit argument of Gate(...) -> list of role texts"""
    if n is None or (isinstance(n, ast.Constant) and n.value is None):
        return []
    t = ast.unparse(n)
    if t == gate + ".targets":
        return ["AllT"]
    if t == gate + ".controls":
        return ["AllC"]
    if isinstance(n, ast.Subscript) and isinstance(n.slice, ast.Constant) and isinstance(n.slice.value, int) \
            and not isinstance(n.slice.value, bool) and n.slice.value >= 0:
        b = ast.unparse(n.value)
        if b == gate + ".targets":
            return [f"TIdx {n.slice.value}"]
        if b == gate + ".controls":
            return [f"CIdx {n.slice.value}"]
        raise Refuse(f"subscript of {b}")
    if isinstance(n, ast.List):
        out = []
        for e in n.elts:
            if not isinstance(e, ast.Subscript):
                raise Refuse("list element is not an indexed qubit")
            out += qroles(e, gate)
        return out
    raise Refuse(f"qubit argument {t}")


def gate_call(c, env, gate="gate"):
    """Gate(name, targets, controls, arg_value, arg_label=...) -> emit text"""
    if not (isinstance(c, ast.Call) and isinstance(c.func, ast.Name) and c.func.id == "Gate"):
        raise Refuse("not a Gate(...) call: " + ast.unparse(c)[:60])
    pos = ["name", "targets", "controls", "arg_value"]
    d = {}
    if len(c.args) > 5:
        raise Refuse("too many positional arguments")
    for i, a in enumerate(c.args):
        if isinstance(a, ast.Starred):
            raise Refuse("starred argument")
        if i == 4:
            # fifth positional parameter of Gate.__init__ is control_value: only `gate.arg_label`-style labels were ever
            # passed here by the rules; it does not influence name/qubits/argument
            d["_fifth"] = a
            continue
        d[pos[i]] = a
    for k in c.keywords:
        if k.arg in d or k.arg is None:
            raise Refuse(f"duplicate/unpacked keyword {k.arg}")
        if k.arg in ("name", "targets", "controls", "arg_value"):
            d[k.arg] = k.value
        elif k.arg == "arg_label":
            pass
        else:
            raise Refuse(f"keyword {k.arg}")
    if "name" not in d:
        raise Refuse("Gate without name")
    nm = d["name"]
    if isinstance(nm, ast.Constant) and isinstance(nm.value, str):
        name = f"NConst {cstr(nm.value)}"
    elif ast.unparse(nm) == gate + ".name":
        name = "NSame"
    elif isinstance(nm, ast.BinOp) and isinstance(nm.op, ast.Add) and isinstance(nm.left, ast.Constant) \
            and isinstance(nm.left.value, str) and ast.unparse(nm.right) == gate + ".name":
        name = f"NPrefix {cstr(nm.left.value)}"
    else:
        raise Refuse("gate name " + ast.unparse(nm))
    tg = qroles(d.get("targets"), gate)
    ct = qroles(d.get("controls"), gate)
    av = d.get("arg_value")
    if av is None or (isinstance(av, ast.Constant) and av.value is None):
        arg = "ANone"
    elif ast.unparse(av) == gate + ".arg_value":
        arg = "ACopy"
    else:
        arg = f"AExpr ({ex(av, env, gate)})"
    return f"EGate ({name}) [{'; '.join(tg)}] [{'; '.join(ct)}] ({arg})"


def strip_doc(body):
    if body and isinstance(body[0], ast.Expr) and isinstance(body[0].value, ast.Constant) and isinstance(body[0].value.value, str):
        return body[1:]
    return body


def emits(stmts, env, dest, gate="gate"):
    """straight-line code appending gates to `dest` -> list of emit texts (env is extended by local scalar assignments)"""
    out = []
    for st in stmts:
        if isinstance(st, ast.Assign) and len(st.targets) == 1 and isinstance(st.targets[0], ast.Name):
            if st.targets[0].id in (gate, dest.split(".")[0]):
                raise Refuse(f"assignment to {st.targets[0].id}")
            env[st.targets[0].id] = "(" + ex(st.value, env, gate) + ")"
        elif isinstance(st, ast.Expr) and isinstance(st.value, ast.Call) and isinstance(st.value.func, ast.Attribute) \
                and st.value.func.attr == "append" and ast.unparse(st.value.func.value) == dest \
                and len(st.value.args) == 1 and not st.value.keywords:
            a = st.value.args[0]
            if isinstance(a, ast.Name) and a.id == gate:
                out.append("ESame")
            else:
                out.append(gate_call(a, env, gate))
        elif isinstance(st, ast.AugAssign) and isinstance(st.op, ast.Add) and ast.unparse(st.target) == dest \
                and isinstance(st.value, ast.List):
            for el in st.value.elts:
                if isinstance(el, ast.Name) and el.id == gate:
                    out.append("ESame")
                else:
                    out.append(gate_call(el, env, gate))
        elif isinstance(st, ast.Expr) and isinstance(st.value, ast.Constant) and isinstance(st.value.value, str):
            pass
        elif isinstance(st, ast.Pass):
            pass
        else:
            raise Refuse(f"statement {type(st).__name__} at line {st.lineno}: {ast.unparse(st)[:70]}")
    return out


def name_test(t, gate="gate"):
    """`gate.name == "X"` -> "X" """
    if isinstance(t, ast.Compare) and ast.unparse(t.left) == gate + ".name" and len(t.ops) == 1 and isinstance(t.ops[0], ast.Eq) \
            and isinstance(t.comparators[0], ast.Constant) and isinstance(t.comparators[0].value, str):
        return t.comparators[0].value
    raise Refuse("test is not gate.name == <str>: " + ast.unparse(t))


def branches(loop_body, env, dest, parse_test, gate="gate"):
    """body of `for gate in ...:` = if/elif chain on the gate name ending in `else: dest.append(gate)` -> [(name, [emit])]"""
    pre = [s for s in loop_body if not isinstance(s, ast.If)]
    ifs = [s for s in loop_body if isinstance(s, ast.If)]
    if len(ifs) != 1 or loop_body[-1] is not ifs[0]:
        raise Refuse("loop body is not (scalar assignments; one if/elif chain)")
    emits(pre, env, dest, gate)  # only assignments allowed (emits() refuses anything else; appended gates refused below)
    if any(not isinstance(s, ast.Assign) for s in pre):
        raise Refuse("statement before the if chain")
    out = []
    node = ifs[0]
    while True:
        nm = parse_test(node.test)
        out.append((nm, emits(node.body, dict(env), dest, gate)))
        if len(node.orelse) == 1 and isinstance(node.orelse[0], ast.If):
            node = node.orelse[0]
            continue
        if emits(node.orelse, dict(env), dest, gate) != ["ESame"]:
            raise Refuse("chain does not end in `else: append(gate)`")
        break
    names = [n for n, _ in out]
    if len(set(names)) != len(names):
        raise Refuse("duplicate branch " + str(names))
    return out


def str_list(n):
    if isinstance(n, (ast.List, ast.Tuple)) and all(isinstance(e, ast.Constant) and isinstance(e.value, str) for e in n.elts):
        return [e.value for e in n.elts]
    raise Refuse("not a list of string constants: " + ast.unparse(n)[:60])


RESOLVE_TO_UNIVERSAL = (
    "if gate.name in basis_2q:\n"
    "    method = _gate_basis_2q\n"
    "else:\n"
    "    if gate.name == 'SWAP' and 'ISWAP' in basis_2q:\n"
    "        method = _gate_IGNORED\n"
    "    else:\n"
    "        method = globals()['_gate_' + str(gate.name)]\n"
    "method(gate, temp_resolved)"
)
RESOLVE_TO_UNIVERSAL_FLAT = (
    "if gate.name in basis_2q:\n"
    "    method = _gate_basis_2q\n"
    "elif gate.name == 'SWAP' and 'ISWAP' in basis_2q:\n"
    "    method = _gate_IGNORED\n"
    "else:\n"
    "    method = globals()['_gate_' + str(gate.name)]\n"
    "method(gate, temp_resolved)"
)
RESOLVE_2Q = "method = globals()['_basis_' + str(basis)]\nmethod(qc_temp, temp_resolved)"


def translate_decompose(path):
    where = "translator:_decompose.py"
    try:
        mod = ast.parse(open(path).read())
    except (OSError, SyntaxError) as e:
        raise Broken(where + ":parse", str(e))
    defs = {}      # X -> rule text
    table = {}     # N -> X   (insertion order = module order; rebinding moves nothing, value replaced)
    passes = {}
    seen_dispatch = set()
    for node in mod.body:
        if isinstance(node, ast.FunctionDef) and node.name.startswith("_gate_"):
            X = node.name[len("_gate_"):]
            args = [a.arg for a in node.args.args]
            if args != ["gate", "temp_resolved"] or node.args.defaults or node.args.vararg or node.args.kwarg or node.decorator_list:
                raise Broken(f"{where}:{node.name}", "unexpected signature")
            body = strip_doc(node.body)
            try:
                if len(body) == 1 and isinstance(body[0], ast.Raise):
                    exc = body[0].exc
                    en = ast.unparse(exc.func) if isinstance(exc, ast.Call) else ast.unparse(exc)
                    if en == "KeyError":
                        raise Refuse("rule raises KeyError (would be caught by resolve_gates)")
                    defs[X] = "RRaise"
                else:
                    defs[X] = "REmit [" + "; ".join(emits(body, {}, "temp_resolved")) + "]"
            except Refuse as r:
                raise Broken(f"{where}:{node.name}", str(r))
            table[X] = X
        elif isinstance(node, ast.FunctionDef) and node.name.startswith("_basis_"):
            Y = node.name[len("_basis_"):]
            args = [a.arg for a in node.args.args]
            if args != ["qc_temp", "temp_resolved"] or node.args.defaults or node.decorator_list:
                raise Broken(f"{where}:{node.name}", "unexpected signature")
            body = strip_doc(node.body)
            try:
                env = {}
                pre = body[:-1]
                if any(not isinstance(s, ast.Assign) for s in pre):
                    raise Refuse("statement other than a scalar assignment before the loop")
                emits(pre, env, "qc_temp.gates")
                loop = body[-1] if body else None
                if not (isinstance(loop, ast.For) and ast.unparse(loop.target) == "gate" and ast.unparse(loop.iter) == "temp_resolved"
                        and not loop.orelse):
                    raise Refuse("body does not end in `for gate in temp_resolved:`")
                passes[Y] = branches(loop.body, env, "qc_temp.gates", name_test)
            except Refuse as r:
                raise Broken(f"{where}:{node.name}", str(r))
        elif isinstance(node, ast.FunctionDef) and node.name == "_resolve_to_universal":
            if [a.arg for a in node.args.args] != ["gate", "temp_resolved", "basis_1q", "basis_2q"] or \
                    ast.unparse(strip_doc(node.body)) not in (RESOLVE_TO_UNIVERSAL, RESOLVE_TO_UNIVERSAL_FLAT):
                raise Broken(f"{where}:_resolve_to_universal", "dispatch differs from the modelled precedence")
            seen_dispatch.add(node.name)
        elif isinstance(node, ast.FunctionDef) and node.name == "_resolve_2q_basis":
            if [a.arg for a in node.args.args] != ["basis", "qc_temp", "temp_resolved"] or ast.unparse(strip_doc(node.body)) != RESOLVE_2Q:
                raise Broken(f"{where}:_resolve_2q_basis", "dispatch differs from the modelled one")
            seen_dispatch.add(node.name)
        elif isinstance(node, ast.FunctionDef):
            raise Broken(f"{where}:{node.name}", "unknown module-level function")
        elif isinstance(node, ast.Assign) and all(isinstance(t, ast.Name) for t in node.targets) and isinstance(node.value, ast.Name):
            src = node.value.id
            for t in node.targets:
                if not t.id.startswith("_gate_") or not src.startswith("_gate_"):
                    raise Broken(f"{where}:{t.id}", "alias outside the _gate_ namespace")
                if src[len("_gate_"):] not in table:
                    raise Broken(f"{where}:{t.id}", f"alias of the undefined name {src}")
            for t in node.targets:
                table[t.id[len("_gate_"):]] = table[src[len("_gate_"):]]
        elif isinstance(node, (ast.Import, ast.ImportFrom)):
            pass
        elif isinstance(node, ast.Expr) and isinstance(node.value, ast.Constant) and isinstance(node.value.value, str):
            pass
        elif isinstance(node, ast.Assign) and ast.unparse(node.targets[0]) == "__all__":
            pass
        else:
            raise Broken(f"{where}:line{node.lineno}", "unknown module-level statement " + ast.unparse(node)[:60])
    if seen_dispatch != {"_resolve_to_universal", "_resolve_2q_basis"}:
        raise Broken(where, "dispatch functions missing")
    return defs, table, passes


def _find_method(path):
    where = "translator:circuit.py:resolve_gates"
    try:
        mod = ast.parse(open(path).read())
    except (OSError, SyntaxError) as e:
        raise Broken(where + ":parse", str(e))
    cls = next((n for n in mod.body if isinstance(n, ast.ClassDef) and n.name == "QubitCircuit"), None)
    if cls is None:
        raise Broken(where, "class QubitCircuit not found")
    m = next((n for n in cls.body if isinstance(n, ast.FunctionDef) and n.name == "resolve_gates"), None)
    if m is None:
        raise Broken(where, "method not found")
    return m


def translate_resolve(path):
    where = "translator:circuit.py:resolve_gates"
    m = _find_method(path)
    try:
        if [a.arg for a in m.args.args] != ["self", "basis"] or len(m.args.defaults) != 1:
            raise Refuse("signature")
        default_basis = str_list(m.args.defaults[0])
        body = strip_doc(m.body)
        i = 0

        def nxt():
            nonlocal i
            if i >= len(body):
                raise Refuse("body ended early")
            i += 1
            return body[i - 1]
        st = nxt()
        if not (isinstance(st, ast.Assign) and ast.unparse(st.targets[0]) == "qc_temp" and ast.unparse(st.value).startswith("QubitCircuit(self.N")):
            raise Refuse("qc_temp construction")
        st = nxt()
        if ast.unparse(st) != "temp_resolved = []":
            raise Refuse("temp_resolved initialisation")
        st = nxt()
        if not (isinstance(st, ast.Assign) and ast.unparse(st.targets[0]) == "basis_1q_valid"):
            raise Refuse("basis_1q_valid")
        v1 = str_list(st.value)
        st = nxt()
        if not (isinstance(st, ast.Assign) and ast.unparse(st.targets[0]) == "basis_2q_valid"):
            raise Refuse("basis_2q_valid")
        v2 = str_list(st.value)
        st = nxt()
        if ast.unparse(st) != "num_measurements = len(list(filter(lambda x: isinstance(x, Measurement), self.gates)))":
            raise Refuse("measurement count")
        st = nxt()
        if not (isinstance(st, ast.If) and ast.unparse(st.test) == "num_measurements > 0" and len(st.body) == 1
                and isinstance(st.body[0], ast.Raise) and not st.orelse):
            raise Refuse("measurement refusal")
        # ---- basis parsing
        st = nxt()
        if not (isinstance(st, ast.If) and ast.unparse(st.test) == "isinstance(basis, list)"):
            raise Refuse("basis form test")
        LIST_BRANCH = (
            "basis_1q = []\nbasis_2q = []\n"
            "for gate in basis:\n"
            "    if gate in basis_2q_valid:\n        basis_2q.append(gate)\n"
            "    elif gate in basis_1q_valid:\n        basis_1q.append(gate)\n"
            "    else:\n        pass\n"
            "if len(basis_1q) == 1:\n    raise ValueError('Not sufficient single-qubit gates in basis')\n"
            "if len(basis_1q) == 0:\n    basis_1q = %s")
        lb = list(st.body)
        rot_norm = None
        if len(lb) == 6:
            # optional normalisation: basis_1q = [g for g in ["RX", "RY", "RZ"] if g in basis_1q]
            nz = lb[3]
            ok = (isinstance(nz, ast.Assign) and ast.unparse(nz.targets[0]) == "basis_1q" and isinstance(nz.value, ast.ListComp)
                  and len(nz.value.generators) == 1 and isinstance(nz.value.elt, ast.Name))
            if ok:
                gen = nz.value.generators[0]
                v = nz.value.elt.id
                ok = (isinstance(gen.target, ast.Name) and gen.target.id == v and not gen.is_async and len(gen.ifs) == 1
                      and ast.unparse(gen.ifs[0]) == f"{v} in basis_1q")
            if not ok:
                raise Refuse("list-basis branch: unrecognised statement " + ast.unparse(nz)[:70])
            rot_norm = str_list(gen.iter)
            del lb[3]
        if len(lb) != 5 or not (isinstance(lb[4], ast.If) and len(lb[4].body) == 1 and isinstance(lb[4].body[0], ast.Assign)):
            raise Refuse("list-basis branch shape")
        d1_list = str_list(lb[4].body[0].value)
        if ast.unparse(lb) != LIST_BRANCH % ast.unparse(lb[4].body[0].value):
            raise Refuse("list-basis branch differs from the modelled parsing")
        sb = st.orelse
        if len(sb) != 2 or not (isinstance(sb[0], ast.Assign) and ast.unparse(sb[0].targets[0]) == "basis_1q"):
            raise Refuse("string-basis branch shape")
        d1_str = str_list(sb[0].value)
        s2 = sb[1]
        if not (isinstance(s2, ast.If) and ast.unparse(s2.test) == "basis in basis_2q_valid" and len(s2.orelse) == 1
                and isinstance(s2.orelse[0], ast.Raise)):
            raise Refuse("string-basis validity test")
        sbody = [ast.unparse(x) for x in s2.body]
        if sbody == ["basis_2q = [basis]"]:
            listified = False
        elif sorted(sbody) == ["basis = [basis]", "basis_2q = [basis]"] and sbody[0] == "basis_2q = [basis]":
            listified = True
        else:
            raise Refuse("string-basis assignment: " + "; ".join(sbody))
        # ---- main loop
        st = nxt()
        if not (isinstance(st, ast.For) and ast.unparse(st.target) == "gate" and ast.unparse(st.iter) == "self.gates" and not st.orelse
                and len(st.body) == 2):
            raise Refuse("main loop shape")
        pa, tr = st.body
        if not (isinstance(pa, ast.If) and isinstance(pa.test, ast.Compare) and ast.unparse(pa.test.left) == "gate.name"
                and len(pa.test.ops) == 1 and isinstance(pa.test.ops[0], ast.In) and not pa.orelse and len(pa.body) == 2):
            raise Refuse("Pauli substitution test")
        pauli_names = str_list(pa.test.comparators[0])
        mk, sub = pa.body
        if not (isinstance(mk, ast.Expr) and isinstance(mk.value, ast.Call) and isinstance(mk.value.func, ast.Attribute)
                and mk.value.func.attr == "append" and len(mk.value.args) == 1):
            raise Refuse("Pauli marker statement")
        dest = ast.unparse(mk.value.func.value)
        if dest == "temp_resolved":
            to_temp = True
        elif dest == "qc_temp.gates":
            to_temp = False
        else:
            raise Refuse("Pauli marker appended to " + dest)
        marker = gate_call(mk.value.args[0], {})
        if not (isinstance(sub, ast.Assign) and ast.unparse(sub.targets[0]) == "gate"):
            raise Refuse("Pauli substitution statement")
        subst = gate_call(sub.value, {})
        TRY = ("try:\n    _resolve_to_universal(gate, temp_resolved, basis_1q, basis_2q)\n"
               "except KeyError:\n    if gate.name in basis:\n        temp_resolved.append(gate)\n    else:\n")
        if not (isinstance(tr, ast.Try) and ast.unparse(tr).startswith(TRY) and len(tr.handlers) == 1 and not tr.orelse and not tr.finalbody):
            raise Refuse("try/except KeyError differs from the modelled one")
        els = tr.handlers[0].body[0].orelse
        if not (els and isinstance(els[-1], ast.Raise) and all(isinstance(x, (ast.Assign, ast.Raise)) for x in els)):
            raise Refuse("unresolvable gate is not refused by raise")
        # ---- two-qubit pass
        st = nxt()
        if ast.unparse(st) != "match = False":
            raise Refuse("match flag")
        st = nxt()
        if not (isinstance(st, ast.For) and ast.unparse(st.target) == "basis_unit"):
            raise Refuse("two-qubit pass loop")
        order = str_list(st.iter)
        if ast.unparse(st.body) != ("if basis_unit in basis_2q:\n    match = True\n"
                                    "    _resolve_2q_basis(basis_unit, qc_temp, temp_resolved)\n    break"):
            raise Refuse("two-qubit pass body")
        st = nxt()
        if ast.unparse(st) != "if not match:\n    qc_temp.gates = temp_resolved":
            raise Refuse("no-match assignment")
        # ---- third-rotation elimination
        st = nxt()
        if not (isinstance(st, ast.If) and ast.unparse(st.test) == "len(basis_1q) == 2" and not st.orelse):
            raise Refuse("elimination guard")
        eb = st.body
        if len(eb) < 3 or ast.unparse(eb[0]) != "temp_resolved = qc_temp.gates" or ast.unparse(eb[1]) != "qc_temp.gates = []":
            raise Refuse("elimination prologue")
        env = {}
        mid = eb[2:-1]
        if any(not isinstance(s, ast.Assign) for s in mid):
            raise Refuse("elimination: statement before the loop")
        emits(mid, env, "qc_temp.gates")
        loop = eb[-1]
        if not (isinstance(loop, ast.For) and ast.unparse(loop.target) == "gate" and ast.unparse(loop.iter) == "temp_resolved" and not loop.orelse):
            raise Refuse("elimination loop")

        def elim_test(t):
            if isinstance(t, ast.BoolOp) and isinstance(t.op, ast.And) and len(t.values) == 2:
                nm = name_test(t.values[0])
                if ast.unparse(t.values[1]) == f"'{nm}' not in basis_1q":
                    return nm
            raise Refuse("elimination test: " + ast.unparse(t))
        elim = branches(loop.body, env, "qc_temp.gates", elim_test)
        st = nxt()
        if ast.unparse(st) != "qc_temp.gates = deepcopy(qc_temp.gates)":
            raise Refuse("final deepcopy")
        st = nxt()
        if ast.unparse(st) != "return qc_temp" or i != len(body):
            raise Refuse("return")
    except Refuse as r:
        raise Broken(where, str(r))
    return dict(default_basis=default_basis, v1=v1, v2=v2, d1_list=d1_list, d1_str=d1_str, listified=listified, rot_norm=rot_norm,
                pauli_names=pauli_names, to_temp=to_temp, marker=marker, subst=subst, order=order, elim=elim)


def generate():
    dpath = os.path.join(PKG, "circuit", "_decompose.py")
    cpath = os.path.join(PKG, "circuit", "circuit.py")
    defs, table, passes = translate_decompose(dpath)
    r = translate_resolve(cpath)
    try:
        out = ["(* GENERATED by tools/translate/decompose_tr.py from circuit/_decompose.py and QubitCircuit.resolve_gates - do not edit *)",
               "From QV Require Import Found.Sym Model.ResolveTypes.", "Local Open Scope Q_scope.", "Local Open Scope string_scope.", ""]
        for X, txt in defs.items():
            out.append(f"Definition rule_{X} : rule := {txt}.")
        out.append("")
        out.append("Definition gate_defs : list (string * rule) := [" + "; ".join(f"({cstr(X)}, rule_{X})" for X in defs) + "].")
        out.append("Definition gate_table : list (string * string) := [" + "; ".join(f"({cstr(n)}, {cstr(x)})" for n, x in table.items()) + "].")
        out.append("Definition basis_passes : list (string * list (string * list emit)) := [" + ";\n  ".join(
            f"({cstr(Y)}, [" + ";\n     ".join(f"({cstr(n)}, [{'; '.join(es)}])" for n, es in br) + "])" for Y, br in passes.items()) + "].")
        out.append("Definition elim_rules : list (string * list emit) := [" + ";\n  ".join(
            f"({cstr(n)}, [{'; '.join(es)}])" for n, es in r["elim"]) + "].")
        out.append(f"Definition basis_1q_valid : list string := {cstrs(r['v1'])}.")
        out.append(f"Definition basis_2q_valid : list string := {cstrs(r['v2'])}.")
        out.append(f"Definition basis_2q_order : list string := {cstrs(r['order'])}.")
        out.append(f"Definition default_1q_list : list string := {cstrs(r['d1_list'])}.")
        out.append(f"Definition default_1q_str : list string := {cstrs(r['d1_str'])}.")
        out.append(f"Definition default_basis : list string := {cstrs(r['default_basis'])}.")
        out.append(f"Definition pauli_names : list string := {cstrs(r['pauli_names'])}.")
        out.append(f"Definition pauli_marker : emit := {r['marker']}.")
        out.append(f"Definition pauli_subst : emit := {r['subst']}.")
        out.append(f"Definition pauli_marker_to_temp : bool := {'true' if r['to_temp'] else 'false'}.")
        out.append(f"Definition str_basis_listified : bool := {'true' if r['listified'] else 'false'}.")
        out.append(f"Definition rot_normalised : bool := {'true' if r['rot_norm'] is not None else 'false'}.")
        out.append(f"Definition rot_norm_list : list string := {cstrs(r['rot_norm'] or [])}.")
    except Refuse as e:
        raise Broken("translator:emit", str(e))
    text = "\n".join(out) + "\n"
    write_if_changed(os.path.join(COQ, "Gen", "Decompose.v"), text)
    return dict(rules=sorted(defs), table=dict(table), passes={k: [n for n, _ in v] for k, v in passes.items()},
                elim=[n for n, _ in r["elim"]], marker_to_temp=r["to_temp"], str_basis_listified=r["listified"], rot_normalised=r["rot_norm"], order=r["order"],
                n_emits=sum(t.count("EGate") + t.count("ESame") for t in defs.values()))


if __name__ == "__main__":
    import json
    print(json.dumps(generate(), indent=1))
