"""Fail-closed translator for property C06: the calibration tables of the spin-chain compiler and model
  compiler/spinchaincompiler.py, compiler/gatecompiler.py (gate -> method map, idle), device/spinchain.py
  (control Hamiltonians, native gates, load_circuit phase hand-over), device/processor.py (phase appended by
  run_analytically)          ->  coq/Gen/SpinChain.v

Walks the Python `ast` of the CURRENT sources only; emits Coq syntax trees (Found.Sym.ex for real expressions,
Model.SpinChainTypes.iex/bex for index arithmetic and branch conditions) and evaluates nothing itself.
Any statement of the translated functions that is not of a recognised shape aborts with
Broken("translator:<file>:<function>", detail).
"""
import ast
import os
import sys
from fractions import Fraction

sys.path.insert(0, os.path.dirname(os.path.dirname(os.path.abspath(__file__))))
from common import Broken, PKG, COQ, write_if_changed  # noqa: E402

F_SC = "compiler/spinchaincompiler.py"
F_GC = "compiler/gatecompiler.py"
F_DEV = "device/spinchain.py"
F_PROC = "device/processor.py"
F_MP = "device/modelprocessor.py"


def _parse(rel):
    try:
        return ast.parse(open(os.path.join(PKG, rel)).read())
    except (OSError, SyntaxError) as e:
        raise Broken("translator:" + rel, str(e))


def _cls(tree, rel, name):
    for n in tree.body:
        if isinstance(n, ast.ClassDef) and n.name == name:
            return n
    raise Broken(f"translator:{rel}:{name}", "class not found")


def _fn(cls, rel, name, required=True):
    for n in cls.body:
        if isinstance(n, ast.FunctionDef) and n.name == name:
            return n
    if required:
        raise Broken(f"translator:{rel}:{cls.name}.{name}", "function not found")
    return None


def _stmts(fn):
    b = fn.body
    if b and isinstance(b[0], ast.Expr) and isinstance(getattr(b[0], "value", None), ast.Constant) \
            and isinstance(b[0].value.value, str):
        b = b[1:]
    return b


def u(n):
    return ast.unparse(n).replace(" ", "").replace("'", '"')


def cstr(s):
    return '"' + s.replace('"', '""') + '"'


def qlit(fr):
    return f"({fr.numerator} # {fr.denominator})"


# ------------------------------------------------------------------ real expressions -> Found.Sym.ex
def real_ex(n, where, env):
    """env: source text -> Coq ex (e.g. 'gate.arg_value' -> 'Var 0')"""
    t = u(n)
    if t in env:
        return env[t]
    if t in ("np.pi", "pi", "numpy.pi", "math.pi"):
        return "Pi"
    if isinstance(n, ast.Constant) and isinstance(n.value, (int, float)) and not isinstance(n.value, bool):
        fr = Fraction(n.value)            # exact value of the float literal
        if fr < 0:
            return f"(Neg (Num {qlit(-fr)}))"
        return f"(Num {qlit(fr)})"
    if isinstance(n, ast.UnaryOp) and isinstance(n.op, ast.USub):
        return f"(Neg {real_ex(n.operand, where, env)})"
    if isinstance(n, ast.UnaryOp) and isinstance(n.op, ast.UAdd):
        return real_ex(n.operand, where, env)
    if isinstance(n, ast.BinOp):
        op = {ast.Add: "Add", ast.Sub: "Sub", ast.Mult: "Mul", ast.Div: "Div"}.get(type(n.op))
        if op is None:
            raise Broken("translator:" + where, "operator not accepted in a real expression: " + t)
        return f"({op} {real_ex(n.left, where, env)} {real_ex(n.right, where, env)})"
    raise Broken("translator:" + where, "real expression not accepted: " + t)


# ------------------------------------------------------------------ index expressions / conditions
def int_ex(n, where, env):
    t = u(n)
    if t in env:
        return env[t]
    if isinstance(n, ast.Constant) and isinstance(n.value, int) and not isinstance(n.value, bool):
        return f"(IConst ({n.value})%Z)"
    if isinstance(n, ast.BinOp):
        op = {ast.Add: "IAdd", ast.Sub: "ISub", ast.Mod: "IMod"}.get(type(n.op))
        if op is None:
            raise Broken("translator:" + where, "operator not accepted in an index expression: " + t)
        return f"({op} {int_ex(n.left, where, env)} {int_ex(n.right, where, env)})"
    raise Broken("translator:" + where, "index expression not accepted: " + t)


def bool_ex(n, where, env):
    if isinstance(n, ast.BoolOp) and isinstance(n.op, ast.And):
        out = bool_ex(n.values[0], where, env)
        for v in n.values[1:]:
            out = f"(BAnd {out} {bool_ex(v, where, env)})"
        return out
    if isinstance(n, ast.Compare) and len(n.ops) == 1:
        lhs, rhs = n.left, n.comparators[0]
        if u(lhs) == "self.setup" and isinstance(n.ops[0], ast.Eq) and isinstance(rhs, ast.Constant) \
                and isinstance(rhs.value, str):
            return f"(BSetup {cstr(rhs.value)})"
        c = {ast.Eq: "BEq", ast.NotEq: "BNe"}.get(type(n.ops[0]))
        if c is not None:
            return f"({c} {int_ex(lhs, where, env)} {int_ex(rhs, where, env)})"
    raise Broken("translator:" + where, "condition not accepted: " + u(n))


# ------------------------------------------------------------------ compiler
def _label_expr(n, where, prefix_env, ienv):
    """<prefix> + str(<index>)  ->  (prefix text, iex)"""
    if isinstance(n, ast.BinOp) and isinstance(n.op, ast.Add) and isinstance(n.right, ast.Call) \
            and u(n.right.func) == "str" and len(n.right.args) == 1:
        left = n.left
        if isinstance(left, ast.Constant) and isinstance(left.value, str):
            pre = cstr(left.value)
        elif u(left) in prefix_env:
            pre = prefix_env[u(left)]
        else:
            raise Broken("translator:" + where, "label prefix not accepted: " + u(left))
        return pre, int_ex(n.right.args[0], where, ienv)
    raise Broken("translator:" + where, "label expression not accepted: " + u(n))


def _tr_rotation(cls):
    where = F_SC + ":_rotation_compiler"
    fn = _fn(cls, F_SC, "_rotation_compiler")
    if [a.arg for a in fn.args.args] != ["self", "gate", "op_label", "param_label", "args"]:
        raise Broken("translator:" + where, "signature changed")
    out = {}
    ienv = {}
    seen = set()
    for st in _stmts(fn):
        t = u(st)
        if t == "targets=gate.targets":
            ienv["targets[0]"] = "IT0"
            seen.add("targets")
        elif isinstance(st, ast.Assign) and u(st.targets[0]) in ("coeff,tlist", "(coeff,tlist)") \
                and isinstance(st.value, ast.Call) and u(st.value.func) in ("self.generate_pulse_shape",
                                                                            "GateCompiler.generate_pulse_shape"):
            call = st.value
            pos = [u(a) for a in call.args]
            kw = {k.arg: k.value for k in call.keywords}
            names = ["shape", "num_samples", "maximum", "area"]
            for i, a in enumerate(call.args):
                kw[names[i]] = a
            if u(kw.get("shape")) != 'args["shape"]' or u(kw.get("num_samples")) != 'args["num_samples"]':
                raise Broken("translator:" + where, "shape / num_samples argument: " + t)
            mx = kw.get("maximum")
            if not (isinstance(mx, ast.Subscript) and u(mx.value) == "self.params[param_label]"):
                raise Broken("translator:" + where, "maximum is not self.params[param_label][...]: " + t)
            out["rot_max_index"] = int_ex(mx.slice, where, ienv)
            out["rot_area"] = real_ex(kw.get("area"), where, {"gate.arg_value": "(Var 0)"})
            seen.add("pulse")
        elif isinstance(st, ast.Assign) and u(st.targets[0]) == "pulse_info":
            v = st.value
            if not (isinstance(v, ast.List) and len(v.elts) == 1 and isinstance(v.elts[0], ast.Tuple)
                    and len(v.elts[0].elts) == 2 and u(v.elts[0].elts[1]) == "coeff"):
                raise Broken("translator:" + where, "pulse_info shape: " + t)
            pre, idx = _label_expr(v.elts[0].elts[0], where, {"op_label": "OPLABEL"}, ienv)
            if pre != "OPLABEL":
                raise Broken("translator:" + where, "label prefix is not op_label: " + t)
            out["rot_label_index"] = idx
            seen.add("info")
        elif t == "return[Instruction(gate,tlist,pulse_info)]":
            seen.add("ret")
        else:
            raise Broken("translator:" + where, "statement not accepted: " + t)
    if seen != {"targets", "pulse", "info", "ret"}:
        raise Broken("translator:" + where, "missing statements: %s" % sorted({"targets", "pulse", "info", "ret"} - seen))
    return out


def _tr_swap(cls, stores_setup):
    where = F_SC + ":_swap_compiler"
    fn = _fn(cls, F_SC, "_swap_compiler")
    if [a.arg for a in fn.args.args] != ["self", "gate", "area", "args"]:
        raise Broken("translator:" + where, "signature changed")
    ienv = {"self.N": "IN", "self.num_qubits": "IN"}
    seen = set()
    out = {}

    def branch_result(body):
        if len(body) == 1 and isinstance(body[0], ast.Assign) and u(body[0].targets[0]) == "pulse_name":
            pre, idx = _label_expr(body[0].value, where, {}, ienv)
            return f"(LLabel {pre} {idx})"
        if len(body) == 1 and isinstance(body[0], ast.Raise):
            return "LRaise"
        raise Broken("translator:" + where, "branch body not accepted: " + "; ".join(u(b) for b in body))

    for st in _stmts(fn):
        t = u(st)
        if t == "targets=gate.targets":
            seen.add("targets")
        elif t in ("q1,q2=(min(targets),max(targets))", "(q1,q2)=(min(targets),max(targets))",
                   "q1,q2=min(targets),max(targets)"):
            ienv["q1"] = "IQ1"
            ienv["q2"] = "IQ2"
            seen.add("q")
        elif isinstance(st, ast.Assign) and u(st.targets[0]) == "g" and isinstance(st.value, ast.Subscript) \
                and u(st.value.value) == 'self.params["sxsy"]':
            out["swap_max_index"] = int_ex(st.value.slice, where, ienv)
            seen.add("g")
        elif t == "maximum=g":
            seen.add("max")
        elif isinstance(st, ast.Assign) and u(st.targets[0]) in ("coeff,tlist", "(coeff,tlist)"):
            if u(st.value) not in ('self.generate_pulse_shape(args["shape"],args["num_samples"],maximum,area)',
                                   'self.generate_pulse_shape(args["shape"],args["num_samples"],maximum=maximum,area=area)'):
                raise Broken("translator:" + where, "generate_pulse_shape call: " + t)
            if not {"g", "max"} <= seen:
                raise Broken("translator:" + where, "pulse generated before maximum is set")
            seen.add("pulse")
        elif isinstance(st, ast.If):
            branches = []
            cur = st
            while True:
                cond = bool_ex(cur.test, where, ienv)
                if "BSetup" in cond and not stores_setup:
                    raise Broken("translator:" + where, "self.setup is read but never stored by __init__")
                branches.append(f"({cond}, {branch_result(cur.body)})")
                if len(cur.orelse) == 1 and isinstance(cur.orelse[0], ast.If):
                    cur = cur.orelse[0]
                    continue
                if not cur.orelse:
                    raise Broken("translator:" + where, "label choice without else branch")
                out["swap_else"] = branch_result(cur.orelse)
                break
            out["swap_branches"] = "[" + "; ".join(branches) + "]"
            seen.add("rule")
        elif t == "pulse_info=[(pulse_name,coeff)]":
            if "rule" not in seen:
                raise Broken("translator:" + where, "pulse_info before the label choice")
            seen.add("info")
        elif t == "return[Instruction(gate,tlist,pulse_info)]":
            seen.add("ret")
        else:
            raise Broken("translator:" + where, "statement not accepted: " + t)
    need = {"targets", "q", "g", "max", "pulse", "rule", "info", "ret"}
    if seen != need:
        raise Broken("translator:" + where, "missing statements: %s" % sorted(need - seen))
    return out


def _method_body(fn, where):
    """classify one gate-compiler method"""
    st = _stmts(fn)
    if len(st) == 1 and isinstance(st[0], ast.Pass):
        return "MNothing"
    if len(st) == 1 and isinstance(st[0], ast.AugAssign) and u(st[0]) == "self.global_phase+=gate.arg_value":
        return "MPhase"
    if len(st) == 1 and isinstance(st[0], ast.Return) and isinstance(st[0].value, ast.Call):
        call = st[0].value
        f = u(call.func)
        if f == "self._rotation_compiler":
            a = call.args
            if len(a) == 4 and u(a[0]) == "gate" and u(a[3]) == "args" and not call.keywords \
                    and all(isinstance(x, ast.Constant) and isinstance(x.value, str) for x in a[1:3]):
                return f"(MRot {cstr(a[1].value)} {cstr(a[2].value)})"
        if f == "self._swap_compiler":
            kw = {k.arg: k.value for k in call.keywords}
            for i, a in enumerate(call.args):
                kw[["gate", "area", "args"][i]] = a
            if set(kw) == {"gate", "area", "args"} and u(kw["gate"]) == "gate" and u(kw["args"]) == "args":
                return f"(MSwap {real_ex(kw['area'], where, {})})"
    if len(st) == 2 and u(st[0]) == "idle_time=gate.arg_value" and u(st[1]) == "return[Instruction(gate,idle_time,[])]":
        return "MIdle"
    raise Broken("translator:" + where, "gate compiler body not accepted: " + "; ".join(u(s) for s in st))


def _dict_of_methods(node, where):
    if not isinstance(node, ast.Dict):
        raise Broken("translator:" + where, "gate_compiler table is not a dict literal")
    out = []
    for k, v in zip(node.keys, node.values):
        if not (isinstance(k, ast.Constant) and isinstance(k.value, str) and isinstance(v, ast.Attribute)
                and u(v.value) == "self"):
            raise Broken("translator:" + where, "gate_compiler entry not accepted: " + u(k) + ":" + u(v))
        out.append((k.value, v.attr))
    return out


def _tr_compiler():
    sc = _cls(_parse(F_SC), F_SC, "SpinChainCompiler")
    gc = _cls(_parse(F_GC), F_GC, "GateCompiler")
    if [u(b) for b in sc.bases] != ["GateCompiler"]:
        raise Broken("translator:" + F_SC, "SpinChainCompiler base classes changed")
    # base table
    base = None
    for st in ast.walk(_fn(gc, F_GC, "__init__")):
        if isinstance(st, ast.Assign) and u(st.targets[0]) == "self.gate_compiler" and isinstance(st.value, ast.Dict) \
                and st.value.keys:
            base = _dict_of_methods(st.value, F_GC + ":__init__")
    if base is None:
        raise Broken("translator:" + F_GC + ":__init__", "default gate_compiler table not found")
    upd = None
    stores_setup = False
    init = _fn(sc, F_SC, "__init__")
    for st in _stmts(init):
        t = u(st)
        if isinstance(st, ast.Expr) and isinstance(st.value, ast.Call) and u(st.value.func) == "self.gate_compiler.update":
            upd = _dict_of_methods(st.value.args[0], F_SC + ":__init__")
        elif t == "self.setup=setup":
            stores_setup = True
        elif t == "self.global_phase=global_phase":
            pass
        elif isinstance(st, ast.Expr) and isinstance(st.value, ast.Call) and u(st.value.func).startswith("super("):
            if u(st.value) != "super(SpinChainCompiler,self).__init__(num_qubits,params=params,pulse_dict=pulse_dict,N=N)":
                raise Broken("translator:" + F_SC + ":__init__", "super().__init__ call: " + t)
        else:
            raise Broken("translator:" + F_SC + ":__init__", "statement not accepted: " + t)
    if upd is None:
        raise Broken("translator:" + F_SC + ":__init__", "gate_compiler.update not found")
    table = dict(base)
    table.update(dict(upd))
    methods = []
    for gname in sorted(table):
        meth = table[gname]
        fn = _fn(sc, F_SC, meth, required=False)
        rel = F_SC
        if fn is None:
            fn = _fn(gc, F_GC, meth)
            rel = F_GC
        methods.append((gname, _method_body(fn, f"{rel}:{meth}")))
    out = {"methods": methods, "stores_setup": stores_setup}
    out.update(_tr_rotation(sc))
    out.update(_tr_swap(sc, stores_setup))
    return out


# ------------------------------------------------------------------ device model
def _ham(n, where):
    """2 * np.pi * sigmax()  /  2 * np.pi * operator   ->  (scale ex, operator text)"""
    if isinstance(n, ast.BinOp) and isinstance(n.op, ast.Mult):
        return real_ex(n.left, where, {}), u(n.right)
    raise Broken("translator:" + where, "control Hamiltonian not accepted: " + u(n))


def _tr_model():
    tree = _parse(F_DEV)
    m = _cls(tree, F_DEV, "SpinChainModel")
    where = F_DEV + ":SpinChainModel._set_up_controls"
    fn = _fn(m, F_DEV, "_set_up_controls")
    fams = []
    operator_def = None
    seen_nc = False
    for st in _stmts(fn):
        t = u(st)
        if t == "controls={}" or t == "returncontrols":
            continue
        if t == "num_coupling=self._get_num_coupling()":
            seen_nc = True
            continue
        if isinstance(st, ast.If) and u(st.test) == "num_coupling==0" and [u(b) for b in st.body] == ["returncontrols"] \
                and not st.orelse:
            continue
        if isinstance(st, ast.Assign) and u(st.targets[0]) == "operator":
            if t != "operator=tensor([sigmax(),sigmax()])+tensor([sigmay(),sigmay()])":
                raise Broken("translator:" + where, "exchange operator not accepted: " + t)
            operator_def = "HXY"
            continue
        if isinstance(st, ast.For) and isinstance(st.iter, ast.Call) and u(st.iter.func) == "range" \
                and len(st.iter.args) == 1 and len(st.body) == 1 and isinstance(st.body[0], ast.Assign) and not st.orelse:
            var = u(st.target)
            cnt = u(st.iter.args[0])
            if cnt == "num_qubits":
                count = "IN"
            elif cnt == "num_coupling" and seen_nc:
                count = "INumCoupling"
            else:
                raise Broken("translator:" + where, "loop bound not accepted: " + cnt)
            a = st.body[0]
            tgt = a.targets[0]
            if not (isinstance(tgt, ast.Subscript) and u(tgt.value) == "controls"):
                raise Broken("translator:" + where, "loop body not accepted: " + u(a))
            ienv = {var: "ILoop", "num_qubits": "IN"}
            pre, idx = _label_expr(tgt.slice, where, {}, ienv)
            if idx != "ILoop":
                raise Broken("translator:" + where, "label index is not the loop variable: " + u(a))
            if not (isinstance(a.value, ast.Tuple) and len(a.value.elts) == 2):
                raise Broken("translator:" + where, "control entry not a pair: " + u(a))
            scale, op = _ham(a.value.elts[0], where)
            if op == "sigmax()":
                kind = "HX"
            elif op == "sigmaz()":
                kind = "HZ"
            elif op == "operator" and operator_def:
                kind = operator_def
            else:
                raise Broken("translator:" + where, "operator not accepted: " + op)
            te = a.value.elts[1]
            if isinstance(te, ast.List):
                tgts = [int_ex(e, where, ienv) for e in te.elts]
            else:
                tgts = [int_ex(te, where, ienv)]
            fams.append(f"mkCF {pre} {kind} {scale} {count} [" + "; ".join(tgts) + "]")
            continue
        raise Broken("translator:" + where, "statement not accepted: " + t)
    if len(fams) != 3:
        raise Broken("translator:" + where, "expected three control families, found %d" % len(fams))
    # _get_num_coupling
    where = F_DEV + ":SpinChainModel._get_num_coupling"
    fn = _fn(m, F_DEV, "_get_num_coupling")
    nc = []
    st = _stmts(fn)
    if not (len(st) == 2 and isinstance(st[0], ast.If) and u(st[1]) == "returnnum_coupling"):
        raise Broken("translator:" + where, "shape changed")
    cur = st[0]
    while True:
        c = cur.test
        if not (isinstance(c, ast.Compare) and u(c.left) == "self.setup" and isinstance(c.ops[0], ast.Eq)
                and isinstance(c.comparators[0], ast.Constant) and len(cur.body) == 1
                and isinstance(cur.body[0], ast.Assign) and u(cur.body[0].targets[0]) == "num_coupling"):
            raise Broken("translator:" + where, "branch not accepted: " + u(cur.test))
        nc.append(f"({cstr(c.comparators[0].value)}, {int_ex(cur.body[0].value, where, {'self.num_qubits': 'IN'})})")
        if len(cur.orelse) == 1 and isinstance(cur.orelse[0], ast.If):
            cur = cur.orelse[0]
            continue
        if not (len(cur.orelse) == 1 and isinstance(cur.orelse[0], ast.Raise)):
            raise Broken("translator:" + where, "else branch is not a raise")
        break
    # default parameters
    where = F_DEV + ":SpinChainModel.__init__"
    defaults = None
    for n in ast.walk(_fn(m, F_DEV, "__init__")):
        if isinstance(n, ast.Assign) and u(n.targets[0]) == "self.params" and isinstance(n.value, ast.Dict):
            defaults = [(k.value, real_ex(v, where, {})) for k, v in zip(n.value.keys, n.value.values)]
    if defaults is None:
        raise Broken("translator:" + where, "default parameters not found")
    # SpinChain
    sc = _cls(tree, F_DEV, "SpinChain")
    native = None
    for n in ast.walk(_fn(sc, F_DEV, "__init__")):
        if isinstance(n, ast.Assign) and u(n.targets[0]) == "self.native_gates" and isinstance(n.value, ast.List):
            native = [e.value for e in n.value.elts]
    if native is None:
        raise Broken("translator:" + F_DEV + ":SpinChain.__init__", "native_gates not found")
    where = F_DEV + ":SpinChain.load_circuit"
    fn = _fn(sc, F_DEV, "load_circuit")
    fresh = reports = loads = False
    for st in _stmts(fn):
        t = u(st)
        if isinstance(st, ast.If) and u(st.test) == "compilerisNone" and len(st.body) == 1 and not st.orelse \
                and u(st.body[0]) == "compiler=SpinChainCompiler(self.num_qubits,self.params,setup=setup)":
            fresh = True
        elif t == "tlist,coeffs=super().load_circuit(qc,schedule_mode=schedule_mode,compiler=compiler)":
            if reports:
                raise Broken("translator:" + where, "phase read before compilation")
            loads = True
        elif t == "self.global_phase=compiler.global_phase":
            reports = loads
        elif t == "returntlist,coeffs" or t == "return(tlist,coeffs)":
            pass
        else:
            raise Broken("translator:" + where, "statement not accepted: " + t)
    setups = []
    for cname in ("LinearSpinChain", "CircularSpinChain"):
        c = _cls(tree, F_DEV, cname)
        fn = _fn(c, F_DEV, "load_circuit")
        st = _stmts(fn)
        ok = len(st) == 1 and isinstance(st[0], ast.Return) and isinstance(st[0].value, ast.Call) \
            and len(st[0].value.args) == 2 and u(st[0].value.args[0]) == "qc" \
            and isinstance(st[0].value.args[1], ast.Constant) \
            and u(st[0].value.func) == f"super({cname},self).load_circuit" \
            and sorted(u(k) for k in st[0].value.keywords) == ["compiler=compiler", "schedule_mode=schedule_mode"]
        if not ok:
            raise Broken(f"translator:{F_DEV}:{cname}.load_circuit", "shape changed")
        setup = st[0].value.args[1].value
        # the model of the same class must be built with the same setup
        found = False
        for n in ast.walk(_fn(c, F_DEV, "__init__")):
            if isinstance(n, ast.Call) and u(n.func) == "SpinChainModel":
                kw = {k.arg: u(k.value) for k in n.keywords}
                found = kw.get("setup") == '"%s"' % setup
        if not found:
            raise Broken(f"translator:{F_DEV}:{cname}.__init__", "model setup differs from the compiler setup")
        setups.append((cname, setup))
    return dict(families=fams, num_coupling=nc, defaults=defaults, native=native, fresh=fresh, reports=reports,
                setups=setups)


def _tr_processor():
    where = F_PROC + ":Processor.run_analytically"
    fn = _fn(_cls(_parse(F_PROC), F_PROC, "Processor"), F_PROC, "run_analytically")
    appended = False
    for n in ast.walk(fn):
        if isinstance(n, ast.If) and u(n.test) == "self.correct_global_phaseandself.global_phase!=0" \
                and len(n.body) == 1 and u(n.body[0]) == "U_list.append(globalphase(self.global_phase,N=self.num_qubits))":
            appended = True
    slice_ok = False
    for n in ast.walk(fn):
        if isinstance(n, ast.Assign) and u(n) == "U=(-1j*H*dt).expm()":
            slice_ok = True
    if not slice_ok:
        raise Broken("translator:" + where, "slice propagator is not (-1j*H*dt).expm()")
    return dict(appends_phase=appended)


def _tr_modelprocessor():
    """ModelProcessor.load_circuit: is the no-instruction result (None, None) of compile turned into empty tables
    before set_coeffs?  Only this statement is classified here (the rest of the function belongs to C13's translator);
    any OTHER test of tlist/coeffs against None is refused."""
    where = F_MP + ":ModelProcessor.load_circuit"
    fn = _fn(_cls(_parse(F_MP), F_MP, "ModelProcessor"), F_MP, "load_circuit")
    st = _stmts(fn)
    texts = [u(x) for x in st]
    if "self.set_coeffs(coeffs)" not in texts or "self.set_tlist(tlist)" not in texts:
        raise Broken("translator:" + where, "set_coeffs / set_tlist statements not found")
    k = texts.index("self.set_coeffs(coeffs)")
    accepts = False
    for i, x in enumerate(st):
        if isinstance(x, ast.If) and ("coeffsisNone" in u(x.test) or "tlistisNone" in u(x.test)):
            ok = (u(x.test) in ("tlistisNoneandcoeffsisNone", "coeffsisNoneandtlistisNone", "coeffsisNone")
                  and len(x.body) == 1 and not x.orelse
                  and u(x.body[0]) in ("tlist,coeffs=({},{})", "(tlist,coeffs)=({},{})", "tlist,coeffs={},{}"))
            if not ok or i > k:
                raise Broken("translator:" + where, "unrecognised handling of an empty compilation result: " + u(x)[:120])
            accepts = True
    # run_analytically must then cope with a processor without pulses
    fn = _fn(_cls(_parse(F_PROC), F_PROC, "Processor"), F_PROC, "run_analytically")
    runs_empty = False
    body = _stmts(fn)
    for i, x in enumerate(body):
        if isinstance(x, ast.If) and u(x.test) == "tlistisNone" and len(x.body) == 1 and u(x.body[0]) == "tlist=[]" \
                and i > 0 and u(body[i - 1]) == "tlist=self.get_full_tlist()":
            runs_empty = True
    return dict(accepts_empty=accepts, runs_empty=runs_empty)


def generate():
    mp = _tr_modelprocessor()
    comp = _tr_compiler()
    dev = _tr_model()
    proc = _tr_processor()
    b = lambda x: "true" if x else "false"  # noqa: E731
    lines = [
        "(* GENERATED by tools/translate/spinchain_tr.py from compiler/spinchaincompiler.py, compiler/gatecompiler.py,",
        "   device/spinchain.py, device/processor.py -- do not edit *)",
        "From Coq Require Import ZArith QArith String List.",
        "From QV Require Import Found.Sym Model.SpinChainTypes.",
        "Import ListNotations.",
        "Open Scope string_scope.",
        "",
        "(* gate name -> compiling method (GateCompiler defaults overridden by SpinChainCompiler.__init__) *)",
        "Definition gate_methods : list (string * method) := [" + "; ".join(f"({cstr(g)}, {m})" for g, m in comp["methods"]) + "].",
        "(* _rotation_compiler: area as a function of Var 0 = gate.arg_value; index of the strength; index in the label *)",
        f"Definition rot_area : ex := {comp['rot_area']}.",
        f"Definition rot_max_index : iex := {comp['rot_max_index']}.",
        f"Definition rot_label_index : iex := {comp['rot_label_index']}.",
        "(* _swap_compiler: strength index and the label choice *)",
        f"Definition swap_max_index : iex := {comp['swap_max_index']}.",
        f"Definition swap_branches : list (bex * lres) := {comp['swap_branches']}.",
        f"Definition swap_else : lres := {comp['swap_else']}.",
        f"Definition compiler_stores_setup : bool := {b(comp['stores_setup'])}.",
        "(* SpinChainModel._set_up_controls / _get_num_coupling / default strengths *)",
        "Definition ctrl_families : list ctrl_family := [" + "; ".join(dev["families"]) + "].",
        "Definition num_coupling_tab : list (string * iex) := [" + "; ".join(dev["num_coupling"]) + "].",
        "Definition default_params : list (string * ex) := [" + "; ".join(f"({cstr(k)}, {v})" for k, v in dev["defaults"]) + "].",
        "Definition native_gates : list string := [" + "; ".join(cstr(g) for g in dev["native"]) + "].",
        "Definition processor_setups : list (string * string) := [" + "; ".join(f"({cstr(a)}, {cstr(s)})" for a, s in dev["setups"]) + "].",
        "(* SpinChain.load_circuit builds a fresh compiler when none is given and copies its global_phase afterwards;",
        "   Processor.run_analytically appends globalphase(self.global_phase) *)",
        f"Definition load_fresh_compiler : bool := {b(dev['fresh'])}.",
        f"Definition load_reports_phase : bool := {b(dev['reports'])}.",
        f"Definition run_appends_phase : bool := {b(proc['appends_phase'])}.",
        "(* ModelProcessor.load_circuit turns the no-instruction result (None, None) of compile into empty tables;",
        "   Processor.run_analytically accepts a processor without pulses *)",
        f"Definition load_accepts_empty : bool := {b(mp['accepts_empty'])}.",
        f"Definition run_accepts_no_pulse : bool := {b(mp['runs_empty'])}.",
        "",
    ]
    text = "\n".join(lines)
    write_if_changed(os.path.join(COQ, "Gen", "SpinChain.v"), text)
    return dict(comp=comp, dev=dev, proc=proc, mp=mp, text=text)


if __name__ == "__main__":
    print(generate()["text"])
