"""Fail-closed translator for property C06: the calibration tables of the spin-chain compiler and model
  compiler/spinchaincompiler.py, compiler/gatecompiler.py (gate -> method map, idle), device/spinchain.py
  (control Hamiltonians, native gates, load_circuit phase hand-over), device/modelprocessor.py (empty compilation
  result), device/processor.py (phase appended by run_analytically)          ->  coq/Gen/SpinChain.v

Walks the Python `ast` of the CURRENT sources only and emits Coq syntax trees (Found.Sym.ex for real expressions,
Model.SpinChainTypes.iex/bex for index arithmetic and branch conditions).

The translated functions are read through a small SYMBOLIC EXECUTOR (`sym_exec`) instead of statement templates, so that
behaviour-preserving rewrites give the same emitted tree:
  * local temporaries are resolved through an environment (pure right-hand sides are substituted into their uses;
    a right-hand side containing a call is bound to a fresh symbol so that sharing / evaluation order is kept);
  * `if/elif/else` that assign a temporary, early `return`s / `raise`s and guard clauses are all flattened into the
    same ordered list of PATHS (conjunction of literals -> outcome);
  * numeric sub-expressions without variables are folded with Python's own float arithmetic and emitted as one reduced
    rational, so `-1 / 8` and `-0.125` are the same tree.
Fail-closed: any statement kind, expression or call outside the accepted language, any effect (attribute assignment,
call statement) that the reader of a function does not expect, aborts with Broken("translator:<file>:<function>", ..).
"""
import ast
import copy
import os
import sys
from fractions import Fraction

sys.path.insert(0, os.path.dirname(os.path.dirname(os.path.abspath(__file__))))
from common import Broken, PKG, COQ, write_if_changed  # noqa: E402

F_SC = "compiler/spinchaincompiler.py"
F_GC = "compiler/gatecompiler.py"
F_DEV = "device/spinchain.py"
F_PROC = "device/processor.py"
F_MP = "device/modelprocessor.py"

GENV = {}          # file -> module-level constants
PURE_CALLS = {"min", "max", "str", "abs", "len", "int", "float", "range", "dict"}


def _parse(rel):
    try:
        return ast.parse(open(os.path.join(PKG, rel)).read())
    except (OSError, SyntaxError) as e:
        raise Broken("translator:" + rel, str(e))


def _cls(tree, rel, name):
    for n in tree.body:
        if isinstance(n, ast.ClassDef) and n.name == name:
            return n
    raise Broken(f"translator:{rel}:{name}", "class not found")


def _fn(cls, rel, name, required=True):
    for n in cls.body:
        if isinstance(n, ast.FunctionDef) and n.name == name:
            return n
    if required:
        raise Broken(f"translator:{rel}:{cls.name}.{name}", "function not found")
    return None


def _stmts(fn):
    b = fn.body
    if b and isinstance(b[0], ast.Expr) and isinstance(getattr(b[0], "value", None), ast.Constant) \
            and isinstance(b[0].value.value, str):
        b = b[1:]
    return b


def u(n):
    return ast.unparse(n).replace(" ", "").replace("'", '"')


def cstr(s):
    return '"' + s.replace('"', '""') + '"'


def qlit(fr):
    return f"({fr.numerator} # {fr.denominator})"


# ================================================================== symbolic execution
class Path:
    def __init__(self):
        self.conds = []      # [(ast expr with the environment substituted, polarity)]
        self.env = {}        # local name -> ast expr
        self.events = []     # ("def", sym, expr) | ("set", target text, expr) | ("setitem", base, key, expr) | ("call", expr)
        self.result = None   # ("return", expr|None) | ("raise", expr|None) | ("end", None)

    def fork(self):
        p = Path()
        p.conds = list(self.conds)
        p.env = dict(self.env)
        p.events = list(self.events)
        return p


class _Subst(ast.NodeTransformer):
    def __init__(self, env):
        self.env = env

    def visit_Name(self, node):
        if isinstance(node.ctx, ast.Load) and node.id in self.env:
            return copy.deepcopy(self.env[node.id])
        return node


def _subst(env, node):
    return _Subst(env).visit(copy.deepcopy(node))


def _is_pure(node):
    for n in ast.walk(node):
        if isinstance(n, ast.Call):
            if not (isinstance(n.func, ast.Name) and n.func.id in PURE_CALLS):
                return False
        if isinstance(n, (ast.Lambda, ast.Yield, ast.YieldFrom, ast.Await, ast.NamedExpr, ast.ListComp, ast.DictComp,
                          ast.SetComp, ast.GeneratorExp)):
            return False
    return True


class SymExec:
    def __init__(self, where, genv=None):
        self.where = where
        self.defs = {}
        self.k = 0
        self.genv = dict(genv if genv is not None else GENV.get(where.split(":")[0], {}))      # module-level constants

    def fresh(self, expr):
        self.k += 1
        s = "__sym%d" % self.k
        self.defs[s] = expr
        return s

    def bind(self, p, name, rhs):
        """rhs already substituted"""
        if _is_pure(rhs):
            p.env[name] = rhs
        else:
            s = self.fresh(rhs)
            p.events.append(("def", s, rhs))
            p.env[name] = ast.Name(id=s, ctx=ast.Load())

    def run(self, stmts, p=None):
        if p is None:
            p = Path()
            p.env = dict(self.genv)
        return self._run(list(stmts), p)

    def _run(self, stmts, p):
        while stmts:
            st = stmts.pop(0)
            if isinstance(st, ast.Pass):
                continue
            if isinstance(st, ast.Expr):
                if isinstance(st.value, ast.Constant):
                    continue
                v = _subst(p.env, st.value)
                if _is_pure(v):
                    continue
                p.events.append(("call", v))
                continue
            if isinstance(st, ast.AugAssign):
                load = copy.deepcopy(st.target)
                for n in ast.walk(load):
                    if hasattr(n, "ctx"):
                        n.ctx = ast.Load()
                st = ast.Assign(targets=[st.target], value=ast.BinOp(left=load, op=st.op, right=st.value))
            if isinstance(st, ast.Assign):
                if len(st.targets) != 1:
                    raise Broken("translator:" + self.where, "chained assignment: " + u(st))
                tgt = st.targets[0]
                rhs = _subst(p.env, st.value)
                if isinstance(tgt, ast.Name):
                    self.bind(p, tgt.id, rhs)
                elif isinstance(tgt, (ast.Tuple, ast.List)) and all(isinstance(e, ast.Name) for e in tgt.elts):
                    if isinstance(rhs, (ast.Tuple, ast.List)) and len(rhs.elts) == len(tgt.elts):
                        for e, r in zip(tgt.elts, rhs.elts):      # right-hand sides were substituted with the OLD env
                            self.bind(p, e.id, r)
                    else:
                        if _is_pure(rhs):
                            base = rhs
                        else:
                            s = self.fresh(rhs)
                            p.events.append(("def", s, rhs))
                            base = ast.Name(id=s, ctx=ast.Load())
                        for i, e in enumerate(tgt.elts):
                            p.env[e.id] = ast.Subscript(value=copy.deepcopy(base), slice=ast.Constant(value=i), ctx=ast.Load())
                elif isinstance(tgt, ast.Attribute):
                    p.events.append(("set", u(_subst(p.env, tgt)), rhs))
                elif isinstance(tgt, ast.Subscript):
                    p.events.append(("setitem", u(_subst(p.env, tgt.value)), _subst(p.env, tgt.slice), rhs))
                else:
                    raise Broken("translator:" + self.where, "assignment target not accepted: " + u(st))
                continue
            if isinstance(st, ast.If):
                test = _subst(p.env, st.test)
                if not _is_pure(test):
                    raise Broken("translator:" + self.where, "condition with a call: " + u(st.test))
                pt, pf = p.fork(), p.fork()
                pt.conds.append((test, True))
                pf.conds.append((test, False))
                return self._run(list(st.body) + list(stmts), pt) + self._run(list(st.orelse) + list(stmts), pf)
            if isinstance(st, ast.Return):
                p.result = ("return", None if st.value is None else _subst(p.env, st.value))
                return [p]
            if isinstance(st, ast.Raise):
                p.result = ("raise", st.exc)
                return [p]
            raise Broken("translator:" + self.where, "statement not accepted: " + type(st).__name__ + ": " + u(st)[:100])
        p.result = ("end", None)
        return [p]

    def resolve(self, node):
        """a symbol standing alone -> its definition"""
        while isinstance(node, ast.Name) and node.id in self.defs:
            node = self.defs[node.id]
        return node


def _module_env(tree, where):
    """module-level constant bindings  NAME = <pure expression over literals, np.pi and earlier such names>  (e.g.
    _TWO_PI = 2 * np.pi): resolved like local temporaries.  A name bound more than once at module level is refused."""
    env = {}
    seen = set()
    for n in tree.body:
        if isinstance(n, ast.Assign) and len(n.targets) == 1 and isinstance(n.targets[0], ast.Name):
            name = n.targets[0].id
            if name in seen:
                if name in env:
                    raise Broken("translator:" + where, "module constant bound twice: " + name)
                continue
            seen.add(name)
            v = _subst(env, n.value)
            ok = _is_pure(v) and all(not isinstance(x, ast.Call) for x in ast.walk(v)) and \
                all(u(x) in ("np", "numpy", "math") or isinstance(x.ctx, ast.Store) for x in ast.walk(v) if isinstance(x, ast.Name))
            if ok and isinstance(v, (ast.BinOp, ast.UnaryOp, ast.Constant, ast.Attribute)):
                env[name] = v
    return env


def _norm_literals(conds):
    """[(expr, polarity)] with `not x` unfolded into the polarity"""
    out = []
    for c, pol in conds:
        while isinstance(c, ast.UnaryOp) and isinstance(c.op, ast.Not):
            c, pol = c.operand, not pol
        out.append((c, pol))
    return out


# ================================================================== expressions
def _fold(n):
    """value of a variable-free numeric expression computed as Python computes it, else None"""
    if isinstance(n, ast.Constant) and isinstance(n.value, (int, float)) and not isinstance(n.value, bool):
        return n.value
    if isinstance(n, ast.UnaryOp) and isinstance(n.op, (ast.USub, ast.UAdd)):
        v = _fold(n.operand)
        return None if v is None else (-v if isinstance(n.op, ast.USub) else v)
    if isinstance(n, ast.BinOp) and isinstance(n.op, (ast.Add, ast.Sub, ast.Mult, ast.Div)):
        a, b = _fold(n.left), _fold(n.right)
        if a is None or b is None:
            return None
        try:
            return {ast.Add: lambda: a + b, ast.Sub: lambda: a - b, ast.Mult: lambda: a * b, ast.Div: lambda: a / b}[type(n.op)]()
        except ZeroDivisionError:
            return None
    return None


def real_ex(n, where, env):
    """env: source text -> Coq ex (e.g. 'gate.arg_value' -> '(Var 0)')"""
    t = u(n)
    if t in env:
        return env[t]
    if t in ("np.pi", "pi", "numpy.pi", "math.pi"):
        return "Pi"
    v = _fold(n)
    if v is not None:
        fr = Fraction(v)                  # exact value of the float Python computes
        return f"(Neg (Num {qlit(-fr)}))" if fr < 0 else f"(Num {qlit(fr)})"
    if isinstance(n, ast.UnaryOp) and isinstance(n.op, ast.USub):
        return f"(Neg {real_ex(n.operand, where, env)})"
    if isinstance(n, ast.UnaryOp) and isinstance(n.op, ast.UAdd):
        return real_ex(n.operand, where, env)
    if isinstance(n, ast.BinOp):
        op = {ast.Add: "Add", ast.Sub: "Sub", ast.Mult: "Mul", ast.Div: "Div"}.get(type(n.op))
        if op is None:
            raise Broken("translator:" + where, "operator not accepted in a real expression: " + t)
        return f"({op} {real_ex(n.left, where, env)} {real_ex(n.right, where, env)})"
    raise Broken("translator:" + where, "real expression not accepted: " + t)


# index expressions; after substitution everything is written over gate / self / the loop variable
INT_ATOMS = {"self.N": "IN", "self.num_qubits": "IN", "num_qubits": "IN",
             "min(gate.targets)": "IQ1", "max(gate.targets)": "IQ2", "gate.targets[0]": "IT0"}


def int_ex(n, where, env=None):
    t = u(n)
    if env and t in env:
        return env[t]
    if t in INT_ATOMS:
        return INT_ATOMS[t]
    if isinstance(n, ast.Constant) and isinstance(n.value, int) and not isinstance(n.value, bool):
        return f"(IConst ({n.value})%Z)"
    if isinstance(n, ast.BinOp):
        op = {ast.Add: "IAdd", ast.Sub: "ISub", ast.Mod: "IMod"}.get(type(n.op))
        if op is None:
            raise Broken("translator:" + where, "operator not accepted in an index expression: " + t)
        return f"({op} {int_ex(n.left, where, env)} {int_ex(n.right, where, env)})"
    raise Broken("translator:" + where, "index expression not accepted: " + t)


def bool_ex(n, where, env=None):
    if isinstance(n, ast.BoolOp):
        c = "BAnd" if isinstance(n.op, ast.And) else "BOr"
        out = bool_ex(n.values[0], where, env)
        for v in n.values[1:]:
            out = f"({c} {out} {bool_ex(v, where, env)})"
        return out
    if isinstance(n, ast.UnaryOp) and isinstance(n.op, ast.Not):
        return f"(BNot {bool_ex(n.operand, where, env)})"
    if isinstance(n, ast.Compare) and len(n.ops) == 1:
        lhs, rhs = n.left, n.comparators[0]
        for a, b in ((lhs, rhs), (rhs, lhs)):
            if u(a) == "self.setup" and isinstance(b, ast.Constant) and isinstance(b.value, str):
                if isinstance(n.ops[0], ast.Eq):
                    return f"(BSetup {cstr(b.value)})"
                if isinstance(n.ops[0], ast.NotEq):
                    return f"(BNot (BSetup {cstr(b.value)}))"
        c = {ast.Eq: "BEq", ast.NotEq: "BNe"}.get(type(n.ops[0]))
        if c is not None:
            return f"({c} {int_ex(lhs, where, env)} {int_ex(rhs, where, env)})"
    raise Broken("translator:" + where, "condition not accepted: " + u(n))


def literals_ex(conds, where, env=None):
    """conjunction of the literals of a path"""
    out = None
    for c, pol in _norm_literals(conds):
        b = bool_ex(c, where, env)
        if not pol:
            b = f"(BNot {b})"
        out = b if out is None else f"(BAnd {out} {b})"
    return out


def _label_expr(n, where, prefixes=None, env=None):
    """<prefix> + str(<index>)  or  f"<prefix>{<index>}"   ->  (prefix text, iex)"""
    prefixes = prefixes or {}
    if isinstance(n, ast.BinOp) and isinstance(n.op, ast.Add) and isinstance(n.right, ast.Call) \
            and u(n.right.func) == "str" and len(n.right.args) == 1:
        left = n.left
        if isinstance(left, ast.Constant) and isinstance(left.value, str):
            pre = cstr(left.value)
        elif u(left) in prefixes:
            pre = prefixes[u(left)]
        else:
            raise Broken("translator:" + where, "label prefix not accepted: " + u(left))
        return pre, int_ex(n.right.args[0], where, env)
    if isinstance(n, ast.JoinedStr) and len(n.values) == 2 and isinstance(n.values[0], ast.Constant) \
            and isinstance(n.values[1], ast.FormattedValue) and n.values[1].format_spec is None \
            and n.values[1].conversion in (-1, 115):
        return cstr(n.values[0].value), int_ex(n.values[1].value, where, env)
    raise Broken("translator:" + where, "label expression not accepted: " + u(n))


# ================================================================== compiler
def _pulse_call(ex, sym, where):
    """definition of the symbol: self.generate_pulse_shape(shape, num_samples, maximum, area) -> {maximum, area} asts"""
    call = ex.resolve(sym)
    if not (isinstance(call, ast.Call) and u(call.func) in ("self.generate_pulse_shape", "GateCompiler.generate_pulse_shape",
                                                           "type(self).generate_pulse_shape")):
        raise Broken("translator:" + where, "pulse is not produced by generate_pulse_shape: " + u(call)[:120])
    kw = {k.arg: k.value for k in call.keywords}
    for i, a in enumerate(call.args):
        kw[["shape", "num_samples", "maximum", "area"][i]] = a
    if set(kw) != {"shape", "num_samples", "maximum", "area"}:
        raise Broken("translator:" + where, "generate_pulse_shape arguments: " + u(call))
    if u(kw["shape"]) != 'args["shape"]' or u(kw["num_samples"]) != 'args["num_samples"]':
        raise Broken("translator:" + where, "shape / num_samples argument: " + u(call))
    return kw


def _instruction(ex, ret, where):
    """[Instruction(gate, S[1], [(LABEL, S[0])])]  ->  (symbol S, LABEL ast);  [Instruction(gate, T, [])] -> (None, T)"""
    ret = ex.resolve(ret)
    if not (isinstance(ret, ast.List) and len(ret.elts) == 1):
        raise Broken("translator:" + where, "does not return a one-element instruction list: " + u(ret)[:120])
    call = ex.resolve(ret.elts[0])
    if not (isinstance(call, ast.Call) and u(call.func) == "Instruction"):
        raise Broken("translator:" + where, "returned element is not an Instruction: " + u(call)[:120])
    kw = {k.arg: k.value for k in call.keywords}
    for i, a in enumerate(call.args):
        kw[["gate", "tlist", "pulse_info"][i]] = a
    if set(kw) != {"gate", "tlist", "pulse_info"} or u(kw["gate"]) != "gate":
        raise Broken("translator:" + where, "Instruction arguments: " + u(call))
    info = ex.resolve(kw["pulse_info"])
    if not isinstance(info, ast.List):
        raise Broken("translator:" + where, "pulse_info is not a list literal: " + u(info))
    if not info.elts:
        return None, kw["tlist"]
    if len(info.elts) != 1 or not (isinstance(info.elts[0], ast.Tuple) and len(info.elts[0].elts) == 2):
        raise Broken("translator:" + where, "pulse_info shape: " + u(info))
    label, coeff = info.elts[0].elts
    tl = kw["tlist"]

    def comp(e, i):
        return isinstance(e, ast.Subscript) and isinstance(e.value, ast.Name) and e.value.id in ex.defs \
            and isinstance(e.slice, ast.Constant) and e.slice.value == i
    if not (comp(coeff, 0) and comp(tl, 1) and coeff.value.id == tl.value.id):
        raise Broken("translator:" + where, "coefficient / duration are not the pair returned by one generate_pulse_shape call: "
                     + u(coeff) + " / " + u(tl))
    return coeff.value.id, label


def _no_effects(p, where, allowed_defs=True):
    for e in p.events:
        if e[0] == "def" and allowed_defs:
            continue
        raise Broken("translator:" + where, "unexpected side effect: " + e[0] + " " + (e[1] if isinstance(e[1], str) else u(e[1]))[:100])


def _tr_rotation(cls):
    where = F_SC + ":_rotation_compiler"
    fn = _fn(cls, F_SC, "_rotation_compiler")
    if [a.arg for a in fn.args.args] != ["self", "gate", "op_label", "param_label", "args"]:
        raise Broken("translator:" + where, "signature changed")
    ex = SymExec(where)
    paths = ex.run(_stmts(fn))
    if len(paths) != 1 or paths[0].result[0] != "return":
        raise Broken("translator:" + where, "expected one straight-line path ending in return")
    _no_effects(paths[0], where)
    sym, label = _instruction(ex, paths[0].result[1], where)
    if sym is None:
        raise Broken("translator:" + where, "no pulse")
    kw = _pulse_call(ex, ast.Name(id=sym, ctx=ast.Load()), where)
    mx = kw["maximum"]
    if not (isinstance(mx, ast.Subscript) and u(mx.value) == "self.params[param_label]"):
        raise Broken("translator:" + where, "maximum is not self.params[param_label][...]: " + u(mx))
    pre, idx = _label_expr(label, where, {"op_label": "OPLABEL"})
    if pre != "OPLABEL":
        raise Broken("translator:" + where, "label prefix is not op_label: " + u(label))
    return dict(rot_max_index=int_ex(mx.slice, where), rot_label_index=idx,
                rot_area=real_ex(kw["area"], where, {"gate.arg_value": "(Var 0)"}))


def _tr_swap(cls, stores_setup):
    where = F_SC + ":_swap_compiler"
    fn = _fn(cls, F_SC, "_swap_compiler")
    if [a.arg for a in fn.args.args] != ["self", "gate", "area", "args"]:
        raise Broken("translator:" + where, "signature changed")
    ex = SymExec(where)
    paths = ex.run(_stmts(fn))
    branches = []
    maxidx = None
    for p in paths:
        _no_effects(p, where)
        cond = literals_ex(p.conds, where)
        if cond is not None and "BSetup" in cond and not stores_setup:
            raise Broken("translator:" + where, "self.setup is read but never stored by __init__")
        if p.result[0] == "raise":
            res = "LRaise"
        elif p.result[0] == "return":
            sym, label = _instruction(ex, p.result[1], where)
            if sym is None:
                raise Broken("translator:" + where, "a path returns an instruction without pulse")
            kw = _pulse_call(ex, ast.Name(id=sym, ctx=ast.Load()), where)
            if u(kw["area"]) != "area":
                raise Broken("translator:" + where, "area argument is not the parameter `area`: " + u(kw["area"]))
            mx = kw["maximum"]
            if not (isinstance(mx, ast.Subscript) and u(mx.value) == 'self.params["sxsy"]'):
                raise Broken("translator:" + where, 'maximum is not self.params["sxsy"][...]: ' + u(mx))
            mi = int_ex(mx.slice, where)
            if maxidx not in (None, mi):
                raise Broken("translator:" + where, "the strength index differs between the branches")
            maxidx = mi
            pre, idx = _label_expr(label, where)
            res = f"(LLabel {pre} {idx})"
        else:
            raise Broken("translator:" + where, "a path ends without return")
        branches.append((cond, res))
    if maxidx is None:
        raise Broken("translator:" + where, "no path produces a pulse")
    if len(branches) == 1:
        return dict(swap_max_index=maxidx, swap_branches="[]", swap_else=branches[0][1])
    # the paths partition the inputs; as an ordered decision list only the literals that are not implied by the failure
    # of the earlier branches are needed, but keeping all of them is equivalent
    return dict(swap_max_index=maxidx,
                swap_branches="[" + "; ".join(f"({c}, {r})" for c, r in branches[:-1]) + "]",
                swap_else=branches[-1][1])


def _method_body(fn, where):
    """classify one gate-compiler method"""
    ex = SymExec(where)
    paths = ex.run(_stmts(fn))
    if len(paths) != 1:
        raise Broken("translator:" + where, "gate compiler with branches is not accepted")
    p = paths[0]
    sets = [e for e in p.events if e[0] != "def"]
    ret = None if p.result[0] == "end" or p.result[1] is None else ex.resolve(p.result[1])
    if p.result[0] == "raise":
        raise Broken("translator:" + where, "gate compiler raises")
    if ret is None or (isinstance(ret, ast.Constant) and ret.value is None):
        if not sets:
            return "MNothing"
        if len(sets) == 1 and sets[0][0] == "set" and sets[0][1] == "self.global_phase" \
                and u(sets[0][2]) in ("self.global_phase+gate.arg_value", "gate.arg_value+self.global_phase"):
            return "MPhase"
        raise Broken("translator:" + where, "effects not accepted: " + "; ".join(e[0] + ":" + str(e[1])[:40] for e in sets))
    if sets:
        raise Broken("translator:" + where, "gate compiler with a result and side effects")
    if isinstance(ret, ast.Call):
        f = u(ret.func)
        if f == "self._rotation_compiler":
            kw = {k.arg: k.value for k in ret.keywords}
            for i, a in enumerate(ret.args):
                kw[["gate", "op_label", "param_label", "args"][i]] = a
            if set(kw) == {"gate", "op_label", "param_label", "args"} and u(kw["gate"]) == "gate" and u(kw["args"]) == "args" \
                    and all(isinstance(kw[x], ast.Constant) and isinstance(kw[x].value, str) for x in ("op_label", "param_label")):
                return f"(MRot {cstr(kw['op_label'].value)} {cstr(kw['param_label'].value)})"
        if f == "self._swap_compiler":
            kw = {k.arg: k.value for k in ret.keywords}
            for i, a in enumerate(ret.args):
                kw[["gate", "area", "args"][i]] = a
            if set(kw) == {"gate", "area", "args"} and u(kw["gate"]) == "gate" and u(kw["args"]) == "args":
                return f"(MSwap {real_ex(kw['area'], where, {})})"
        raise Broken("translator:" + where, "gate compiler call not accepted: " + u(ret)[:120])
    sym, tl = _instruction(ex, ret, where)
    if sym is None and u(tl) == "gate.arg_value":
        return "MIdle"
    raise Broken("translator:" + where, "gate compiler body not accepted: " + u(ret)[:120])


def _as_dict(node, where):
    """dict literal, or dict(K=v, ...) / dict({...}, K=v)"""
    if isinstance(node, ast.Call) and u(node.func) == "dict" and len(node.args) <= 1 and all(k.arg for k in node.keywords):
        base = _as_dict(node.args[0], where) if node.args else ast.Dict(keys=[], values=[])
        return ast.Dict(keys=list(base.keys) + [ast.Constant(value=k.arg) for k in node.keywords],
                        values=list(base.values) + [k.value for k in node.keywords])
    return node


def _methods_of_dict(node, where):
    node = _as_dict(node, where)
    if not isinstance(node, ast.Dict):
        raise Broken("translator:" + where, "gate_compiler table is not a dict literal: " + u(node)[:80])
    out = []
    for k, v in zip(node.keys, node.values):
        if not (isinstance(k, ast.Constant) and isinstance(k.value, str) and isinstance(v, ast.Attribute)
                and u(v.value) == "self"):
            raise Broken("translator:" + where, "gate_compiler entry not accepted: " + u(k) + ":" + u(v))
        out.append((k.value, v.attr))
    return out


def _table_events(ex, p, where):
    """gate_compiler entries written by one constructor path, in order"""
    out = []
    for e in p.events:
        if e[0] == "set" and e[1] == "self.gate_compiler":
            out = _methods_of_dict(_as_dict(ex.resolve(e[2]), where), where)            # a fresh table
        elif e[0] == "call" and isinstance(e[1], ast.Call) and u(e[1].func) == "self.gate_compiler.update":
            call = e[1]
            if len(call.args) > 1 or any(k.arg is None for k in call.keywords):
                raise Broken("translator:" + where, "gate_compiler.update arguments: " + u(call)[:100])
            if call.args:                                  # update({...}) / update(dict(...)): entries first
                out += _methods_of_dict(_as_dict(ex.resolve(call.args[0]), where), where)
            if call.keywords:                              # update(ISWAP=self.iswap_compiler, ...)
                out += _methods_of_dict(ast.Dict(keys=[ast.Constant(value=k.arg) for k in call.keywords],
                                                 values=[k.value for k in call.keywords]), where)
        elif e[0] == "setitem" and e[1] == "self.gate_compiler":
            out += _methods_of_dict(ast.Dict(keys=[e[2]], values=[e[3]]), where)
    return out


def _tr_compiler():
    sc_tree = _parse(F_SC)
    sc = _cls(sc_tree, F_SC, "SpinChainCompiler")
    gc_tree = _parse(F_GC)
    gc = _cls(gc_tree, F_GC, "GateCompiler")
    GENV[F_SC] = _module_env(sc_tree, F_SC)
    GENV[F_GC] = _module_env(gc_tree, F_GC)
    if [u(b) for b in sc.bases] != ["GateCompiler"]:
        raise Broken("translator:" + F_SC, "SpinChainCompiler base classes changed")
    # base table: GateCompiler.__init__ is only searched for writes to self.gate_compiler (its other statements are
    # not about this property); the warning branch on pulse_dict does not touch the table
    where = F_GC + ":GateCompiler.__init__"
    base = None
    for st in ast.walk(_fn(gc, F_GC, "__init__")):
        if isinstance(st, ast.Assign) and len(st.targets) == 1 and u(st.targets[0]) == "self.gate_compiler":
            if isinstance(st.value, ast.Dict):
                base = _methods_of_dict(st.value, where)
            else:
                raise Broken("translator:" + where, "gate_compiler is not a dict literal")
        elif isinstance(st, (ast.Assign, ast.AugAssign)) and "self.gate_compiler" in u(st.targets[0] if isinstance(st, ast.Assign) else st.target):
            raise Broken("translator:" + where, "unrecognised write to gate_compiler: " + u(st)[:100])
    if not base:
        raise Broken("translator:" + where, "default gate_compiler table not found")
    # SpinChainCompiler.__init__
    where = F_SC + ":SpinChainCompiler.__init__"
    ex = SymExec(where)
    paths = ex.run(_stmts(_fn(sc, F_SC, "__init__")))
    if len(paths) != 1:
        raise Broken("translator:" + where, "constructor with branches is not accepted")
    p = paths[0]
    stores_setup = False
    sup = False
    for e in p.events:
        if e[0] == "set" and e[1] == "self.setup":
            if u(e[2]) != "setup":
                raise Broken("translator:" + where, "self.setup is not the constructor argument")
            stores_setup = True
        elif e[0] == "set" and e[1] == "self.global_phase":
            if u(e[2]) != "global_phase":
                raise Broken("translator:" + where, "self.global_phase is not the constructor argument")
        elif e[0] in ("call", "def") and isinstance(ex.resolve(e[-1]), ast.Call) and u(ex.resolve(e[-1]).func).startswith("super("):
            c = ex.resolve(e[-1])
            if u(c.func) not in ("super(SpinChainCompiler,self).__init__", "super().__init__") or \
                    sorted(u(a) for a in c.args) + sorted(u(k) for k in c.keywords) != ["num_qubits", "N=N", "params=params", "pulse_dict=pulse_dict"]:
                raise Broken("translator:" + where, "super().__init__ call: " + u(c))
            sup = True
        elif (e[0] == "call" and u(e[1].func) == "self.gate_compiler.update") or (e[0] == "setitem" and e[1] == "self.gate_compiler"):
            if not sup:
                raise Broken("translator:" + where, "gate_compiler written before super().__init__ (would be overwritten)")
        else:
            raise Broken("translator:" + where, "statement not accepted: " + e[0] + " " + str(e[1])[:60])
    upd = _table_events(ex, p, where)
    if not upd or not sup:
        raise Broken("translator:" + where, "gate_compiler entries / super().__init__ not found")
    table = dict(base)
    table.update(dict(upd))
    methods = []
    for gname in sorted(table):
        meth = table[gname]
        fn = _fn(sc, F_SC, meth, required=False)
        rel = F_SC
        if fn is None:
            fn = _fn(gc, F_GC, meth)
            rel = F_GC
        methods.append((gname, _method_body(fn, f"{rel}:{meth}")))
    out = {"methods": methods, "stores_setup": stores_setup}
    out.update(_tr_rotation(sc))
    out.update(_tr_swap(sc, stores_setup))
    return out


# ================================================================== device model
def _ham(n, where, env):
    """2 * np.pi * sigmax()  /  sigmax() * 2 * np.pi   ->  (scale ex, operator text); the operator is the only call"""
    n = _subst(env, n)
    factors = []

    def flat(x):
        if isinstance(x, ast.BinOp) and isinstance(x.op, ast.Mult):
            flat(x.left)
            flat(x.right)
        else:
            factors.append(x)
    flat(n)
    ops = [f for f in factors if not _is_pure(f)]
    nums = [f for f in factors if _is_pure(f)]
    if len(ops) != 1 or not nums:
        raise Broken("translator:" + where, "control Hamiltonian not accepted: " + u(n))
    scale = nums[0]
    for f in nums[1:]:
        scale = ast.BinOp(left=scale, op=ast.Mult(), right=f)
    return real_ex(scale, where, {}), u(ops[0])


XXYY = ("tensor([sigmax(),sigmax()])+tensor([sigmay(),sigmay()])", "tensor(sigmax(),sigmax())+tensor(sigmay(),sigmay())",
        "tensor([sigmay(),sigmay()])+tensor([sigmax(),sigmax()])", "tensor(sigmay(),sigmay())+tensor(sigmax(),sigmax())")


def _tr_model():
    tree = _parse(F_DEV)
    m = _cls(tree, F_DEV, "SpinChainModel")
    GENV[F_DEV] = _module_env(tree, F_DEV)
    where = F_DEV + ":SpinChainModel._set_up_controls"
    fn = _fn(m, F_DEV, "_set_up_controls")
    fams = []
    env = dict(GENV[F_DEV])   # module constants + temporaries (operator = ..., num_coupling = self._get_num_coupling())
    for st in _stmts(fn):
        t = u(st)
        if t in ("controls={}", "controls=dict()", "returncontrols"):
            continue
        if isinstance(st, ast.Assign) and len(st.targets) == 1 and isinstance(st.targets[0], ast.Name) \
                and st.targets[0].id != "controls":
            env[st.targets[0].id] = _subst(env, st.value)
            continue
        if isinstance(st, ast.If) and not st.orelse and [u(b) for b in st.body] == ["returncontrols"] \
                and u(_subst(env, st.test)) in ("self._get_num_coupling()==0", "notself._get_num_coupling()",
                                                "self._get_num_coupling()<=0", "self._get_num_coupling()<1"):
            continue                      # no coupling: the loop below would not run anyway
        if isinstance(st, ast.For) and isinstance(st.iter, ast.Call) and u(st.iter.func) == "range" \
                and len(st.iter.args) == 1 and len(st.body) == 1 and isinstance(st.body[0], ast.Assign) and not st.orelse \
                and isinstance(st.target, ast.Name):
            var = st.target.id
            cnt = u(_subst(env, st.iter.args[0]))
            if cnt in ("num_qubits", "self.num_qubits"):
                count = "IN"
            elif cnt == "self._get_num_coupling()":
                count = "INumCoupling"
            else:
                raise Broken("translator:" + where, "loop bound not accepted: " + cnt)
            a = st.body[0]
            tgt = a.targets[0]
            if not (isinstance(tgt, ast.Subscript) and u(tgt.value) == "controls"):
                raise Broken("translator:" + where, "loop body not accepted: " + u(a))
            ienv = {var: "ILoop"}
            pre, idx = _label_expr(_subst(env, tgt.slice), where, None, ienv)
            if idx != "ILoop":
                raise Broken("translator:" + where, "label index is not the loop variable: " + u(a))
            val = _subst(env, a.value)
            if not (isinstance(val, ast.Tuple) and len(val.elts) == 2):
                raise Broken("translator:" + where, "control entry not a pair: " + u(a))
            scale, op = _ham(val.elts[0], where, env)
            if op == "sigmax()":
                kind = "HX"
            elif op == "sigmaz()":
                kind = "HZ"
            elif op in XXYY or op.strip("()") in XXYY or op in tuple("(" + x + ")" for x in XXYY):
                kind = "HXY"
            else:
                raise Broken("translator:" + where, "operator not accepted: " + op)
            te = val.elts[1]
            tgts = [int_ex(e, where, ienv) for e in te.elts] if isinstance(te, (ast.List, ast.Tuple)) else [int_ex(te, where, ienv)]
            fams.append(f"mkCF {pre} {kind} {scale} {count} [" + "; ".join(tgts) + "]")
            continue
        raise Broken("translator:" + where, "statement not accepted: " + t[:120])
    if len(fams) != 3:
        raise Broken("translator:" + where, "expected three control families, found %d" % len(fams))
    # _get_num_coupling: flattened into paths; every path but the last tests self.setup == <const> and returns a count
    where = F_DEV + ":SpinChainModel._get_num_coupling"
    ex = SymExec(where)
    paths = ex.run(_stmts(_fn(m, F_DEV, "_get_num_coupling")))
    nc = []
    for i, p in enumerate(paths):
        _no_effects(p, where)
        lits = _norm_literals(p.conds)
        pos = [c for c, pol in lits if pol]
        if i < len(paths) - 1:
            if not (len(pos) == 1 and [pol for _, pol in lits] == [False] * (len(lits) - 1) + [True] and p.result[0] == "return"):
                raise Broken("translator:" + where, "branch shape not accepted")
            c = pos[0]
            if not (isinstance(c, ast.Compare) and len(c.ops) == 1 and isinstance(c.ops[0], ast.Eq) and u(c.left) == "self.setup"
                    and isinstance(c.comparators[0], ast.Constant) and isinstance(c.comparators[0].value, str)):
                raise Broken("translator:" + where, "condition not accepted: " + u(c))
            nc.append(f"({cstr(c.comparators[0].value)}, {int_ex(ex.resolve(p.result[1]), where)})")
        else:
            if pos or p.result[0] != "raise":
                raise Broken("translator:" + where, "the remaining case does not raise")
    if not nc:
        raise Broken("translator:" + where, "no setup recognised")
    # default parameters
    where = F_DEV + ":SpinChainModel.__init__"
    defaults = None
    for n in ast.walk(_fn(m, F_DEV, "__init__")):
        if isinstance(n, ast.Assign) and u(n.targets[0]) == "self.params" and isinstance(n.value, ast.Dict):
            defaults = [(k.value, real_ex(v, where, {})) for k, v in zip(n.value.keys, n.value.values)]
    if defaults is None:
        raise Broken("translator:" + where, "default parameters not found")
    # SpinChain
    sc = _cls(tree, F_DEV, "SpinChain")
    native = None
    for n in ast.walk(_fn(sc, F_DEV, "__init__")):
        if isinstance(n, ast.Assign) and u(n.targets[0]) == "self.native_gates" and isinstance(n.value, (ast.List, ast.Tuple)):
            native = [e.value for e in n.value.elts]
    if native is None:
        raise Broken("translator:" + F_DEV + ":SpinChain.__init__", "native_gates not found")
    where = F_DEV + ":SpinChain.load_circuit"
    ex = SymExec(where)
    paths = ex.run(_stmts(_fn(sc, F_DEV, "load_circuit")))
    fresh = False
    for p in paths:
        lits = _norm_literals(p.conds)
        if [u(c) for c, _ in lits] != ["compilerisNone"]:
            raise Broken("translator:" + where, "branching other than on `compiler is None`: " + ", ".join(u(c) for c, _ in lits))
        none = lits[0][1]
        loaded = None
        reported = False
        for e in p.events:
            val = ex.resolve(e[-1]) if e[0] in ("def", "call") else None
            if val is not None and isinstance(val, ast.Call) and u(val.func) in ("super().load_circuit", "super(SpinChain,self).load_circuit"):
                kw = {k.arg: k.value for k in val.keywords}
                for i, a in enumerate(val.args):
                    kw[["qc", "schedule_mode", "compiler"][i]] = a
                if set(kw) != {"qc", "schedule_mode", "compiler"} or u(kw["qc"]) != "qc" or u(kw["schedule_mode"]) != "schedule_mode":
                    raise Broken("translator:" + where, "super().load_circuit arguments: " + u(val))
                loaded = kw["compiler"]
            elif e[0] == "def" and isinstance(val, ast.Call) and u(val.func) == "SpinChainCompiler":
                if not none or u(val) != "SpinChainCompiler(self.num_qubits,self.params,setup=setup)":
                    raise Broken("translator:" + where, "compiler construction: " + u(val))
            elif e[0] == "set" and e[1] == "self.global_phase":
                if loaded is None or u(e[2]) != u(loaded) + ".global_phase":
                    raise Broken("translator:" + where, "global_phase is not read from the compiler used, after compiling")
                reported = True
            else:
                raise Broken("translator:" + where, "statement not accepted: " + e[0] + " " + str(e[1])[:60])
        if loaded is None or not reported or p.result[0] != "return":
            raise Broken("translator:" + where, "a path does not compile and report the phase")
        if none:
            c = ex.resolve(loaded)
            fresh = isinstance(c, ast.Call) and u(c.func) == "SpinChainCompiler"
            if not fresh:
                raise Broken("translator:" + where, "no compiler is constructed when none is given")
        elif u(loaded) != "compiler":
            raise Broken("translator:" + where, "the given compiler is not the one used")
    if len(paths) != 2:
        raise Broken("translator:" + where, "expected the two cases compiler given / not given")
    setups = []
    for cname in ("LinearSpinChain", "CircularSpinChain"):
        c = _cls(tree, F_DEV, cname)
        w2 = f"{F_DEV}:{cname}.load_circuit"
        ex = SymExec(w2)
        paths = ex.run(_stmts(_fn(c, F_DEV, "load_circuit")))
        if len(paths) != 1 or paths[0].result[0] != "return" or [e for e in paths[0].events if e[0] != "def"]:
            raise Broken("translator:" + w2, "shape changed")
        call = ex.resolve(paths[0].result[1])
        ok = isinstance(call, ast.Call) and u(call.func) in (f"super({cname},self).load_circuit", "super().load_circuit")
        if ok:
            kw = {k.arg: k.value for k in call.keywords}
            for i, a in enumerate(call.args):
                kw[["qc", "setup", "schedule_mode", "compiler"][i]] = a
            ok = set(kw) == {"qc", "setup", "schedule_mode", "compiler"} and u(kw["qc"]) == "qc" \
                and u(kw["schedule_mode"]) == "schedule_mode" and u(kw["compiler"]) == "compiler" \
                and isinstance(kw["setup"], ast.Constant) and isinstance(kw["setup"].value, str)
        if not ok:
            raise Broken("translator:" + w2, "shape changed")
        setup = kw["setup"].value
        found = False
        for n in ast.walk(_fn(c, F_DEV, "__init__")):
            if isinstance(n, ast.Call) and u(n.func) == "SpinChainModel":
                k2 = {k.arg: u(k.value) for k in n.keywords}
                found = k2.get("setup") == '"%s"' % setup
        if not found:
            raise Broken(f"translator:{F_DEV}:{cname}.__init__", "model setup differs from the compiler setup")
        setups.append((cname, setup))
    return dict(families=fams, num_coupling=nc, defaults=defaults, native=native, fresh=fresh, reports=True, setups=setups)


def _tr_processor():
    where = F_PROC + ":Processor.run_analytically"
    fn = _fn(_cls(_parse(F_PROC), F_PROC, "Processor"), F_PROC, "run_analytically")
    appended = False
    for n in ast.walk(fn):
        if isinstance(n, ast.If) and u(n.test) in ("self.correct_global_phaseandself.global_phase!=0",
                                                   "self.global_phase!=0andself.correct_global_phase") \
                and len(n.body) == 1 and u(n.body[0]) in ("U_list.append(globalphase(self.global_phase,N=self.num_qubits))",
                                                          "U_list+=[globalphase(self.global_phase,N=self.num_qubits)]"):
            appended = True
    slice_ok = False
    for n in ast.walk(fn):
        if isinstance(n, ast.Assign) and u(n) in ("U=(-1j*H*dt).expm()", "U=(-1j*dt*H).expm()", "U=(-1j*(H*dt)).expm()"):
            slice_ok = True
    if not slice_ok:
        raise Broken("translator:" + where, "slice propagator is not (-1j*H*dt).expm()")
    return dict(appends_phase=appended)


EMPTY_TABLES = ("tlist,coeffs=({},{})", "(tlist,coeffs)=({},{})", "tlist,coeffs={},{}", "coeffs,tlist=({},{})",
                "coeffs,tlist={},{}", "tlist,coeffs=(dict(),dict())", "tlist=coeffs={}")


def _tr_modelprocessor():
    """ModelProcessor.load_circuit: is the no-instruction result (None, None) of compile turned into empty tables
    before set_coeffs?  Only this statement is classified here (the rest of the function belongs to C13's translator);
    any OTHER test of tlist/coeffs against None is refused."""
    where = F_MP + ":ModelProcessor.load_circuit"
    fn = _fn(_cls(_parse(F_MP), F_MP, "ModelProcessor"), F_MP, "load_circuit")
    st = _stmts(fn)
    texts = [u(x) for x in st]
    if "self.set_coeffs(coeffs)" not in texts or "self.set_tlist(tlist)" not in texts:
        raise Broken("translator:" + where, "set_coeffs / set_tlist statements not found")
    k = texts.index("self.set_coeffs(coeffs)")
    accepts = False
    for i, x in enumerate(st):
        if isinstance(x, ast.If) and ("coeffsisNone" in u(x.test) or "tlistisNone" in u(x.test)):
            body = [u(b) for b in x.body]
            ok = (u(x.test) in ("tlistisNoneandcoeffsisNone", "coeffsisNoneandtlistisNone", "coeffsisNone")
                  and not x.orelse
                  and (len(body) == 1 and body[0] in EMPTY_TABLES
                       or sorted(body) in (["coeffs={}", "tlist={}"], ["coeffs=dict()", "tlist=dict()"])))
            if not ok or i > k:
                raise Broken("translator:" + where, "unrecognised handling of an empty compilation result: " + u(x)[:120])
            accepts = True
    # run_analytically must then cope with a processor without pulses
    fn = _fn(_cls(_parse(F_PROC), F_PROC, "Processor"), F_PROC, "run_analytically")
    runs_empty = False
    body = _stmts(fn)
    for i, x in enumerate(body):
        if isinstance(x, ast.If) and u(x.test) == "tlistisNone" and len(x.body) == 1 and u(x.body[0]) == "tlist=[]" \
                and not x.orelse and i > 0 and u(body[i - 1]) == "tlist=self.get_full_tlist()":
            runs_empty = True
        if isinstance(x, ast.Assign) and u(x) in ("tlist=self.get_full_tlist()or[]",):
            runs_empty = True
        if isinstance(x, ast.Assign) and u(x) in ("tlist=[]iftlistisNoneelsetlist", "tlist=tlistiftlistisnotNoneelse[]") \
                and i > 0 and u(body[i - 1]) == "tlist=self.get_full_tlist()":
            runs_empty = True
    return dict(accepts_empty=accepts, runs_empty=runs_empty)


def _tr_concat_gap():
    """GateCompiler._concatenate_pulses: which threshold the idle-gap test `abs(start_time - last_pulse_time) > T` uses
    (parameter gx of Model/Concat.v, property C12): step_size * 1.0e-6 of the instruction being placed (False) or a
    global time resolution (True).  Only the thresholds are classified here; C12 owns the function."""
    where = F_GC + ":GateCompiler._concatenate_pulses"
    fn = _fn(_cls(_parse(F_GC), F_GC, "GateCompiler"), F_GC, "_concatenate_pulses")
    kinds = set()
    for n in ast.walk(fn):
        if isinstance(n, ast.If) and isinstance(n.test, ast.Compare) and len(n.test.ops) == 1 \
                and isinstance(n.test.ops[0], ast.Gt) and "start_time-last_pulse_time" in u(n.test.left):
            t = u(n.test.comparators[0])
            if t in ("step_size*1e-06", "1e-06*step_size"):
                kinds.add(False)
            elif "resolution" in t and "step_size" not in t:
                kinds.add(True)
            else:
                raise Broken("translator:" + where, "idle-gap threshold not recognised: " + t)
    if len(kinds) != 1:
        raise Broken("translator:" + where, "idle-gap test not found or inconsistent")
    return kinds.pop()


def generate():
    gapres = _tr_concat_gap()
    mp = _tr_modelprocessor()
    comp = _tr_compiler()
    dev = _tr_model()
    proc = _tr_processor()
    b = lambda x: "true" if x else "false"  # noqa: E731
    lines = [
        "(* GENERATED by tools/translate/spinchain_tr.py from compiler/spinchaincompiler.py, compiler/gatecompiler.py,",
        "   device/spinchain.py, device/modelprocessor.py, device/processor.py -- do not edit *)",
        "From Coq Require Import ZArith QArith String List.",
        "From QV Require Import Found.Sym Model.SpinChainTypes.",
        "Import ListNotations.",
        "Open Scope string_scope.",
        "",
        "(* gate name -> compiling method (GateCompiler defaults overridden by SpinChainCompiler.__init__) *)",
        "Definition gate_methods : list (string * method) := [" + "; ".join(f"({cstr(g)}, {m})" for g, m in comp["methods"]) + "].",
        "(* _rotation_compiler: area as a function of Var 0 = gate.arg_value; index of the strength; index in the label *)",
        f"Definition rot_area : ex := {comp['rot_area']}.",
        f"Definition rot_max_index : iex := {comp['rot_max_index']}.",
        f"Definition rot_label_index : iex := {comp['rot_label_index']}.",
        "(* _swap_compiler: strength index and the label choice (ordered decision list over the execution paths) *)",
        f"Definition swap_max_index : iex := {comp['swap_max_index']}.",
        f"Definition swap_branches : list (bex * lres) := {comp['swap_branches']}.",
        f"Definition swap_else : lres := {comp['swap_else']}.",
        f"Definition compiler_stores_setup : bool := {b(comp['stores_setup'])}.",
        "(* SpinChainModel._set_up_controls / _get_num_coupling / default strengths *)",
        "Definition ctrl_families : list ctrl_family := [" + "; ".join(dev["families"]) + "].",
        "Definition num_coupling_tab : list (string * iex) := [" + "; ".join(dev["num_coupling"]) + "].",
        "Definition default_params : list (string * ex) := [" + "; ".join(f"({cstr(k)}, {v})" for k, v in dev["defaults"]) + "].",
        "Definition native_gates : list string := [" + "; ".join(cstr(g) for g in dev["native"]) + "].",
        "Definition processor_setups : list (string * string) := [" + "; ".join(f"({cstr(a)}, {cstr(s)})" for a, s in dev["setups"]) + "].",
        "(* SpinChain.load_circuit builds a fresh compiler when none is given and copies its global_phase afterwards;",
        "   Processor.run_analytically appends globalphase(self.global_phase) *)",
        f"Definition load_fresh_compiler : bool := {b(dev['fresh'])}.",
        f"Definition load_reports_phase : bool := {b(dev['reports'])}.",
        f"Definition run_appends_phase : bool := {b(proc['appends_phase'])}.",
        "(* ModelProcessor.load_circuit turns the no-instruction result (None, None) of compile into empty tables;",
        "   Processor.run_analytically accepts a processor without pulses *)",
        f"Definition load_accepts_empty : bool := {b(mp['accepts_empty'])}.",
        f"Definition run_accepts_no_pulse : bool := {b(mp['runs_empty'])}.",
        "(* GateCompiler._concatenate_pulses compares idle gaps with a global time resolution (gx of Model/Concat.v) *)",
        f"Definition concat_gap_resolution : bool := {b(gapres)}.",
        "",
    ]
    text = "\n".join(lines)
    write_if_changed(os.path.join(COQ, "Gen", "SpinChain.v"), text)
    return dict(comp=comp, dev=dev, proc=proc, mp=mp, text=text)


if __name__ == "__main__":
    print(generate()["text"])
