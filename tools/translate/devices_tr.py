"""C13 translator (fail-closed): device tables and the shape of ModelProcessor.transpile  ->  coq/Gen/Devices.v.

Read with `ast` only, nothing is evaluated:
  * per processor class (LinearSpinChain, CircularSpinChain, SCQubits, DispersiveCavityQED): the list literal assigned to
    `self.native_gates` in the nearest `__init__` of its base-class chain, and what the nearest `topology_map` does
    (`raise NotImplementedError` / `return to_chain_structure(qc[, "linear"|"circular"])`, default of `setup` from chain.py;
    optionally preceded by `if qc.N < self.num_qubits: return to_chain_structure(qc, ..)` = the rule for a narrower circuit, and
    by guard loops `for g in qc.gates: if g.name == ".." and abs(g.targets[0] - g.targets[1]) != 1: raise ValueError` = gates
    refused unless on neighbours);
  * `ModelProcessor.transpile`: the order of its statements (width test `if qc.N > self.num_qubits: raise ValueError`,
    multi-qubit pre-decomposition, topology map, resolve_gates);
  * `ModelProcessor._decompose_multi_qubit_gates` (when transpile calls it): the qubit-count threshold of its test and that
    it decomposes with `resolve_gates(basis=self.native_gates)`.
Anything of another shape is refused (Broken("translator:devices:<where>")).
"""
import ast
import os
import sys

sys.path.insert(0, os.path.dirname(os.path.dirname(os.path.abspath(__file__))))
from common import Broken, COQ, PKG, write_if_changed, cstr  # noqa: E402

CLASSES = [("LinearSpinChain", "spinchain.py"), ("CircularSpinChain", "spinchain.py"),
           ("SCQubits", "circuitqed.py"), ("DispersiveCavityQED", "cavityqed.py")]
FILES = ["modelprocessor.py", "spinchain.py", "circuitqed.py", "cavityqed.py"]


class Refuse(Exception):
    pass


def _strip_doc(body):
    if body and isinstance(body[0], ast.Expr) and isinstance(getattr(body[0], "value", None), ast.Constant) \
            and isinstance(body[0].value.value, str):
        return body[1:]
    return body


def _is_self_attr(n, attr):
    return isinstance(n, ast.Attribute) and isinstance(n.value, ast.Name) and n.value.id == "self" and n.attr == attr


def _native_is_not_none(test):
    return (isinstance(test, ast.Compare) and _is_self_attr(test.left, "native_gates") and len(test.ops) == 1
            and isinstance(test.ops[0], ast.IsNot) and isinstance(test.comparators[0], ast.Constant)
            and test.comparators[0].value is None)


def _classes():
    out = {}
    for f in FILES:
        path = os.path.join(PKG, "device", f)
        try:
            tree = ast.parse(open(path).read())
        except (OSError, SyntaxError) as e:
            raise Refuse(f"{f}: {e}")
        for n in tree.body:
            if isinstance(n, ast.ClassDef):
                bases = [b.id for b in n.bases if isinstance(b, ast.Name)]
                out[n.name] = (n, bases, f)
    return out


def _chain(classes, name):
    ch = []
    while name in classes:
        node, bases, _ = classes[name]
        ch.append(node)
        if len(bases) != 1:
            raise Refuse(f"class {name}: {len(bases)} bases")
        name = bases[0]
    return ch


def _method(cls, name):
    ms = [n for n in cls.body if isinstance(n, ast.FunctionDef) and n.name == name]
    if len(ms) > 1:
        raise Refuse(f"{cls.name}.{name} defined twice")
    return ms[0] if ms else None


def _native_of(chain):
    for cls in chain:
        init = _method(cls, "__init__")
        if init is None:
            continue
        hits = []
        for n in ast.walk(init):
            targets = n.targets if isinstance(n, ast.Assign) else ([n.target] if isinstance(n, (ast.AugAssign, ast.AnnAssign)) else [])
            if any(_is_self_attr(t, "native_gates") for t in targets):
                hits.append(n)
        if not hits:
            continue
        if len(hits) != 1 or not isinstance(hits[0], ast.Assign) or hits[0] not in init.body:
            raise Refuse(f"{cls.name}.__init__: native_gates is not assigned exactly once at top level")
        v = hits[0].value
        if isinstance(v, ast.Constant) and v.value is None:
            return None
        if isinstance(v, ast.List) and all(isinstance(e, ast.Constant) and isinstance(e.value, str) for e in v.elts):
            return [e.value for e in v.elts]
        raise Refuse(f"{cls.name}.__init__: native_gates is not a list literal of strings")
    raise Refuse("no assignment to native_gates in the class chain")


def _chain_default():
    path = os.path.join(PKG, "transpiler", "chain.py")
    tree = ast.parse(open(path).read())
    fs = [n for n in tree.body if isinstance(n, ast.FunctionDef) and n.name == "to_chain_structure"]
    if len(fs) != 1:
        raise Refuse("chain.py: to_chain_structure not found")
    a = fs[0].args
    names = [x.arg for x in a.args]
    if names != ["qc", "setup"] or len(a.defaults) != 1 or a.vararg or a.kwarg or a.kwonlyargs:
        raise Refuse("chain.py: signature of to_chain_structure")
    d = a.defaults[0]
    if not (isinstance(d, ast.Constant) and d.value in ("linear", "circular")):
        raise Refuse("chain.py: default of setup")
    return d.value


def _topo_name(where, setup):
    if setup == "linear":
        return "TopoLinear"
    if setup == "circular":
        return "TopoCircular"
    raise Refuse(f"{where}: setup {setup!r}")


def _setup_expr(where, e, env):
    """value of a `setup` argument: a string constant, a local bound to one, or the conditional expression
    `A if qc.N < self.num_qubits else B` (any equivalent comparison)  ->  (topology for a full-width circuit, for a narrower one or None)"""
    if isinstance(e, ast.Name) and e.id in env:
        return env[e.id]
    if isinstance(e, ast.Constant) and isinstance(e.value, str):
        return (_topo_name(where, e.value), None)
    if isinstance(e, ast.IfExp):
        kind = _width_cmp(e.test)
        yes, no = _setup_expr(where, e.body, env), _setup_expr(where, e.orelse, env)
        if yes[1] is not None or no[1] is not None:
            raise Refuse(f"{where}: nested width tests")
        if kind == "narrow":
            return (no[0], yes[0])
        if kind == "notnarrow":
            return (yes[0], no[0])
        raise Refuse(f"{where}: conditional setup does not test qc.N against self.num_qubits")
    raise Refuse(f"{where}: setup is not a constant, a local holding one, or a width-conditional")


def _setup_of(where, c, default_setup, env=None):
    """to_chain_structure(qc[, setup]) -> (topology for a full-width circuit, topology for a narrower circuit or None)"""
    env = env or {}
    if not (isinstance(c, ast.Call) and isinstance(c.func, ast.Name) and c.func.id == "to_chain_structure"):
        raise Refuse(f"{where}: not a call of to_chain_structure")
    if len(c.args) not in (1, 2) or not (isinstance(c.args[0], ast.Name) and c.args[0].id == "qc"):
        raise Refuse(f"{where}: arguments")
    val = (_topo_name(where, default_setup), None)
    if len(c.args) == 2:
        val = _setup_expr(where, c.args[1], env)
    for kw in c.keywords:
        if kw.arg == "setup" and len(c.args) == 1:
            val = _setup_expr(where, kw.value, env)
        else:
            raise Refuse(f"{where}: keyword {kw.arg}")
    return val


def _is_qc_N(e):
    return isinstance(e, ast.Attribute) and e.attr == "N" and isinstance(e.value, ast.Name) and e.value.id == "qc"


def _width_cmp(test):
    """-> "narrow" for `qc.N < self.num_qubits`, "wide" for `qc.N > self.num_qubits` (either operand order), else None"""
    if not (isinstance(test, ast.Compare) and len(test.ops) == 1):
        return None
    a, b, op = test.left, test.comparators[0], test.ops[0]
    tab = None
    if _is_qc_N(a) and _is_self_attr(b, "num_qubits"):
        tab = {ast.Lt: "narrow", ast.Gt: "wide", ast.GtE: "notnarrow", ast.LtE: "notwide"}
    if _is_self_attr(a, "num_qubits") and _is_qc_N(b):
        tab = {ast.Gt: "narrow", ast.Lt: "wide", ast.LtE: "notnarrow", ast.GtE: "notwide"}
    return tab.get(type(op)) if tab else None


def _is_raise_value_error(s):
    return (isinstance(s, ast.Raise) and s.cause is None
            and ((isinstance(s.exc, ast.Call) and isinstance(s.exc.func, ast.Name) and s.exc.func.id == "ValueError")
                 or (isinstance(s.exc, ast.Name) and s.exc.id == "ValueError")))


def _guard_loop(where, loop):
    """for G in qc.gates: if G.name == "X" [and/nested if] abs(G.targets[0] - G.targets[1]) != 1: raise ValueError(...)
    -> the gate names refused when their two targets are not neighbours"""
    it = loop.iter
    if loop.orelse or not isinstance(loop.target, ast.Name) or not (
            isinstance(it, ast.Attribute) and it.attr == "gates" and isinstance(it.value, ast.Name) and it.value.id == "qc"):
        raise Refuse(f"{where}: loop is not `for <name> in qc.gates`")
    g = loop.target.id

    def is_g_attr(e, attr):
        return isinstance(e, ast.Attribute) and e.attr == attr and isinstance(e.value, ast.Name) and e.value.id == g

    def tgt(e, k):
        return (isinstance(e, ast.Subscript) and is_g_attr(e.value, "targets") and isinstance(e.slice, ast.Constant)
                and e.slice.value == k)

    def atoms(test):
        if isinstance(test, ast.BoolOp) and isinstance(test.op, ast.And):
            return [a for v in test.values for a in atoms(v)]
        return [test]

    def classify(a):
        if isinstance(a, ast.Compare) and len(a.ops) == 1:
            l, r, op = a.left, a.comparators[0], a.ops[0]
            if is_g_attr(l, "name") and isinstance(op, ast.Eq) and isinstance(r, ast.Constant) and isinstance(r.value, str):
                return ("names", [r.value])
            if is_g_attr(l, "name") and isinstance(op, ast.In) and isinstance(r, (ast.List, ast.Tuple)) \
                    and all(isinstance(x, ast.Constant) and isinstance(x.value, str) for x in r.elts):
                return ("names", [x.value for x in r.elts])
            if isinstance(op, ast.NotEq) and isinstance(r, ast.Constant) and r.value == 1 and isinstance(l, ast.Call) \
                    and isinstance(l.func, ast.Name) and l.func.id == "abs" and len(l.args) == 1 and not l.keywords \
                    and isinstance(l.args[0], ast.BinOp) and isinstance(l.args[0].op, ast.Sub) \
                    and ((tgt(l.args[0].left, 0) and tgt(l.args[0].right, 1)) or (tgt(l.args[0].left, 1) and tgt(l.args[0].right, 0))):
                return ("far", None)
        raise Refuse(f"{where} l.{getattr(a, 'lineno', '?')}: unknown condition in the guard loop")

    conds = []
    body = loop.body
    while True:
        if len(body) != 1:
            raise Refuse(f"{where}: guard loop body has {len(body)} statements")
        st = body[0]
        if isinstance(st, ast.If) and not st.orelse:
            conds += [classify(a) for a in atoms(st.test)]
            body = st.body
            continue
        if _is_raise_value_error(st):
            break
        raise Refuse(f"{where}: guard loop does not end in `raise ValueError`")
    names = [c[1] for c in conds if c[0] == "names"]
    if len(names) != 1 or sum(1 for c in conds if c[0] == "far") != 1:
        raise Refuse(f"{where}: guard loop needs exactly one name test and one distance test")
    return names[0]


def _topo_of(chain, default_setup):
    """-> (topology used for a circuit as wide as the processor, topology for a narrower circuit or None,
           names of the two-target gates refused when their targets are not neighbours)"""
    for cls in chain:
        m = _method(cls, "topology_map")
        if m is None:
            continue
        where = f"{cls.name}.topology_map"
        if [x.arg for x in m.args.args] != ["self", "qc"]:
            raise Refuse(f"{where}: signature")
        body = _strip_doc(m.body)
        unrouted, narrow, env = [], None, {}
        while body and isinstance(body[0], ast.For):                 # refusals come first
            unrouted += _guard_loop(where, body[0])
            body = body[1:]
        # locals holding a setup value:  setup = "linear" if qc.N < self.num_qubits else "circular"
        while body and isinstance(body[0], ast.Assign) and len(body[0].targets) == 1 and isinstance(body[0].targets[0], ast.Name) \
                and body[0].targets[0].id not in ("qc", "self"):
            env[body[0].targets[0].id] = _setup_expr(where, body[0].value, env)
            body = body[1:]
        # if qc.N < self.num_qubits: return to_chain_structure(qc, A)   [else:] return to_chain_structure(qc, B)
        if body and isinstance(body[0], ast.If) and _width_cmp(body[0].test) in ("narrow", "notnarrow") \
                and len(body[0].body) == 1 and isinstance(body[0].body[0], ast.Return):
            rest = body[0].orelse if body[0].orelse else body[1:]
            if (body[0].orelse and len(body) != 1) or len(rest) != 1 or not isinstance(rest[0], ast.Return):
                raise Refuse(f"{where}: unknown shape after the width test")
            a = _setup_of(where, body[0].body[0].value, default_setup, env)
            b = _setup_of(where, rest[0].value, default_setup, env)
            if a[1] is not None or b[1] is not None:
                raise Refuse(f"{where}: nested width tests")
            full, narrow = (b[0], a[0]) if _width_cmp(body[0].test) == "narrow" else (a[0], b[0])
            return full, (None if narrow == full else narrow), unrouted
        if len(body) != 1:
            raise Refuse(f"{where}: unknown shape ({len(body)} trailing statements)")
        s = body[0]
        if isinstance(s, ast.Raise) and isinstance(s.exc, ast.Name) and s.exc.id == "NotImplementedError" and not unrouted and not env:
            return "TopoNone", None, []
        if isinstance(s, ast.Return):
            full, narrow = _setup_of(where, s.value, default_setup, env)
            return full, (None if narrow == full else narrow), unrouted
        raise Refuse(f"{where}: unknown body")
    raise Refuse("no topology_map in the class chain")


def _is_qc_assign(s, pred):
    return (isinstance(s, ast.Assign) and len(s.targets) == 1 and isinstance(s.targets[0], ast.Name)
            and s.targets[0].id == "qc" and pred(s.value))


def _call_self(v, meth):
    return (isinstance(v, ast.Call) and _is_self_attr(v.func, meth) and len(v.args) == 1 and not v.keywords
            and isinstance(v.args[0], ast.Name) and v.args[0].id == "qc")


def _call_resolve(v, obj):
    return (isinstance(v, ast.Call) and isinstance(v.func, ast.Attribute) and v.func.attr == "resolve_gates"
            and isinstance(v.func.value, ast.Name) and v.func.value.id == obj and not v.args and len(v.keywords) == 1
            and v.keywords[0].arg == "basis" and _is_self_attr(v.keywords[0].value, "native_gates"))


def _passes(mp):
    m = _method(mp, "transpile")
    if m is None or [x.arg for x in m.args.args] != ["self", "qc"]:
        raise Refuse("ModelProcessor.transpile: missing / signature")
    body = _strip_doc(m.body)
    if not body or not (isinstance(body[-1], ast.Return) and isinstance(body[-1].value, ast.Name) and body[-1].value.id == "qc"):
        raise Refuse("ModelProcessor.transpile: does not end with `return qc`")
    out = []
    helper = None
    for s in body[:-1]:
        if isinstance(s, ast.If) and not s.orelse and _width_cmp(s.test) == "wide" and len(s.body) == 1 \
                and _is_raise_value_error(s.body[0]):
            out.append("PWidth")
            continue
        if isinstance(s, ast.Try):
            if (len(s.body) == 1 and _is_qc_assign(s.body[0], lambda v: _call_self(v, "topology_map"))
                    and len(s.handlers) == 1 and isinstance(s.handlers[0].type, ast.Name)
                    and s.handlers[0].type.id == "NotImplementedError" and len(s.handlers[0].body) == 1
                    and isinstance(s.handlers[0].body[0], ast.Pass) and not s.orelse and not s.finalbody):
                out.append("PTopology")
                continue
            raise Refuse(f"ModelProcessor.transpile l.{s.lineno}: unknown try statement")
        if isinstance(s, ast.If) and _native_is_not_none(s.test) and not s.orelse and len(s.body) == 1:
            b = s.body[0]
            if _is_qc_assign(b, lambda v: _call_resolve(v, "qc")):
                out.append("PResolve")
                continue
            if (isinstance(b, ast.Assign) and len(b.targets) == 1 and isinstance(b.targets[0], ast.Name) and b.targets[0].id == "qc"
                    and isinstance(b.value, ast.Call) and isinstance(b.value.func, ast.Attribute)
                    and isinstance(b.value.func.value, ast.Name) and b.value.func.value.id == "self"
                    and _call_self(b.value, b.value.func.attr) and b.value.func.attr != "topology_map"):
                if helper not in (None, b.value.func.attr):
                    raise Refuse("ModelProcessor.transpile: two different helpers")
                helper = b.value.func.attr
                out.append("PExpand")
                continue
        raise Refuse(f"ModelProcessor.transpile l.{s.lineno}: unknown statement {type(s).__name__}")
    return out, helper


# ---- the helper, recognised by DATA FLOW (not by variable names or statement layout) ----------------------------------
# A tiny symbolic interpreter runs the loop body twice - once assuming the gate is "big" (its qubit count exceeds the
# threshold), once assuming it is not - and checks what each run appends to the returned circuit:
#     big:      exactly the gates of  <fresh circuit holding only this gate>.resolve_gates(basis=self.native_gates)
#     not big:  exactly the gate itself
# where the qubit count is len(controls-or-[]) + len(targets-or-[]) of the gate.  Anything the interpreter does not
# understand is refused.
class _Continue(Exception):
    pass


class _Sym:
    def __init__(self, where, big):
        self.where = where
        self.big = big
        self.env = {}
        self.content = {}      # fresh circuit id -> list of items it holds (None = unknown)
        self.nfresh = 0
        self.ks = set()

    def refuse(self, node, msg):
        raise Refuse(f"{self.where} l.{getattr(node, 'lineno', '?')}: {msg}")

    # -- expressions ---------------------------------------------------------------------------------------------------
    def fresh(self, call):
        pos = list(call.args)
        kws = {k.arg: k.value for k in call.keywords}
        if None in kws:
            self.refuse(call, "**kwargs in QubitCircuit(...)")
        if pos:
            n = pos.pop(0)
        elif "N" in kws:
            n = kws.pop("N")
        else:
            self.refuse(call, "QubitCircuit without N")
        if pos or self.ev(n) != ("qcattr", "N"):
            self.refuse(call, "QubitCircuit is not built on qc.N")
        for k, v in kws.items():
            if k not in ("reverse_states", "num_cbits") or self.ev(v) != ("qcattr", k):
                self.refuse(call, f"QubitCircuit keyword {k} is not qc.{k}")
        self.nfresh += 1
        self.content[self.nfresh] = []
        return ("fresh", self.nfresh)

    def ev(self, e):
        if isinstance(e, ast.Name):
            if e.id in self.env:
                return self.env[e.id]
            if e.id == "qc":
                return ("qc",)
            if e.id == "self":
                return ("self",)
            self.refuse(e, f"unknown name {e.id}")
        if isinstance(e, ast.Constant):
            if e.value is None:
                return ("none",)
            if isinstance(e.value, bool):
                self.refuse(e, "boolean constant")
            if isinstance(e.value, int):
                return ("int", e.value)
            if isinstance(e.value, str):
                return ("str", e.value)
            self.refuse(e, "constant")
        if isinstance(e, (ast.List, ast.Tuple)):
            return ("list", tuple(self.ev(x) for x in e.elts))
        if isinstance(e, ast.Attribute):
            b = self.ev(e.value)
            if b == ("self",) and e.attr == "native_gates":
                return ("native",)
            if b == ("qc",):
                return ("qcattr", e.attr)
            if b == ("op",) and e.attr in ("controls", "targets"):
                return ("raw", e.attr)
            if b[0] in ("fresh", "resolved") and e.attr == "gates":
                return ("gates", b)
            self.refuse(e, f"attribute .{e.attr}")
        if isinstance(e, ast.Call):
            f = e.func
            if isinstance(f, ast.Name) and f.id == "QubitCircuit":
                return self.fresh(e)
            if isinstance(f, ast.Name) and f.id == "getattr" and not e.keywords and len(e.args) == 3:
                o, a, d = (self.ev(x) for x in e.args)
                if o == ("op",) and a in (("str", "controls"), ("str", "targets")) and d == ("none",):
                    return ("raw", a[1])
                self.refuse(e, "getattr")
            if isinstance(f, ast.Name) and f.id == "len" and not e.keywords and len(e.args) == 1:
                v = self.ev(e.args[0])
                if v[0] == "q":
                    return ("len", v[1])
                if v == ("qubits",):
                    return ("count",)
                self.refuse(e, "len of something that is not the gate's controls/targets (None replaced by [])")
            if isinstance(f, ast.Name) and f.id == "list" and not e.keywords and len(e.args) == 1:
                v = self.ev(e.args[0])
                if v[0] in ("q", "gates", "list", "qubits"):
                    return v
                self.refuse(e, "list(...)")
            if isinstance(f, ast.Attribute) and f.attr == "resolve_gates":
                b = self.ev(f.value)
                kws = {k.arg: k.value for k in e.keywords}
                if b[0] != "fresh" or self.content.get(b[1]) != [("op",)]:
                    self.refuse(e, "resolve_gates is not called on a fresh circuit holding exactly the current gate")
                if e.args or set(kws) != {"basis"} or self.ev(kws["basis"]) != ("native",):
                    self.refuse(e, "resolve_gates is not called with basis=self.native_gates")
                return ("resolved",)
            self.refuse(e, "call")
        if isinstance(e, ast.BoolOp) and isinstance(e.op, ast.Or) and len(e.values) == 2:
            a, b = self.ev(e.values[0]), self.ev(e.values[1])
            if a[0] == "raw" and b == ("list", ()):
                return ("q", a[1])
            self.refuse(e, "`or`")
        if isinstance(e, ast.IfExp):
            t = e.test
            if isinstance(t, ast.Compare) and len(t.ops) == 1 and self.ev(t.comparators[0]) == ("none",):
                a = self.ev(t.left)
                yes, no = self.ev(e.body), self.ev(e.orelse)
                if a[0] == "raw" and isinstance(t.ops[0], ast.IsNot) and yes == a and no == ("list", ()):
                    return ("q", a[1])
                if a[0] == "raw" and isinstance(t.ops[0], ast.Is) and no == a and yes == ("list", ()):
                    return ("q", a[1])
            self.refuse(e, "conditional expression")
        if isinstance(e, ast.BinOp) and isinstance(e.op, ast.Add):
            a, b = self.ev(e.left), self.ev(e.right)
            if a[0] == "len" and b[0] == "len" and {a[1], b[1]} == {"controls", "targets"}:
                return ("count",)
            if a[0] == "q" and b[0] == "q" and {a[1], b[1]} == {"controls", "targets"}:
                return ("qubits",)
            if a[0] == "gates" and b[0] in ("gates", "list"):
                return ("cat", a, b)
            self.refuse(e, "`+`")
        if isinstance(e, ast.UnaryOp) and isinstance(e.op, ast.Not):
            v = self.ev(e.operand)
            if v[0] == "cond":
                return ("cond", v[1], not v[2])
            self.refuse(e, "`not`")
        if isinstance(e, ast.Compare) and len(e.ops) == 1:
            a, b, op = self.ev(e.left), self.ev(e.comparators[0]), e.ops[0]
            # ("cond", K, pol): the test is true  iff  (count > K) == pol
            if a == ("count",) and b[0] == "int":
                k = b[1]
                tab = {ast.Gt: (k, True), ast.GtE: (k - 1, True), ast.Lt: (k - 1, False), ast.LtE: (k, False)}
            elif b == ("count",) and a[0] == "int":
                k = a[1]
                tab = {ast.Lt: (k, True), ast.LtE: (k - 1, True), ast.Gt: (k - 1, False), ast.GtE: (k, False)}
            else:
                self.refuse(e, "comparison that is not <qubit count> against an integer")
            if type(op) not in tab:
                self.refuse(e, "comparison operator")
            return ("cond",) + tab[type(op)]
        self.refuse(e, f"expression {type(e).__name__}")

    # -- what a value adds to a gate list ------------------------------------------------------------------------------
    def items_of(self, node, v):
        if v == ("gates", ("resolved",)):
            return [("R",)]
        if v[0] == "gates" and v[1][0] == "fresh":
            c = self.content.get(v[1][1])
            if c is None:
                self.refuse(node, "gates of a circuit whose content is not known")
            return list(c)
        if v[0] == "list":
            for x in v[1]:
                if x != ("op",):
                    self.refuse(node, "list element that is not the current gate")
            return [("op",)] * len(v[1])
        self.refuse(node, "unknown gate list")

    def gates_target(self, node, t):
        """`X.gates` with X a fresh circuit -> its id"""
        if isinstance(t, ast.Attribute) and t.attr == "gates":
            b = self.ev(t.value)
            if b[0] == "fresh":
                return b[1]
        self.refuse(node, "assignment / call target is not <fresh circuit>.gates")

    # -- statements ----------------------------------------------------------------------------------------------------
    def run(self, stmts):
        for st in stmts:
            if isinstance(st, ast.Pass):
                continue
            if isinstance(st, ast.Expr) and isinstance(st.value, ast.Constant) and isinstance(st.value.value, str):
                continue
            if isinstance(st, ast.Continue):
                raise _Continue()
            if isinstance(st, ast.Assign) and len(st.targets) == 1:
                t = st.targets[0]
                if isinstance(t, ast.Name):
                    if t.id in ("qc", "self"):
                        self.refuse(st, f"{t.id} is rebound")
                    self.env[t.id] = self.ev(st.value)
                    continue
                i = self.gates_target(st, t)
                v = self.ev(st.value)
                if v[0] == "cat":
                    if v[1] != ("gates", ("fresh", i)):
                        self.refuse(st, "X.gates = Y.gates + ...")
                    self.content[i] = self.items_of(st, v[1]) + self.items_of(st, v[2])
                else:
                    self.content[i] = self.items_of(st, v)
                continue
            if isinstance(st, ast.AugAssign) and isinstance(st.op, ast.Add):
                i = self.gates_target(st, st.target)
                if self.content[i] is None:
                    self.refuse(st, "circuit of unknown content")
                self.content[i] = self.content[i] + self.items_of(st, self.ev(st.value))
                continue
            if isinstance(st, ast.Expr) and isinstance(st.value, ast.Call) and isinstance(st.value.func, ast.Attribute) \
                    and st.value.func.attr in ("append", "extend") and len(st.value.args) == 1 and not st.value.keywords:
                i = self.gates_target(st, st.value.func.value)
                if self.content[i] is None:
                    self.refuse(st, "circuit of unknown content")
                v = self.ev(st.value.args[0])
                if st.value.func.attr == "append":
                    if v != ("op",):
                        self.refuse(st, "append of something that is not the current gate")
                    self.content[i] = self.content[i] + [("op",)]
                else:
                    self.content[i] = self.content[i] + self.items_of(st, v)
                continue
            if isinstance(st, ast.If):
                v = self.ev(st.test)
                if v[0] != "cond":
                    self.refuse(st, "test is not a comparison of the qubit count")
                self.ks.add(v[1])
                truth = self.big if v[2] else (not self.big)
                self.run(st.body if truth else st.orelse)
                continue
            self.refuse(st, f"statement {type(st).__name__}")


def _helper_threshold(mp, helper):
    where = f"ModelProcessor.{helper}"
    m = _method(mp, helper)
    if m is None or [x.arg for x in m.args.args] != ["self", "qc"] or m.args.vararg or m.args.kwarg or m.args.kwonlyargs:
        raise Refuse(f"{where}: missing / signature")
    body = _strip_doc(m.body)
    loops = [k for k, st in enumerate(body) if isinstance(st, ast.For)]
    if len(loops) != 1 or loops[0] != len(body) - 2 or not isinstance(body[-1], ast.Return):
        raise Refuse(f"{where}: expected <assignments>; one for loop; return")
    loop, ret = body[-2], body[-1]
    if loop.orelse or not isinstance(loop.target, ast.Name) or not isinstance(ret.value, ast.Name):
        raise Refuse(f"{where}: loop target / return value is not a plain name")
    ks = set()
    for big in (True, False):
        sy = _Sym(where, big)
        sy.run(body[:-2])                                   # before the loop: fresh circuits, aliases
        if sy.ev(loop.iter) != ("qcattr", "gates"):
            raise Refuse(f"{where}: the loop is not over qc.gates")
        out = sy.env.get(ret.value.id)
        if out is None or out[0] != "fresh":
            raise Refuse(f"{where}: the returned value is not a circuit built before the loop")
        if sy.content[out[1]] != []:
            raise Refuse(f"{where}: the returned circuit is not empty before the loop")
        # one iteration: circuits built before the loop have unknown content, the returned one is tracked by its delta
        for i in list(sy.content):
            sy.content[i] = None
        sy.content[out[1]] = []
        sy.env[loop.target.id] = ("op",)
        try:
            sy.run(loop.body)
        except _Continue:
            pass
        if sy.env.get(ret.value.id) != out:
            raise Refuse(f"{where}: the returned name is rebound inside the loop")
        want = [("R",)] if big else [("op",)]
        if sy.content[out[1]] != want:
            raise Refuse(f"{where}: a gate {'above' if big else 'not above'} the threshold adds {sy.content[out[1]]} to the result, "
                         f"expected {want}  (R = gates of the single-gate circuit resolved in the native basis, op = the gate itself)")
        ks |= sy.ks
    if len(ks) != 1:
        raise Refuse(f"{where}: thresholds {sorted(ks)}")
    k = ks.pop()
    if k < 0:
        raise Refuse(f"{where}: negative threshold")
    return k


def generate():
    try:
        classes = _classes()
        if "ModelProcessor" not in classes:
            raise Refuse("ModelProcessor not found")
        mp = classes["ModelProcessor"][0]
        default_setup = _chain_default()
        devs = []
        for name, _ in CLASSES:
            if name not in classes:
                raise Refuse(f"class {name} not found")
            ch = _chain(classes, name)
            if ch[-1].name != "ModelProcessor":
                raise Refuse(f"{name} does not derive from ModelProcessor")
            for cls in ch[:-1]:
                if _method(cls, "transpile") is not None:
                    raise Refuse(f"{cls.name} overrides transpile")
            devs.append((name, _native_of(ch)) + _topo_of(ch, default_setup))
        passes, helper = _passes(mp)
        thr = _helper_threshold(mp, helper) if helper is not None else 2
    except Refuse as e:
        raise Broken("translator:devices", str(e))
    out = ["(* GENERATED by tools/translate/devices_tr.py from device/{modelprocessor,spinchain,circuitqed,cavityqed}.py and "
           "transpiler/chain.py - do not edit *)",
           "From Coq Require Import List String.", "From QV Require Import Model.TranspileTypes.", "Import ListNotations.", "Local Open Scope string_scope.", ""]
    for name, nat, topo, narrow, unrouted in devs:
        ns = "None" if nat is None else "Some [" + "; ".join(cstr(x) for x in nat) + "]"
        nw = "None" if narrow is None else f"(Some {narrow})"
        ur = "[" + "; ".join(cstr(x) for x in unrouted) + "]"
        out.append(f"Definition dev_{name} : device := mkDev {cstr(name)} ({ns}) {topo} {nw} {ur}.")
    out.append("Definition devices : list device := [" + "; ".join(f"dev_{d[0]}" for d in devs) + "].")
    out.append("Definition transpile_passes : list pass := [" + "; ".join(passes) + "].")
    out.append(f"Definition expand_threshold : nat := {int(thr)}.")
    write_if_changed(os.path.join(COQ, "Gen", "Devices.v"), "\n".join(out) + "\n")
    return dict(devices={n: dict(native=nat, topo=t, narrow=nw, unrouted=ur) for n, nat, t, nw, ur in devs}, passes=passes, helper=helper, threshold=thr,
                default_setup=default_setup)


if __name__ == "__main__":
    import json
    print(json.dumps(generate(), indent=1))
