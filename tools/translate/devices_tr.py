"""C13 translator (fail-closed): device tables and the shape of ModelProcessor.transpile  ->  coq/Gen/Devices.v.

Read with `ast` only, nothing is evaluated:
  * per processor class (LinearSpinChain, CircularSpinChain, SCQubits, DispersiveCavityQED): the list literal assigned to
    `self.native_gates` in the nearest `__init__` of its base-class chain, and what the nearest `topology_map` does
    (`raise NotImplementedError` / `return to_chain_structure(qc[, "linear"|"circular"])`, default of `setup` from chain.py);
  * `ModelProcessor.transpile`: the order of its statements (multi-qubit pre-decomposition, topology map, resolve_gates);
  * `ModelProcessor._decompose_multi_qubit_gates` (when transpile calls it): the qubit-count threshold of its test and that
    it decomposes with `resolve_gates(basis=self.native_gates)`.
Anything of another shape is refused (Broken("translator:devices:<where>")).
"""
import ast
import os
import sys

sys.path.insert(0, os.path.dirname(os.path.dirname(os.path.abspath(__file__))))
from common import Broken, COQ, PKG, write_if_changed, cstr  # noqa: E402

CLASSES = [("LinearSpinChain", "spinchain.py"), ("CircularSpinChain", "spinchain.py"),
           ("SCQubits", "circuitqed.py"), ("DispersiveCavityQED", "cavityqed.py")]
FILES = ["modelprocessor.py", "spinchain.py", "circuitqed.py", "cavityqed.py"]


class Refuse(Exception):
    pass


def _strip_doc(body):
    if body and isinstance(body[0], ast.Expr) and isinstance(getattr(body[0], "value", None), ast.Constant) \
            and isinstance(body[0].value.value, str):
        return body[1:]
    return body


def _is_self_attr(n, attr):
    return isinstance(n, ast.Attribute) and isinstance(n.value, ast.Name) and n.value.id == "self" and n.attr == attr


def _native_is_not_none(test):
    return (isinstance(test, ast.Compare) and _is_self_attr(test.left, "native_gates") and len(test.ops) == 1
            and isinstance(test.ops[0], ast.IsNot) and isinstance(test.comparators[0], ast.Constant)
            and test.comparators[0].value is None)


def _classes():
    out = {}
    for f in FILES:
        path = os.path.join(PKG, "device", f)
        try:
            tree = ast.parse(open(path).read())
        except (OSError, SyntaxError) as e:
            raise Refuse(f"{f}: {e}")
        for n in tree.body:
            if isinstance(n, ast.ClassDef):
                bases = [b.id for b in n.bases if isinstance(b, ast.Name)]
                out[n.name] = (n, bases, f)
    return out


def _chain(classes, name):
    ch = []
    while name in classes:
        node, bases, _ = classes[name]
        ch.append(node)
        if len(bases) != 1:
            raise Refuse(f"class {name}: {len(bases)} bases")
        name = bases[0]
    return ch


def _method(cls, name):
    ms = [n for n in cls.body if isinstance(n, ast.FunctionDef) and n.name == name]
    if len(ms) > 1:
        raise Refuse(f"{cls.name}.{name} defined twice")
    return ms[0] if ms else None


def _native_of(chain):
    for cls in chain:
        init = _method(cls, "__init__")
        if init is None:
            continue
        hits = []
        for n in ast.walk(init):
            targets = n.targets if isinstance(n, ast.Assign) else ([n.target] if isinstance(n, (ast.AugAssign, ast.AnnAssign)) else [])
            if any(_is_self_attr(t, "native_gates") for t in targets):
                hits.append(n)
        if not hits:
            continue
        if len(hits) != 1 or not isinstance(hits[0], ast.Assign) or hits[0] not in init.body:
            raise Refuse(f"{cls.name}.__init__: native_gates is not assigned exactly once at top level")
        v = hits[0].value
        if isinstance(v, ast.Constant) and v.value is None:
            return None
        if isinstance(v, ast.List) and all(isinstance(e, ast.Constant) and isinstance(e.value, str) for e in v.elts):
            return [e.value for e in v.elts]
        raise Refuse(f"{cls.name}.__init__: native_gates is not a list literal of strings")
    raise Refuse("no assignment to native_gates in the class chain")


def _chain_default():
    path = os.path.join(PKG, "transpiler", "chain.py")
    tree = ast.parse(open(path).read())
    fs = [n for n in tree.body if isinstance(n, ast.FunctionDef) and n.name == "to_chain_structure"]
    if len(fs) != 1:
        raise Refuse("chain.py: to_chain_structure not found")
    a = fs[0].args
    names = [x.arg for x in a.args]
    if names != ["qc", "setup"] or len(a.defaults) != 1 or a.vararg or a.kwarg or a.kwonlyargs:
        raise Refuse("chain.py: signature of to_chain_structure")
    d = a.defaults[0]
    if not (isinstance(d, ast.Constant) and d.value in ("linear", "circular")):
        raise Refuse("chain.py: default of setup")
    return d.value


def _topo_of(chain, default_setup):
    for cls in chain:
        m = _method(cls, "topology_map")
        if m is None:
            continue
        if [x.arg for x in m.args.args] != ["self", "qc"]:
            raise Refuse(f"{cls.name}.topology_map: signature")
        body = _strip_doc(m.body)
        if len(body) != 1:
            raise Refuse(f"{cls.name}.topology_map: {len(body)} statements")
        s = body[0]
        if isinstance(s, ast.Raise) and isinstance(s.exc, ast.Name) and s.exc.id == "NotImplementedError":
            return "TopoNone"
        if isinstance(s, ast.Return) and isinstance(s.value, ast.Call) and isinstance(s.value.func, ast.Name) \
                and s.value.func.id == "to_chain_structure":
            c = s.value
            setup = default_setup
            if len(c.args) not in (1, 2) or not (isinstance(c.args[0], ast.Name) and c.args[0].id == "qc"):
                raise Refuse(f"{cls.name}.topology_map: arguments")
            if len(c.args) == 2:
                if not isinstance(c.args[1], ast.Constant):
                    raise Refuse(f"{cls.name}.topology_map: setup not a constant")
                setup = c.args[1].value
            for kw in c.keywords:
                if kw.arg == "setup" and isinstance(kw.value, ast.Constant) and len(c.args) == 1:
                    setup = kw.value.value
                else:
                    raise Refuse(f"{cls.name}.topology_map: keyword {kw.arg}")
            if setup == "linear":
                return "TopoLinear"
            if setup == "circular":
                return "TopoCircular"
            raise Refuse(f"{cls.name}.topology_map: setup {setup!r}")
        raise Refuse(f"{cls.name}.topology_map: unknown body")
    raise Refuse("no topology_map in the class chain")


def _is_qc_assign(s, pred):
    return (isinstance(s, ast.Assign) and len(s.targets) == 1 and isinstance(s.targets[0], ast.Name)
            and s.targets[0].id == "qc" and pred(s.value))


def _call_self(v, meth):
    return (isinstance(v, ast.Call) and _is_self_attr(v.func, meth) and len(v.args) == 1 and not v.keywords
            and isinstance(v.args[0], ast.Name) and v.args[0].id == "qc")


def _call_resolve(v, obj):
    return (isinstance(v, ast.Call) and isinstance(v.func, ast.Attribute) and v.func.attr == "resolve_gates"
            and isinstance(v.func.value, ast.Name) and v.func.value.id == obj and not v.args and len(v.keywords) == 1
            and v.keywords[0].arg == "basis" and _is_self_attr(v.keywords[0].value, "native_gates"))


def _passes(mp):
    m = _method(mp, "transpile")
    if m is None or [x.arg for x in m.args.args] != ["self", "qc"]:
        raise Refuse("ModelProcessor.transpile: missing / signature")
    body = _strip_doc(m.body)
    if not body or not (isinstance(body[-1], ast.Return) and isinstance(body[-1].value, ast.Name) and body[-1].value.id == "qc"):
        raise Refuse("ModelProcessor.transpile: does not end with `return qc`")
    out = []
    helper = None
    for s in body[:-1]:
        if isinstance(s, ast.Try):
            if (len(s.body) == 1 and _is_qc_assign(s.body[0], lambda v: _call_self(v, "topology_map"))
                    and len(s.handlers) == 1 and isinstance(s.handlers[0].type, ast.Name)
                    and s.handlers[0].type.id == "NotImplementedError" and len(s.handlers[0].body) == 1
                    and isinstance(s.handlers[0].body[0], ast.Pass) and not s.orelse and not s.finalbody):
                out.append("PTopology")
                continue
            raise Refuse(f"ModelProcessor.transpile l.{s.lineno}: unknown try statement")
        if isinstance(s, ast.If) and _native_is_not_none(s.test) and not s.orelse and len(s.body) == 1:
            b = s.body[0]
            if _is_qc_assign(b, lambda v: _call_resolve(v, "qc")):
                out.append("PResolve")
                continue
            if (isinstance(b, ast.Assign) and len(b.targets) == 1 and isinstance(b.targets[0], ast.Name) and b.targets[0].id == "qc"
                    and isinstance(b.value, ast.Call) and isinstance(b.value.func, ast.Attribute)
                    and isinstance(b.value.func.value, ast.Name) and b.value.func.value.id == "self"
                    and _call_self(b.value, b.value.func.attr) and b.value.func.attr != "topology_map"):
                if helper not in (None, b.value.func.attr):
                    raise Refuse("ModelProcessor.transpile: two different helpers")
                helper = b.value.func.attr
                out.append("PExpand")
                continue
        raise Refuse(f"ModelProcessor.transpile l.{s.lineno}: unknown statement {type(s).__name__}")
    return out, helper


def _helper_threshold(mp, helper):
    """the helper must: loop over qc.gates, test `<count> > K` once, decompose exactly with resolve_gates(basis=self.native_gates)"""
    m = _method(mp, helper)
    if m is None or [x.arg for x in m.args.args] != ["self", "qc"]:
        raise Refuse(f"ModelProcessor.{helper}: missing / signature")
    fors = [n for n in ast.walk(m) if isinstance(n, (ast.For, ast.While, ast.comprehension))]
    if len(fors) != 1 or not isinstance(fors[0], ast.For):
        raise Refuse(f"ModelProcessor.{helper}: expected exactly one for loop")
    it = fors[0].iter
    if not (isinstance(it, ast.Attribute) and it.attr == "gates" and isinstance(it.value, ast.Name) and it.value.id == "qc"):
        raise Refuse(f"ModelProcessor.{helper}: loop is not over qc.gates")
    ifs = [n for n in ast.walk(m) if isinstance(n, (ast.If, ast.IfExp))]
    if len(ifs) != 1 or not isinstance(ifs[0], ast.If) or ifs[0] not in fors[0].body:
        raise Refuse(f"ModelProcessor.{helper}: expected exactly one if statement, inside the loop")
    t = ifs[0].test
    if not (isinstance(t, ast.Compare) and len(t.ops) == 1 and isinstance(t.ops[0], ast.Gt)
            and isinstance(t.comparators[0], ast.Constant) and isinstance(t.comparators[0].value, int)
            and not isinstance(t.comparators[0].value, bool)):
        raise Refuse(f"ModelProcessor.{helper}: test is not `<count> > <int>`")
    # the counted quantity: len(controls) + len(targets) of names bound from gate.controls / gate.targets
    lhs = t.left
    ok = (isinstance(lhs, ast.BinOp) and isinstance(lhs.op, ast.Add)
          and all(isinstance(x, ast.Call) and isinstance(x.func, ast.Name) and x.func.id == "len" and len(x.args) == 1
                  and isinstance(x.args[0], ast.Name) for x in (lhs.left, lhs.right)))
    if not ok or sorted(x.args[0].id for x in (lhs.left, lhs.right)) != ["controls", "targets"]:
        raise Refuse(f"ModelProcessor.{helper}: counted quantity is not len(controls) + len(targets)")
    calls = [n for n in ast.walk(m) if isinstance(n, ast.Call) and isinstance(n.func, ast.Attribute) and n.func.attr == "resolve_gates"]
    if len(calls) != 1 or not any(c is calls[0] for b in ifs[0].body for c in ast.walk(b)):
        raise Refuse(f"ModelProcessor.{helper}: expected one resolve_gates call in the true branch")
    c = calls[0]
    if c.args or len(c.keywords) != 1 or c.keywords[0].arg != "basis" or not _is_self_attr(c.keywords[0].value, "native_gates"):
        raise Refuse(f"ModelProcessor.{helper}: resolve_gates is not called with basis=self.native_gates")
    return t.comparators[0].value


def generate():
    try:
        classes = _classes()
        if "ModelProcessor" not in classes:
            raise Refuse("ModelProcessor not found")
        mp = classes["ModelProcessor"][0]
        default_setup = _chain_default()
        devs = []
        for name, _ in CLASSES:
            if name not in classes:
                raise Refuse(f"class {name} not found")
            ch = _chain(classes, name)
            if ch[-1].name != "ModelProcessor":
                raise Refuse(f"{name} does not derive from ModelProcessor")
            for cls in ch[:-1]:
                if _method(cls, "transpile") is not None:
                    raise Refuse(f"{cls.name} overrides transpile")
            devs.append((name, _native_of(ch), _topo_of(ch, default_setup)))
        passes, helper = _passes(mp)
        thr = _helper_threshold(mp, helper) if helper is not None else 2
    except Refuse as e:
        raise Broken("translator:devices", str(e))
    out = ["(* GENERATED by tools/translate/devices_tr.py from device/{modelprocessor,spinchain,circuitqed,cavityqed}.py and "
           "transpiler/chain.py - do not edit *)",
           "From Coq Require Import List String.", "From QV Require Import Model.TranspileTypes.", "Import ListNotations.", "Local Open Scope string_scope.", ""]
    for name, nat, topo in devs:
        ns = "None" if nat is None else "Some [" + "; ".join(cstr(x) for x in nat) + "]"
        out.append(f"Definition dev_{name} : device := mkDev {cstr(name)} ({ns}) {topo}.")
    out.append("Definition devices : list device := [" + "; ".join(f"dev_{n}" for n, _, _ in devs) + "].")
    out.append("Definition transpile_passes : list pass := [" + "; ".join(passes) + "].")
    out.append(f"Definition expand_threshold : nat := {int(thr)}.")
    write_if_changed(os.path.join(COQ, "Gen", "Devices.v"), "\n".join(out) + "\n")
    return dict(devices={n: dict(native=nat, topo=t) for n, nat, t in devs}, passes=passes, helper=helper, threshold=thr,
                default_setup=default_setup)


if __name__ == "__main__":
    import json
    print(json.dumps(generate(), indent=1))
