"""Merge known_findings.d/*.json into /verif/known_findings.json (committed, never written at run time).
`fixed: <slug>` statuses are resolved to the /repo commit whose message came from fixes/<slug>.msg and rendered as
`fixed: property=<id> <commit> <what failed>`; fixed entries suppress nothing (tools/check.py ignores them)."""
import glob, json, os, re, subprocess
V = os.path.dirname(os.path.dirname(os.path.abspath(__file__)))
log = subprocess.run(["git", "-C", "/repo", "log", "--format=%h\t%s"], capture_output=True, text=True).stdout.splitlines()
subj2hash = {l.split("\t", 1)[1]: l.split("\t", 1)[0] for l in log if "\t" in l}
slug2hash = {}
for m in glob.glob(os.path.join(V, "fixes", "*.msg")):
    first = open(m).read().splitlines()[0].strip()
    if first in subj2hash:
        slug = os.path.basename(m)[:-4]
        slug2hash[slug] = subj2hash[first]
        slug2hash[re.sub(r"^C\d\d-", "", slug)] = subj2hash[first]
out = []
for f in sorted(glob.glob(os.path.join(V, "known_findings.d", "*.json"))):
    for e in json.load(open(f)).get("findings", []):
        e = dict(e)
        st = e.get("status", "open")
        if st.startswith("fixed"):
            slug = st.split(":", 1)[1].strip() if ":" in st else ""
            h = slug2hash.get(slug) or slug2hash.get(slug.split()[-1] if slug else "", "unknown-commit")
            e["fix_slug"] = slug
            e["status"] = f"fixed: property={e['property']} {h} {e.get('what', e['key'])[:160]}"
        out.append(e)
doc = {"note": "Genuine defects of qutip-qip found by the checks. status 'open' = recorded finding (the check prints KNOWN-FINDING and "
               "suppresses ONLY failures that its classify() maps to exactly this key); status 'fixed: ...' = repaired by the named "
               "fix: commit in /repo, suppresses nothing. Never written at run time.",
       "findings": out}
json.dump(doc, open(os.path.join(V, "known_findings.json"), "w"), indent=1)
print(len(out), "findings;", sum(1 for e in out if e["status"] == "open"), "open;",
      sum(1 for e in out if "unknown-commit" in e["status"]), "fixed without a resolved commit")
for e in out:
    if "unknown-commit" in e["status"]:
        print("  unresolved:", e["property"], e["key"], e.get("fix_slug"))
