"""Shared machinery for the per-property checks (see DESIGN.md section 2).

A property module `tools/props/cXX.py` defines

    ID            = "CXX"
    TARGETS       = ["Props/CXX.vo"]      # Coq files whose compilation are the proof obligations
    TRUSTED       = [...]                 # extra trusted-base lines for the evidence
    def generate(ctx)    -> None          # (optional) regenerate coq/Gen/*.v from REPO sources; may raise Broken
    def correspond(ctx)  -> Corr          # run implementation and Coq model on the same inputs, diff
    def search(ctx, why) -> dict|None     # look for a concrete failing input on the real code (property oracle)
    def replay(ctx, rec) -> bool          # re-run one replay record on the real code; True = still fails

`ctx` carries tier, seed, rng and helpers.  Nothing here is specific to one property.
"""
import fcntl
import hashlib
import json
import os
import random
import re
import subprocess
import sys
import time
import traceback

VERIF = os.path.dirname(os.path.dirname(os.path.abspath(__file__)))
REPO = os.environ.get("VERIF_REPO", "/repo")
COQ = os.path.join(VERIF, "coq")
if REPO != "/repo":
    # A scratch copy of the repository (seeded change, refactoring, fix under development) gets its OWN copy of the Coq
    # tree: the translators rewrite coq/Gen/*.v from the sources under check, and runs against different source trees
    # must not overwrite each other's generated files or compiled proofs.  The registered commands always use /repo
    # and /verif/coq itself.
    _tag = hashlib.sha1(os.path.abspath(REPO).encode()).hexdigest()[:10]
    _scratch = os.path.join("/tmp", "vcoq-" + _tag)
    subprocess.run(["rsync", "-a", "--delete", "--exclude", "Cases", "--exclude", ".depend*",
                    COQ + "/", _scratch + "/"], check=False)
    COQ = _scratch
SRC = os.path.join(REPO, "src")
PKG = os.path.join(SRC, "qutip_qip")
NCPU = int(os.environ.get("VERIF_JOBS", "16"))

# scratch worktrees lack the build-generated version.py (untracked in /repo): copy it so the package imports
if REPO != "/repo" and not os.path.exists(os.path.join(PKG, "version.py")) and os.path.isdir(PKG):
    try:
        import shutil
        shutil.copy("/repo/src/qutip_qip/version.py", os.path.join(PKG, "version.py"))
    except OSError:
        pass

# the implementation under check is always imported from REPO's working tree
if SRC not in sys.path:
    sys.path.insert(0, SRC)
os.environ["PYTHONPATH"] = SRC
os.environ.setdefault("PYTHONHASHSEED", "0")
os.environ.setdefault("QUTIP_QIP_VERIF", "1")


class Broken(Exception):
    """An obligation (translator, proof, correspondence) no longer checks."""

    def __init__(self, obligation, detail=""):
        super().__init__(f"{obligation}: {detail}")
        self.obligation = obligation
        self.detail = detail


class Corr:
    """Result of a correspondence run."""

    def __init__(self, rule=""):
        self.evaluations = 0
        self.nontrivial = set()
        self.rule = rule
        self.samples = []
        self.disagreements = []  # list of dict(input=..., impl=..., model=...)
        self.distribution = {}
        self.oracle_failures = []  # dict(input=..., observed=..., expected=..., what=...)
        self.extra = {}

    def count(self, key, nontrivial=True, sample=None):
        self.evaluations += 1
        if nontrivial:
            self.nontrivial.add(key if isinstance(key, (str, int, tuple)) else json.dumps(key, sort_keys=True, default=str))
        if sample is not None and len(self.samples) < 5:
            self.samples.append(sample)

    def tally(self, kind, n=1):
        self.distribution[kind] = self.distribution.get(kind, 0) + n

    def disagree(self, inp, impl, model, what="model/implementation disagreement"):
        self.disagreements.append(dict(input=inp, impl=impl, model=model, what=what))

    def oracle_fail(self, inp, observed, expected, what):
        self.oracle_failures.append(dict(input=inp, observed=observed, expected=expected, what=what))


# ----------------------------------------------------------------------------------------------
# Coq driving
# ----------------------------------------------------------------------------------------------

class _Lock:
    def __enter__(self):
        self.f = open(os.path.join(COQ, ".lock"), "w")
        fcntl.flock(self.f, fcntl.LOCK_EX)

    def __exit__(self, *a):
        fcntl.flock(self.f, fcntl.LOCK_UN)
        self.f.close()


def write_if_changed(path, text):
    try:
        with open(path) as f:
            if f.read() == text:
                return False
    except FileNotFoundError:
        pass
    os.makedirs(os.path.dirname(path), exist_ok=True)
    with open(path, "w") as f:
        f.write(text)
    return True


def coq_make(targets, timeout=1500):
    """Full .vo build of the given targets (relative to coq/). Returns (ok, log)."""
    dep = f".depend.{os.getpid()}"
    try:
        p = subprocess.run(
            ["timeout", str(timeout), "make", "-j", str(NCPU), "-k", "DEP=" + dep] + list(targets),
            cwd=COQ, capture_output=True, text=True)
    finally:
        try:
            os.remove(os.path.join(COQ, dep))
        except FileNotFoundError:
            pass
    return p.returncode == 0, p.stdout + p.stderr


def coq_out(target):
    """Captured stdout of compiling a file (Print Assumptions output lives here)."""
    path = os.path.join(COQ, target[:-3] + ".out") if target.endswith(".vo") else os.path.join(COQ, target)
    try:
        return open(path).read()
    except FileNotFoundError:
        return ""


def parse_assumptions(out):
    """Axiom names listed by `Print Assumptions` in a coqc log."""
    axioms = set()
    closed = 0
    for m in re.finditer(r"Closed under the global context", out):
        closed += 1
    for block in re.split(r"\n(?=Axioms:)", out):
        if not block.startswith("Axioms:"):
            continue
        for m in re.finditer(r"^([A-Za-z_][\w\.']*)\s*(?::|$)", block[len("Axioms:"):], re.M):
            axioms.add(m.group(1))
    return sorted(axioms), closed


def count_theorems(vfile):
    """Theorems stated in a Props file = obligations of that file."""
    try:
        txt = open(os.path.join(COQ, vfile)).read()
    except FileNotFoundError:
        return []
    txt = re.sub(r"\(\*.*?\*\)", "", txt, flags=re.S)
    return re.findall(r"^\s*(?:Theorem|Lemma|Corollary|Example)\s+([\w']+)", txt, re.M)


COQ_EVAL_HEADER = "Set Printing Depth 1000000.\nSet Printing Width 100000.\n"


def coq_eval(name, body, timeout=600):
    """Compile coq/Cases/<name>.v (body is the file text) and return coqc's stdout."""
    d = os.path.join(COQ, "Cases")
    os.makedirs(d, exist_ok=True)
    path = os.path.join(d, name + ".v")
    with open(path, "w") as f:
        f.write(COQ_EVAL_HEADER + body)
    p = subprocess.run(
        ["timeout", str(timeout), "coqc", "-Q", COQ, "QV", path],
        capture_output=True, text=True, cwd=d)
    for ext in (".vo", ".vok", ".vos", ".glob", ".aux"):
        try:
            os.remove(path[:-2] + ext)
        except FileNotFoundError:
            pass
    try:
        os.remove(os.path.join(d, "." + name + ".aux"))
    except FileNotFoundError:
        pass
    if p.returncode != 0:
        raise Broken(f"coq-eval:{name}", (p.stdout + p.stderr)[-3000:])
    try:
        os.remove(path)  # keep the case file only when it failed
    except FileNotFoundError:
        pass
    return p.stdout


def coq_eval_many(files, timeout=600):
    """files: list of (name, body). Runs coqc on all in parallel; returns {name: stdout}."""
    from concurrent.futures import ThreadPoolExecutor
    res = {}
    with ThreadPoolExecutor(max_workers=NCPU) as ex:
        futs = {n: ex.submit(coq_eval, n, b, timeout) for n, b in files}
        for n, f in futs.items():
            res[n] = f.result()
    return res


# --- parser for terms printed by `Eval vm_compute in ...` ------------------------------------
_TOK = re.compile(r'\s*(?:("(?:[^"]|"")*")|(-?\d+)|([A-Za-z_][\w\.\']*)|(\S))')


def _tokens(s):
    pos = 0
    out = []
    while pos < len(s):
        m = _TOK.match(s, pos)
        if not m:
            break
        pos = m.end()
        if m.group(1) is not None:
            out.append(("s", m.group(1)[1:-1].replace('""', '"')))
        elif m.group(2) is not None:
            out.append(("n", int(m.group(2))))
        elif m.group(3) is not None:
            out.append(("i", m.group(3)))
        else:
            out.append(("p", m.group(4)))
    return out


class _P:
    def __init__(self, toks):
        self.t = toks
        self.i = 0

    def peek(self):
        return self.t[self.i] if self.i < len(self.t) else ("e", None)

    def eat(self, kind=None, val=None):
        k, v = self.peek()
        if (kind and k != kind) or (val is not None and v != val):
            raise ValueError(f"coq term parse: expected {kind} {val}, got {k} {v} at {self.i}")
        self.i += 1
        return v

    def scope(self):
        while self.peek() == ("p", "%"):
            self.eat()
            self.eat("i")

    def atom(self):
        k, v = self.peek()
        if k == "n":
            self.eat()
            self.scope()
            return v
        if k == "s":
            self.eat()
            self.scope()
            return v
        if k == "p" and v == "-":
            self.eat()
            x = self.atom()
            return -x
        if k == "p" and v == "[":
            self.eat()
            items = []
            if self.peek() != ("p", "]"):
                items.append(self.term())
                while self.peek() == ("p", ";"):
                    self.eat()
                    items.append(self.term())
            self.eat("p", "]")
            self.scope()
            return items
        if k == "p" and v == "(":
            self.eat()
            items = [self.term()]
            while self.peek() == ("p", ","):
                self.eat()
                items.append(self.term())
            self.eat("p", ")")
            self.scope()
            return items[0] if len(items) == 1 else tuple(items)
        if k == "i":
            self.eat()
            if v == "true":
                return True
            if v == "false":
                return False
            return ("C", v)
        raise ValueError(f"coq term parse: unexpected {k} {v} at {self.i}")

    def term(self):
        head = self._term()
        if self.peek() == ("p", "#"):
            self.eat()
            den = self.atom()
            from fractions import Fraction
            return Fraction(head, den)
        return head

    def _term(self):
        head = self.atom()
        if isinstance(head, tuple) and len(head) == 2 and head[0] == "C":
            args = []
            while True:
                k, v = self.peek()
                if k in ("n", "s", "i") or (k == "p" and v in "[("):
                    if k == "i" and v in ("true", "false"):
                        pass
                    args.append(self.atom())
                else:
                    break
            name = head[1]
            if name == "None" and not args:
                return None
            if name == "Some" and len(args) == 1:
                return ("Some", args[0])
            if not args:
                return name
            return (name,) + tuple(a if not (isinstance(a, tuple) and len(a) == 2 and a[0] == "C") else a[1] for a in args)
        return head


def parse_evals(out):
    """All values printed by `Eval ... in` commands of a coqc log, in order."""
    vals = []
    for chunk in re.split(r"^\s*= ", out, flags=re.M)[1:]:
        # strip the trailing `: type` (last top-level colon)
        depth = 0
        cut = None
        instr = False
        for idx, ch in enumerate(chunk):
            if ch == '"':
                instr = not instr
            if instr:
                continue
            if ch in "([":
                depth += 1
            elif ch in ")]":
                depth -= 1
            elif ch == ":" and depth == 0:
                cut = idx
                break
        body = chunk[:cut] if cut is not None else chunk
        p = _P(_tokens(body))
        vals.append(p.term())
    return vals


# --- emitting Coq literals --------------------------------------------------------------------
def cz(n):
    return f"({int(n)})%Z" if n < 0 else f"{int(n)}%Z"


def cnat(n):
    assert 0 <= n < 5000, n
    return f"{int(n)}%nat"


def cbool(b):
    return "true" if b else "false"


def clist(items):
    return "[" + "; ".join(items) + "]"


def cstr(s):
    return '"' + s.replace('"', '""') + '"'


def cq(fr):
    """fractions.Fraction -> Coq Q literal"""
    return f"(Qmake ({fr.numerator}) {fr.denominator})"


# ----------------------------------------------------------------------------------------------
# known findings, replays, evidence
# ----------------------------------------------------------------------------------------------

def load_known(pid):
    """Entries of the committed known-findings file for one property.  known_findings.json is assembled by
    tools/mkfindings.py from the per-property source fragments in known_findings.d/ and is never written at run time;
    the fragments are only read when the assembled file is missing (development)."""
    out = []
    main = os.path.join(VERIF, "known_findings.json")
    paths = [main]
    if not os.path.exists(main):
        d = os.path.join(VERIF, "known_findings.d")
        if os.path.isdir(d):
            paths = [os.path.join(d, f) for f in sorted(os.listdir(d)) if f.endswith(".json")]
    for p in paths:
        try:
            data = json.load(open(p))
        except FileNotFoundError:
            continue
        for e in data.get("findings", []):
            if e.get("property") == pid:
                out.append(e)
    return out


def write_replay(pid, rec):
    os.makedirs(os.path.join(VERIF, "replays"), exist_ok=True)
    blob = json.dumps(rec, sort_keys=True, default=str, indent=1)
    h = hashlib.sha1(blob.encode()).hexdigest()[:10]
    path = os.path.join(VERIF, "replays", f"{pid}-{h}.json")
    with open(path, "w") as f:
        f.write(blob)
    return path


class Ctx:
    def __init__(self, pid, tier, seed):
        self.pid = pid
        self.tier = tier
        self.seed = seed
        self.rng = random.Random(seed * 1000003 + int(hashlib.sha1(pid.encode()).hexdigest()[:6], 16))
        self.thorough = tier == "thorough"
        self.t0 = time.time()
        self.notes = []

    def n(self, quick, thorough):
        return thorough if self.thorough else quick


def jsonable(x):
    try:
        json.dumps(x)
        return x
    except TypeError:
        return json.loads(json.dumps(x, default=str))
