"""Run one seeded change against a check, in a scratch worktree (never in /repo while agents are working).
usage: seedtest.py <seeded dir> <Cxx> [tier]"""
import json, os, subprocess, sys, shutil, time
d, pid = sys.argv[1], sys.argv[2]
tier = sys.argv[3] if len(sys.argv) > 3 else "quick"
name = os.path.basename(os.path.normpath(d))
wt = f"/tmp/st-{name}"
subprocess.run(["git", "-C", "/repo", "worktree", "remove", "--force", wt], capture_output=True)
subprocess.run(["git", "-C", "/repo", "worktree", "add", "--detach", wt], capture_output=True, check=True)
res = {"seed": name, "property": pid}
# the evidence file of the property belongs to runs on /repo itself: keep it across this scratch run
_ev = f"/verif/evidence/{pid}.json"
_ev_saved = open(_ev).read() if os.path.exists(_ev) else None
try:
    shutil.copy("/repo/src/qutip_qip/version.py", wt + "/src/qutip_qip/version.py")
    env = dict(os.environ, PYTHONPATH=wt + "/src", PYTHONHASHSEED="0")
    demo = os.path.abspath(os.path.join(d, "demo.py"))
    p0 = subprocess.run(["/venv/bin/python", "-W", "ignore", demo], env=env, capture_output=True, text=True, cwd=wt)
    res["demo_rc_without"] = p0.returncode
    a = subprocess.run(["git", "-C", wt, "apply", "--3way", os.path.abspath(os.path.join(d, "patch.diff"))], capture_output=True, text=True)
    res["applies"] = a.returncode == 0
    if a.returncode != 0:
        res["apply_err"] = a.stderr[-400:]
    else:
        p1 = subprocess.run(["/venv/bin/python", "-W", "ignore", demo], env=env, capture_output=True, text=True, cwd=wt)
        res["demo_rc_with"] = p1.returncode
        t0 = time.time()
        c = subprocess.run(["./check", pid, tier], env=dict(os.environ, VERIF_REPO=wt), capture_output=True, text=True, cwd="/verif")
        res["check_rc"] = c.returncode
        res["check_wall"] = round(time.time() - t0, 1)
        res["violation_lines"] = [l for l in c.stdout.splitlines() if l.startswith("VIOLATION")][:5]
        res["detected"] = c.returncode == 1 and bool(res["violation_lines"])
        res["concrete"] = any("no-failing-input-found" not in l for l in res["violation_lines"])
        res["tail"] = c.stdout.splitlines()[-3:]
finally:
    subprocess.run(["git", "-C", "/repo", "worktree", "remove", "--force", wt], capture_output=True)
    import hashlib as _h
    shutil.rmtree("/tmp/vcoq-" + _h.sha1(os.path.abspath(wt).encode()).hexdigest()[:10], ignore_errors=True)
    if _ev_saved is not None:
        open(_ev, "w").write(_ev_saved)
json.dump(res, open(os.path.join(d, f"result_{pid}.json"), "w"), indent=1)
print(json.dumps({k: res.get(k) for k in ("seed", "property", "applies", "demo_rc_without", "demo_rc_with", "check_rc", "detected", "concrete", "check_wall")}))
