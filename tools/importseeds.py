"""Import the deliveries of one seeding round: /tmp/seedout-<cxx>r<k>/<i>/ -> /verif/seeded/<Cxx>R<k>-<i>/ (patch.diff, demo.py, meta.json).
usage: importseeds.py <round> [Cxx ...]   (only complete deliveries are imported; existing directories are left alone)"""
import glob, json, os, shutil, sys
rnd = sys.argv[1]
only = [p.upper() for p in sys.argv[2:]]
for d in sorted(glob.glob(f"/tmp/seedout-c*r{rnd}/*")):
    pid = os.path.basename(os.path.dirname(d))[len("seedout-"):].split("r")[0].upper()
    if only and pid not in only:
        continue
    i = os.path.basename(d)
    if not all(os.path.exists(os.path.join(d, f)) for f in ("patch.diff", "demo.py", "meta.json")):
        continue
    dst = f"/verif/seeded/{pid}R{rnd}-{i}"
    if os.path.exists(dst):
        continue
    os.makedirs(dst)
    for f in ("patch.diff", "demo.py", "meta.json"):
        shutil.copy(os.path.join(d, f), os.path.join(dst, f))
    print(dst)
