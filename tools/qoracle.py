"""Independent numeric oracles written from the documentation / property text (never from the repo code).

np_gate(name, args)      documented compact matrix of a library gate (first listed qubit = most significant)
embed(U, qubits, N)      the matrix acting as U on `qubits` (in the listed order) of an N-qubit register
circuit_unitary(gs, N)   ordered product for gates given as (name, qubits(controls+targets), args)
eval_poly / eval_table   numeric value of the KS polynomials printed by Coq
"""
import cmath
import math

import numpy as np

I2 = np.eye(2, dtype=complex)


def _rx(t):
    c, s = math.cos(t / 2), math.sin(t / 2)
    return np.array([[c, -1j * s], [-1j * s, c]])


def _ry(t):
    c, s = math.cos(t / 2), math.sin(t / 2)
    return np.array([[c, -s], [s, c]], dtype=complex)


def _rz(t):
    return np.array([[cmath.exp(-1j * t / 2), 0], [0, cmath.exp(1j * t / 2)]])


def _ctrl(U):
    n = U.shape[0]
    M = np.eye(2 * n, dtype=complex)
    M[n:, n:] = U
    return M


def _perm(p):
    M = np.zeros((len(p), len(p)), dtype=complex)
    for i, j in enumerate(p):
        M[i, j] = 1
    return M


def np_gate(name, args=None):
    a = args
    if a is not None and not isinstance(a, (list, tuple)):
        a = [a]
    X = np.array([[0, 1], [1, 0]], dtype=complex)
    Y = np.array([[0, -1j], [1j, 0]])
    Z = np.array([[1, 0], [0, -1]], dtype=complex)
    S = np.array([[1, 0], [0, 1j]])
    T = np.array([[1, 0], [0, cmath.exp(1j * math.pi / 4)]])
    H = np.array([[1, 1], [1, -1]], dtype=complex) / math.sqrt(2)
    if name == "X": return X
    if name == "Y": return Y
    if name == "Z": return Z
    if name == "S": return S
    if name == "T": return T
    if name in ("H", "SNOT"): return H
    if name == "SQRTNOT": return np.array([[0.5 + 0.5j, 0.5 - 0.5j], [0.5 - 0.5j, 0.5 + 0.5j]])
    if name == "RX": return _rx(a[0])
    if name == "RY": return _ry(a[0])
    if name == "RZ": return _rz(a[0])
    if name == "PHASEGATE": return np.array([[1, 0], [0, cmath.exp(1j * a[0])]])
    if name == "R":
        th, ph = a
        c, s = math.cos(th / 2), math.sin(th / 2)
        return np.array([[c, -1j * cmath.exp(-1j * ph) * s], [-1j * cmath.exp(1j * ph) * s, c]])
    if name == "QASMU":
        th, ph, ga = a
        return _rz(ph) @ _ry(th) @ _rz(ga)
    if name in ("CNOT", "CX"): return _ctrl(X)
    if name == "CY": return _ctrl(Y)
    if name in ("CZ", "CSIGN"): return _ctrl(Z)
    if name == "CS": return _ctrl(S)
    if name == "CT": return _ctrl(T)
    if name == "CRX": return _ctrl(_rx(a[0]))
    if name == "CRY": return _ctrl(_ry(a[0]))
    if name == "CRZ": return _ctrl(_rz(a[0]))
    if name == "CPHASE": return _ctrl(np.array([[1, 0], [0, cmath.exp(1j * a[0])]]))
    if name == "SWAP": return _perm([0, 2, 1, 3])
    if name in ("ISWAP", "iSWAP"):
        return np.array([[1, 0, 0, 0], [0, 0, 1j, 0], [0, 1j, 0, 0], [0, 0, 0, 1]])
    if name == "SQRTSWAP":
        return np.array([[1, 0, 0, 0], [0, 0.5 + 0.5j, 0.5 - 0.5j, 0], [0, 0.5 - 0.5j, 0.5 + 0.5j, 0], [0, 0, 0, 1]])
    if name == "SQRTISWAP":
        r = 1 / math.sqrt(2)
        return np.array([[1, 0, 0, 0], [0, r, 1j * r, 0], [0, 1j * r, r, 0], [0, 0, 0, 1]])
    if name in ("SWAPalpha", "SWAPALPHA"):
        e = cmath.exp(1j * math.pi * a[0])
        return np.array([[1, 0, 0, 0], [0, (1 + e) / 2, (1 - e) / 2, 0], [0, (1 - e) / 2, (1 + e) / 2, 0], [0, 0, 0, 1]])
    if name == "BERKELEY":
        c1, s1, c3, s3 = math.cos(math.pi / 8), math.sin(math.pi / 8), math.cos(3 * math.pi / 8), math.sin(3 * math.pi / 8)
        return np.array([[c1, 0, 0, 1j * s1], [0, c3, 1j * s3, 0], [0, 1j * s3, c3, 0], [1j * s1, 0, 0, c1]])
    if name == "MS":
        th, ph = a
        c, s = math.cos(th / 2), math.sin(th / 2)
        return np.array([[c, 0, 0, -1j * cmath.exp(-2j * ph) * s], [0, c, -1j * s, 0], [0, -1j * s, c, 0],
                         [-1j * cmath.exp(2j * ph) * s, 0, 0, c]])
    if name == "RZX":
        c, s = math.cos(a[0] / 2), math.sin(a[0] / 2)
        return np.array([[c, -1j * s, 0, 0], [-1j * s, c, 0, 0], [0, 0, c, 1j * s], [0, 0, 1j * s, c]])
    if name == "TOFFOLI": return _perm([0, 1, 2, 3, 4, 5, 7, 6])
    if name == "FREDKIN": return _perm([0, 1, 2, 3, 4, 6, 5, 7])
    if name == "IDLE": return I2.copy()
    raise KeyError(name)


N_PARAMS = {"RX": 1, "RY": 1, "RZ": 1, "PHASEGATE": 1, "R": 2, "QASMU": 3, "CRX": 1, "CRY": 1, "CRZ": 1, "CPHASE": 1,
            "SWAPalpha": 1, "SWAPALPHA": 1, "MS": 2, "RZX": 1, "GLOBALPHASE": 1}
N_QUBITS = {"X": 1, "Y": 1, "Z": 1, "S": 1, "T": 1, "H": 1, "SNOT": 1, "SQRTNOT": 1, "RX": 1, "RY": 1, "RZ": 1, "PHASEGATE": 1,
            "R": 1, "QASMU": 1, "IDLE": 1, "CNOT": 2, "CX": 2, "CY": 2, "CZ": 2, "CSIGN": 2, "CS": 2, "CT": 2, "CRX": 2, "CRY": 2,
            "CRZ": 2, "CPHASE": 2, "SWAP": 2, "ISWAP": 2, "iSWAP": 2, "SQRTSWAP": 2, "SQRTISWAP": 2, "SWAPalpha": 2,
            "SWAPALPHA": 2, "BERKELEY": 2, "MS": 2, "RZX": 2, "TOFFOLI": 3, "FREDKIN": 3}
N_CONTROLS = {"CNOT": 1, "CX": 1, "CY": 1, "CZ": 1, "CSIGN": 1, "CS": 1, "CT": 1, "CRX": 1, "CRY": 1, "CRZ": 1, "CPHASE": 1,
              "TOFFOLI": 2, "FREDKIN": 1}


def embed(U, qubits, N):
    """U acts on `qubits` (listed order = significance order of U's index), identity elsewhere; qubit 0 = most significant."""
    k = len(qubits)
    U = np.asarray(U, dtype=complex)
    assert U.shape == (2 ** k, 2 ** k), (U.shape, k)
    T = U.reshape([2] * (2 * k))
    full = np.eye(2 ** N, dtype=complex).reshape([2] * (2 * N))
    # out[rows..., cols...] = sum over the target column axes
    row_axes = list(qubits)
    res = np.tensordot(T, full, axes=(list(range(k, 2 * k)), row_axes))
    # tensordot puts T's row axes first, then the remaining axes of `full` in order
    rest = [ax for ax in range(2 * N) if ax not in row_axes]
    order = [None] * (2 * N)
    for i, qb in enumerate(qubits):
        order[qb] = i
    for j, ax in enumerate(rest):
        order[ax] = k + j
    res = np.transpose(res, order)
    return res.reshape(2 ** N, 2 ** N)


def circuit_unitary(gates, N):
    """gates: list of (name, qubits, args) applied in order (first applied first); GLOBALPHASE has qubits []."""
    U = np.eye(2 ** N, dtype=complex)
    for name, qubits, args in gates:
        if name == "GLOBALPHASE":
            a = args[0] if isinstance(args, (list, tuple)) else args
            U = cmath.exp(1j * a) * U
            continue
        U = embed(np_gate(name, args), list(qubits), N) @ U
    return U


def gate_tuple(g):
    """(name, controls+targets, args) of a qutip_qip Gate object"""
    qs = list(g.controls or []) + list(g.targets or [])
    return (g.name, qs, g.arg_value)


# ---- numeric value of KS polynomials -----------------------------------------------------------
def eval_poly(terms, thetas):
    """terms: list of (c, h, u, [z exponents]); atom 2j = e^{i theta_j/4}, atom 2j+1 = e^{i pi theta_j/4}, u = e^{i pi/16}"""
    tot = 0j
    for c, h, u, zs in terms:
        ang = math.pi * u / 16
        for idx, e in enumerate(zs):
            if e == 0:
                continue
            th = thetas[idx // 2] if idx // 2 < len(thetas) else 0.0
            ang += e * (th / 4 if idx % 2 == 0 else math.pi * th / 4)
        tot += c / (2 ** h) * cmath.exp(1j * ang)
    return tot


def eval_table(tab, thetas):
    return np.array([[eval_poly(e, thetas) for e in row] for row in tab], dtype=complex)
