"""Driver: ./check <Cxx> [quick|thorough] | ./check <Cxx> --replay <file> | ./check --setup | ./check --audit"""
import importlib
import json
import os
import re
import subprocess
import sys
import time
import traceback

sys.path.insert(0, os.path.dirname(os.path.abspath(__file__)))
import common  # noqa: E402
from common import Broken, Corr, Ctx, VERIF, COQ  # noqa: E402

ALL = ["C%02d" % i for i in range(1, 21)]

BASE_TRUST = [
    "Coq 8.16.1 kernel (coqc full .vo build, vm_compute used, native_compute not used)",
    "no Axiom/Parameter/Admitted declared by this development (audited by `./check --audit`)",
    "correspondence harness (tools/props/*.py) and, where used, the fail-closed Python-ast translators (tools/translate/*.py)",
]


def load(pid):
    try:
        return importlib.import_module("props." + pid.lower())
    except ModuleNotFoundError as e:
        if "props." in str(e):
            return None
        raise


def closure(targets):
    """.v files the given targets depend on (transitively), via coqdep"""
    allv = []
    for root, _, files in os.walk(COQ):
        if root.endswith("Cases"):
            continue
        allv += [os.path.relpath(os.path.join(root, f), COQ) for f in files if f.endswith(".v")]
    p = subprocess.run(["coqdep", "-Q", ".", "QV"] + allv, cwd=COQ, capture_output=True, text=True)
    deps = {}
    for line in p.stdout.splitlines():
        if ":" not in line:
            continue
        lhs, rhs = line.split(":", 1)
        vo = [x for x in lhs.split() if x.endswith(".vo")]
        if not vo:
            continue
        deps[vo[0]] = [x for x in rhs.split() if x.endswith(".vo")]
    seen, todo = set(), list(targets)
    while todo:
        t = todo.pop()
        if t in seen:
            continue
        seen.add(t)
        todo += deps.get(t, [])
    return {t[:-1] for t in seen}


def audit(only=None):
    """Hygiene: no admits, axioms, disabled checks (development-wide, or restricted to the files in `only`)."""
    bad = []
    pat = re.compile(r"\b(Admitted|admit|Axiom|Axioms|Parameter|Parameters|Conjecture|Admit Obligations|bypass_check|Unset Guard Checking|Unset Positivity Checking|Unset Universe Checking|type-in-type|impredicative-set)\b")
    for root, _, files in os.walk(COQ):
        if root.endswith("Cases"):
            continue
        for f in files:
            if not f.endswith(".v"):
                continue
            if only is not None and os.path.relpath(os.path.join(root, f), COQ) not in only:
                continue
            txt = open(os.path.join(root, f)).read()
            code = re.sub(r"\(\*.*?\*\)", "", txt, flags=re.S)
            for m in pat.finditer(code):
                bad.append(f"{os.path.relpath(os.path.join(root, f), COQ)}: {m.group(0)}")
            # Variable/Hypothesis outside a section
            depth = 0
            for line in code.splitlines():
                s = line.strip()
                if re.match(r"Section\s", s):
                    depth += 1
                elif re.match(r"End\s", s) and depth > 0:
                    depth -= 1
                elif depth == 0 and re.match(r"(Variable|Variables|Hypothesis|Hypotheses|Context)\b", s):
                    bad.append(f"{f}: {s[:40]} outside section")
    return bad


def claimed():
    """property ids with a fragment in tools/manifest.d (= the checks registered in MANIFEST.json)"""
    d = os.path.join(VERIF, "tools", "manifest.d")
    return sorted(f[:-5] for f in os.listdir(d) if f.endswith(".json"))


def setup():
    """Regenerate Gen/*.v from /repo and build the Coq targets of every CLAIMED check (full .vo)."""
    t0 = time.time()
    targets = []
    for pid in claimed():
        mod = load(pid)
        if mod is None:
            continue
        if hasattr(mod, "generate"):
            try:
                mod.generate(Ctx(pid, "quick", 0))
            except Exception as e:  # setup never fails on a translator refusal; the check reports it
                print(f"[setup] generate {pid}: {e}")
        targets += [t for t in getattr(mod, "TARGETS", []) if t not in targets]
    ok, log = common.coq_make(targets, timeout=3000)
    print(log[-3000:])
    print(f"[setup] {len(targets)} coq targets for {len(claimed())} checks, ok={ok}, {time.time()-t0:.0f}s")
    return 0 if ok else 1


def first_failing(log):
    m = re.search(r'File "\./?([^"]+)", line (\d+)', log)
    return (m.group(1) + ":" + m.group(2)) if m else "unknown"


def run(pid, tier, seed):
    mod = load(pid)
    if mod is None:
        print(f"no check for {pid}")
        return 2
    ctx = Ctx(pid, tier, seed)
    broken = []      # (obligation, detail)
    violations = []  # failure dicts with concrete inputs
    known = common.load_known(pid)
    open_keys = {k["key"]: k for k in known if k.get("status", "open") == "open"}
    known_hits = {}

    def classify(f):
        key = mod.classify(f) if hasattr(mod, "classify") else None
        if key is not None and key in open_keys:
            known_hits.setdefault(key, f)
            return True
        return False

    # 1. regenerate Gen/*.v from the current sources
    if hasattr(mod, "generate"):
        try:
            mod.generate(ctx)
        except Broken as b:
            broken.append((b.obligation, b.detail))
        except Exception:
            broken.append(("translator:" + pid, traceback.format_exc()[-1500:]))

    # 2. proofs
    targets = list(getattr(mod, "TARGETS", []))
    ok, log = common.coq_make(targets, timeout=ctx.n(900, 3000))
    thms = []
    for t in targets:
        thms += common.count_theorems(t[:-1])  # .vo -> .v
    extra_obl = mod.obligations(ctx) if hasattr(mod, "obligations") else 0
    obligations = len(thms) + extra_obl
    discharged = obligations if ok else 0
    axioms = set()
    closed = 0
    for t in targets:
        a, c = common.parse_assumptions(common.coq_out(t))
        axioms.update(a)
        closed += c
    if not ok:
        broken.append(("proof:" + first_failing(log), log[-2500:]))

    # 3. correspondence (model vs implementation) and the property oracle on the same inputs
    corr = Corr()
    try:
        corr = mod.correspond(ctx)
    except Broken as b:
        broken.append((b.obligation, b.detail))
    except Exception:
        broken.append(("correspondence-harness:" + pid, traceback.format_exc()[-2500:]))
    for d in corr.disagreements[:50]:
        broken.append(("correspondence:" + d.get("what", ""), d))
    for f in corr.oracle_failures:
        if not classify(f):
            violations.append(f)

    # 4. search for a concrete failing input when an obligation broke
    if broken and not violations and hasattr(mod, "search"):
        try:
            for f in (mod.search(ctx, broken) or []):
                if not classify(f):
                    violations.append(f)
        except Exception:
            ctx.notes.append("search crashed: " + traceback.format_exc()[-800:])

    # 5. replay the recorded open findings
    lines = []
    for key, k in open_keys.items():
        still = None
        if hasattr(mod, "replay") and "witness" in k:
            try:
                still = mod.replay(ctx, k["witness"])
            except Exception:
                still = None
                ctx.notes.append(f"replay of {key} crashed: " + traceback.format_exc()[-500:])
        if still or key in known_hits:
            lines.append(f"KNOWN-FINDING: property={pid} {k.get('what', key)}")
        else:
            ctx.notes.append(f"known finding {key} did not reproduce in this run")

    # 6. thorough extras
    audit_bad = []
    chk = ""
    if ctx.thorough:
        audit_bad = audit(only=closure(targets))
        if audit_bad:
            broken.append(("audit", audit_bad[:20]))
        if ok and targets and os.environ.get("VERIF_NO_COQCHK") != "1":
            mods = ["QV." + t[:-3].replace("/", ".") for t in targets]
            p = subprocess.run(["timeout", "1500", "coqchk", "-silent", "-o", "-Q", COQ, "QV"] + mods,
                               capture_output=True, text=True, cwd=COQ)
            chk = (p.stdout + p.stderr)[-3000:]
            if p.returncode != 0:
                broken.append(("coqchk", chk))

    # 7. decide
    rc = 0
    out_lines = []
    reported = 0
    if violations:
        # group by classification key so that one defect gives one line
        seen = set()
        for f in violations:
            key = (mod.classify(f) if hasattr(mod, "classify") else None) or json.dumps(f.get("what", ""))
            if key in seen:
                continue
            seen.add(key)
            rec = dict(property=pid, kind="failing-input", what=f.get("what"), input=f.get("input"),
                       observed=f.get("observed"), expected=f.get("expected"),
                       broken_obligations=[b[0] for b in broken][:10], seed=seed, tier=tier)
            path = common.write_replay(pid, common.jsonable(rec))
            out_lines.append(f"VIOLATION property={pid} replay={path}")
            reported += 1
            if reported >= 5:
                break
        rc = 1
    elif broken:
        rec = dict(property=pid, kind="obligation-broken", obligations=[b[0] for b in broken][:20],
                   details=common.jsonable([b[1] for b in broken][:5]), seed=seed, tier=tier,
                   note="no concrete failing input was found; the named theorem/correspondence no longer checks")
        path = common.write_replay(pid, rec)
        out_lines.append(f"VIOLATION property={pid} replay={path} no-failing-input-found")
        rc = 1

    wall = time.time() - ctx.t0
    trusted = BASE_TRUST + list(getattr(mod, "TRUSTED", []))
    trusted.append("axioms reported by Print Assumptions: " + (", ".join(sorted(axioms)) if axioms else "none (closed under the global context)"))
    cov = dict(
        obligations=max(obligations, 1), discharged=max(discharged, 0) if not ok else max(obligations, 1),
        checker_cmd=f"make -C coq {' '.join(targets)}  (coqc full .vo; Print Assumptions under every property theorem)"
                    + ("; coqchk -o" if ctx.thorough else ""),
        trusted_base=trusted,
        theorems=thms,
        evaluations=corr.evaluations, distinct_nontrivial=len(corr.nontrivial), rule=corr.rule,
        samples=common.jsonable(corr.samples[:5]) or ["(no correspondence case ran)"],
        input_distribution=corr.distribution,
        disagreements=len(corr.disagreements), oracle_failures=len(corr.oracle_failures),
        known_findings_reproduced=sorted(k for k in open_keys if k in known_hits or any(k in l for l in lines)),
        broken_obligations=[b[0] for b in broken][:20],
        notes=ctx.notes, extra=common.jsonable(corr.extra),
    )
    if chk:
        cov["coqchk_tail"] = chk[-1500:]
    ev = dict(property_id=pid, tier=tier, seed=seed, level="proof", coverage=cov,
              assumptions=list(getattr(mod, "ASSUMES", [])), wall_s=round(wall, 2), violations=len(out_lines))
    os.makedirs(os.path.join(VERIF, "evidence"), exist_ok=True)
    with open(os.path.join(VERIF, "evidence", pid + ".json"), "w") as f:
        json.dump(ev, f, indent=1, sort_keys=True, default=str)
    for l in lines + out_lines:
        print(l)
    print(f"[{pid}] tier={tier} seed={seed} obligations={obligations} discharged={cov['discharged']} "
          f"cases={corr.evaluations} nontrivial={len(corr.nontrivial)} disagreements={len(corr.disagreements)} "
          f"oracle_failures={len(corr.oracle_failures)} broken={len(broken)} wall={wall:.1f}s rc={rc}")
    if broken:
        for b in broken[:5]:
            print("  broken:", b[0], "::", str(b[1])[:600].replace("\n", "\n    "))
    return rc


def do_replay(pid, path):
    mod = load(pid)
    rec = json.load(open(path))
    ctx = Ctx(pid, "quick", rec.get("seed", 0))
    if rec.get("kind") != "failing-input" or not hasattr(mod, "replay"):
        print(f"replay names broken obligations only: {rec.get('obligations')}")
        return 1
    still = mod.replay(ctx, rec)
    print(f"replay {path}: {'still fails' if still else 'passes now'}")
    if still:
        print(f"VIOLATION property={pid} replay={path}")
    return 1 if still else 0


def main(argv):
    if not argv:
        print(__doc__)
        return 2
    if argv[0] == "--setup":
        return setup()
    if argv[0] == "--audit":
        bad = audit()
        print("\n".join(bad) if bad else "audit clean")
        return 1 if bad else 0
    pid = argv[0].upper()
    if len(argv) >= 3 and argv[1] == "--replay":
        return do_replay(pid, argv[2])
    tier = argv[1] if len(argv) > 1 else os.environ.get("VERIF_TIER", "quick")
    if tier not in ("quick", "thorough"):
        tier = "quick"
    seed = int(os.environ.get("VERIF_SEED", "0") or 0)
    return run(pid, tier, seed)


if __name__ == "__main__":
    sys.exit(main(sys.argv[1:]))
