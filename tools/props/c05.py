"""C05 -- gate scheduling preserves the circuit's unitary and qubit exclusivity (scheduler.py).

Shares Model/Sched.v and the runner/generators with C11 (tools/props/c11.py).
"""
import itertools
import json
from fractions import Fraction

import numpy as np

from common import Corr, Broken, coq_eval_many, parse_evals, cbool, clist, cnat, cstr, cq, VERIF
from props import c11 as S

ID = "C05"
TARGETS = ["Props/C05.vo"]
TRUSTED = [
    "Model/Sched.v is a hand-written Gallina model of scheduler.py, tied to the code by exact comparison of the "
    "returned cycle lists / cycle indices (<= 8 gates, random.shuffle replaced by recorded permutations fed to both "
    "sides) and of Scheduler.commutation_rules on pairs of placed library gates; the model is HISTORY-FREE: short histories "
    "(2-4 different circuits scheduled in a row by ONE Scheduler object, both methods, cycles/indices, repeat_num) are run "
    "and every call is compared with the model and the oracle, so state kept on the Scheduler object must not leak",
    "CPython iterates a set of distinct ints < 8 in ascending order (exact tie only; theorems quantify over all orders)",
    "sched_sem is proved for an ABSTRACT gate action `act`: (H1) gates on disjoint qubits commute, (H2) gates declared "
    "commuting by the commutation predicate commute.  H1/H2 are PROVED (Proofs/SchedReal.v, Found/Shift.v: real_H1, real_H2, "
    "sched_sem_unitary) for the matrices of Gen/Gates.v (`dispatch`, and `class_mat` via `class_map` for the names without "
    "a dispatch entry: H, iSWAP, SWAPALPHA, MS, CX, RZX; translator tools/translate/gates_tr.py, regenerated on every run, "
    "see C09) embedded by Found.Base.app on controls ++ targets, in every phase ring, for all parameter values "
    "(independent values for the two gates), with the fixed commutation_rules; trusted there: the hand-written arity table "
    "name -> (#controls, #targets, #parameters) of SchedReal.v (proved to cover every name of dispatch and class_map), an "
    "instruction that is ill-formed for its name (unknown name, wrong number of controls/targets, repeated qubit, a gate "
    "with >= 2 parameters carrying another number of arguments) acts as the identity, argument lists are identified up to "
    "equality of rationals; the model's instr carries the qubits the gate's MATRIX treats as controls / targets (first nc of "
    "controls ++ targets; harness: c11.canon_roles, an independent copy of scheduler._NUM_CONTROLS), sorted for the library "
    "names - which keeps the unitary because every two-target / two-control matrix is invariant under exchanging them "
    "(act_real_target_order / act_real_control_order, proved) - and in the listed order for RZX and user-defined names; "
    "every gate of the sweep the library gives a unitary to (incl. targets-only TOFFOLI/FREDKIN, plain Gate objects with "
    "any division into controls/targets) is checked to be well formed for act_real (wf_sweep), user-defined gates are "
    "outside act_real (identity) and commute by rule only with identical copies.  The harness additionally checks "
    "H2 numerically: commutator sweep over all pairs of placed library gates on 3 qubits and unitary comparison of every "
    "scheduled circuit",
    "generate_dependency_graph modelled qubit by qubit (loop interchange); gate attributes as in C11",
    "the model describes /repo with fixes/C05-commutation-rules.diff and fixes/C05-role-order.diff applied (shipped rules = commutation_rules_orig)",
]
ASSUMES = [
    "every gate uses at least one qubit (a list of GLOBALPHASE gates only raises ValueError in the shipped code)",
    "hardware constraint = qubit_constraint, alone or in a constraint_functions list (any position) together with functions it "
    "implies (the list is a conjunction; exact tie); lists with a genuinely stricter function are checked by the oracle only "
    "(every listed function respected inside a cycle); public attributes re-assigned after construction / between calls are "
    "compared with the history-free model at the values in force at the call",
]


def generate(ctx):
    """Props/C05.v instantiates sched_sem at the real gate matrices of Gen/Gates.v (regenerated here)."""
    from translate import gates_tr
    gates_tr.generate()


# --------------------------------------------------------------------------------------------------
def circuit_unitary(specs, order, N):
    U = np.eye(2 ** N, dtype=complex)
    for i in order:
        U = S.gate_unitary(specs[i], N) @ U
    return U


def oracle_cycles(inp, cycles):
    """property text on the real output (a list of cycles); None if fine"""
    specs = inp["instrs"]
    n = len(specs)
    flat = [i for c in cycles for i in c]
    if sorted(flat) != list(range(n)):
        return ("gates are not placed in exactly one cycle each", dict(cycles=cycles))
    qs = [set(S.spec_qubits(s)) for s in specs]
    for c in cycles:
        used = [q for i in c for q in qs[i]]
        if len(used) != len(set(used)):
            return ("two gates in one cycle share a qubit", dict(cycle=c))
    cv = S.cons_violation(inp, cycles)
    if cv:
        return ("two gates in one cycle are forbidden to run in parallel by a listed hardware constraint", cv)
    pos = {}
    for ci, c in enumerate(cycles):
        for i in c:
            pos[i] = ci
    if not inp["perm"]:
        for i in range(n):
            for j in range(i + 1, n):
                if qs[i] & qs[j] and not pos[i] < pos[j]:
                    return ("allow_permutation=False but gates sharing a qubit changed their relative order", dict(i=i, j=j, cycles=cycles))
    N = max([q for s in qs for q in s] + [0]) + 1
    if N <= 6 and n > 0:
        U0 = circuit_unitary(specs, range(n), N)
        U1 = circuit_unitary(specs, flat, N)
        if not np.allclose(U0, U1, atol=1e-9):
            return ("scheduled order has a different unitary", dict(order=flat, maxdiff=float(np.abs(U0 - U1).max())))
    return None


def cycles_from_indices(idx):
    if not idx:
        return []
    cyc = [[] for _ in range(max(idx) + 1)]
    for i, c in enumerate(idx):
        cyc[c].append(i)
    return cyc


# --------------------------------------------------------------------------------------------------
# commutation_rules on pairs
# --------------------------------------------------------------------------------------------------
def placed_gates(N, angles=(0.5, 1.25)):
    out = []
    for q in range(N):
        for k in S.ONE_Q:
            out.append(dict(name=k, targets=[q], controls=None, arg=None))
        for k in S.ONE_Q_ARG:
            for a in angles:
                out.append(dict(name=k, targets=[q], controls=None, arg=a))
        for a in ([0.5, 0.25], [0.5, 1.25]):
            out.append(dict(name="R", targets=[q], controls=None, arg=list(a)))
        for a in ([0.5, 0.25, 0.75], [0.5, 1.25, 0.75]):
            out.append(dict(name="QASMU", targets=[q], controls=None, arg=list(a)))
    for c, t in itertools.permutations(range(N), 2):
        for k in S.TWO_Q_CTRL:
            out.append(dict(name=k, targets=[t], controls=[c], arg=None))
        for k in S.TWO_Q_CTRL_ARG:
            for a in angles:
                out.append(dict(name=k, targets=[t], controls=[c], arg=a))
    for a, b in itertools.combinations(range(N), 2):
        for k in S.TWO_Q_SYM:
            out.append(dict(name=k, targets=[a, b], controls=None, arg=None))
        for k in ("SWAPalpha", "RZX"):
            for x in angles:
                out.append(dict(name=k, targets=[a, b], controls=None, arg=x))
        for x in ([0.5, 0.25], [0.5, 1.25]):
            out.append(dict(name="MS", targets=[a, b], controls=None, arg=list(x)))
    if N >= 3:
        for t in range(N):
            for cs in itertools.combinations([q for q in range(N) if q != t], 2):
                out.append(dict(name="TOFFOLI", targets=[t], controls=list(cs), arg=None))
        for c in range(N):
            for ts in itertools.combinations([q for q in range(N) if q != c], 2):
                out.append(dict(name="FREDKIN", targets=list(ts), controls=[c], arg=None))
    return out


def role_forms(N, angles=(0.5,)):
    """the same library gates given with an unusual division of their qubits into controls and targets (accepted by the
    library; the matrix acts on controls ++ targets in the listed order), permuted targets of the non-symmetric RZX, and a
    user-defined two-qubit gate"""
    out = []
    for a, b in itertools.permutations(range(N), 2):
        for k in S.TWO_Q_CTRL:                       # Gate("CNOT", targets=[c, t]) : control = first listed qubit
            out.append(dict(name=k, targets=[a, b], controls=None, arg=None, generic=True))
        for k in S.TWO_Q_CTRL_ARG:
            for x in angles:
                out.append(dict(name=k, targets=[a, b], controls=None, arg=x, generic=True))
        out.append(dict(name="CNOT", targets=[], controls=[a, b], arg=None, generic=True))
        out.append(dict(name="SWAP", targets=[b], controls=[a], arg=None, generic=True))
        for x in angles:
            out.append(dict(name="RZX", targets=[a, b], controls=None, arg=x))
            out.append(dict(name=S.USER_GATE, targets=[a, b], controls=None, arg=x))
            out.append(dict(name=S.USER_GATE, targets=[b], controls=[a], arg=x))
    if N >= 3:
        for q in itertools.permutations(range(N), 3):
            for k in ("TOFFOLI", "FREDKIN"):
                out.append(dict(name=k, targets=list(q), controls=None, arg=None))                 # class, targets only
                out.append(dict(name=k, targets=list(q[1:]), controls=[q[0]], arg=None))           # class, 1 + 2
                out.append(dict(name=k, targets=[q[2]], controls=list(q[:2]), arg=None, generic=True))   # Gate object, 2 + 1
    return out


_FORMS = {}


def rand_role_form(rng, N):
    N = min(N, 4)
    if N not in _FORMS:
        _FORMS[N] = role_forms(N)
    g = dict(rng.choice(_FORMS[N]))
    if g["arg"] is not None:
        g["arg"] = rng.choice(S.ANGLES)
    return g


def gen_role_input(rng, nmax):
    """circuits mixing unusual role divisions with the ordinary forms of the same gates"""
    N = rng.choice([2, 3, 3, 4])
    n = rng.randint(2, nmax)
    kinds = ["CNOT", "CNOT", "X", "RX", "Z", "RZ", "TOFFOLI", "FREDKIN", "RZX", "CZ", "CRX", "SWAP"]
    specs = [rand_role_form(rng, N) if rng.random() < 0.6 else S.rand_gate(rng, N, kinds) for _ in range(n)]
    sprinkle_phase(rng, specs)
    return dict(instrs=specs, method=rng.choice(["ASAP", "ALAP"]), perm=rng.random() < 0.85, random=rng.random() < 0.3,
                shuf_seed=rng.randrange(10 ** 6), mode=rng.choice(["cycles", "cycles", "indices"]),
                **{"as": rng.choice(["circuit", "gates"])})


def has_unitary(spec):
    try:
        S.gate_unitary(spec, max(S.spec_qubits(spec) + [0]) + 1)
        return True
    except Exception:  # noqa
        return False


def wf_sweep(corr, gates):
    """a gate the library gives a unitary to must be well formed for the Coq semantics act_real (otherwise real_H2 /
    sched_sem_unitary would treat it as the identity and say nothing about it)"""
    uniq = {}
    for g in gates:
        if g["name"] not in (S.USER_GATE, S.USER_LIST_GATE):
            uniq.setdefault(json.dumps(g, sort_keys=True), g)
    gs = list(uniq.values())
    body = (S.COQ_PRELUDE + "From QV Require Import Proofs.SchedReal.\n" + "\n".join(
        "Eval vm_compute in (match wf_instr %s with Some _ => true | None => false end)." % S.cinstr(dict(g, dur=[1, 1]))
        for g in gs) + "\n")
    vals = parse_evals(coq_eval_many([("c05wf", body)])["c05wf"])
    if len(vals) != len(gs):
        raise Broken("coq-eval:c05wf", "wrong number of values")
    for g, v in zip(gs, vals):
        corr.tally("wf-gate")
        u = has_unitary(g)
        if u and v is not True:
            corr.disagree(dict(instrs=[g], mode="wf"), "the library gives the gate a unitary", v,
                          "gate with a unitary is ill-formed for act_real (SchedReal.wf_instr): the theorem would not cover it")
    corr.extra["wf_gates"] = len(gs)


_INSTR = {}


def _instruction_of(spec):
    """one Instruction object per distinct placed gate (commutation_rules only reads them)"""
    k = json.dumps(spec, sort_keys=True)
    if k not in _INSTR:
        _INSTR[k] = S.mk_instruction(dict(spec, dur=[1, 1]))
    return _INSTR[k]


def real_rule(s1, s2):
    from qutip_qip.compiler import Scheduler
    ins = [_instruction_of(s1), _instruction_of(s2)]
    return bool(Scheduler("ASAP").commutation_rules(0, 1, ins))


def rule_sweep(ctx, corr):
    rng = ctx.rng
    N = 3
    gates = placed_gates(N) if ctx.thorough else placed_gates(N, angles=(0.5,))
    pairs = [(a, b) for a in gates for b in gates if set(S.spec_qubits(a)) & set(S.spec_qubits(b))]
    # 4-qubit FREDKIN/TOFFOLI pairs (overlapping targets need 4 qubits for distinct pairs)
    g4 = [g for g in placed_gates(4, angles=(0.5,)) if g["name"] in ("FREDKIN", "TOFFOLI")]
    pairs += [(a, b) for a in g4 for b in g4 if a["name"] == b["name"]]
    # unusual role divisions / permuted targets / user gates: against every gate of the same name, every gate of the
    # CNOT-X-Z rule family, and a sample of the rest
    forms = role_forms(N, angles=(0.5, 1.25) if ctx.thorough else (0.5,))
    family = ("CNOT", "X", "RX", "Z", "RZ")
    for a in forms:
        for b in gates + forms:
            if set(S.spec_qubits(a)) & set(S.spec_qubits(b)) and (a["name"] == b["name"] or a["name"] in family or b["name"] in family):
                pairs.append((a, b))
                if b in gates:
                    pairs.append((b, a))
    others = [(a, b) for a in forms for b in gates if set(S.spec_qubits(a)) & set(S.spec_qubits(b))]
    pairs += rng.sample(others, min(len(others), ctx.n(600, 4000)))
    f4 = [g for g in role_forms(4) if g["name"] in ("FREDKIN", "TOFFOLI")]
    pairs += rng.sample([(a, b) for a in f4 for b in f4 + g4 if a["name"] == b["name"]], ctx.n(600, 4000))
    pairs = [tuple(i["instrs"]) for i in S.load_corpus("C05") if i.get("mode") == "rule"] + pairs
    items = []
    for a, b in pairs:
        r = real_rule(a, b)
        items.append((a, b, r))
        corr.tally("rule-pair")
        inp = dict(instrs=[a, b], mode="rule")
        corr.count(S.key_of(inp), nontrivial=True)
        if r:
            Nq = max(S.spec_qubits(a) + S.spec_qubits(b)) + 1
            if not S.gates_commute(a, b, Nq):
                corr.oracle_fail(inp, "commutation_rules returns True", "the two gates do not commute (numerical commutator != 0)",
                                 "commutation_rules declares two non-commuting gates commuting")
    # model side
    files = []
    chunk = 500
    for k in range(0, len(items), chunk):
        body = S.COQ_PRELUDE + "\n".join(
            "Eval vm_compute in (commutation_rules %s %s)." % (S.cinstr(dict(a, dur=[1, 1])), S.cinstr(dict(b, dur=[1, 1])))
            for a, b, _ in items[k:k + chunk]) + "\n"
        files.append((f"c05rule_{k // chunk}", body))
    outs = coq_eval_many(files)
    for k in range(0, len(items), chunk):
        vals = parse_evals(outs[f"c05rule_{k // chunk}"])
        part = items[k:k + chunk]
        if len(vals) != len(part):
            raise Broken("coq-eval:c05rule", "wrong number of values")
        for (a, b, r), v in zip(part, vals):
            if v != r:
                corr.disagree(dict(instrs=[a, b], mode="rule"), r, v, "commutation_rules model vs Scheduler.commutation_rules")
    corr.extra["rule_pairs"] = len(items)
    wf_sweep(corr, gates + forms + g4 + f4 + [dict(name="GLOBALPHASE", targets=None, controls=None, arg=0.5)])


# --------------------------------------------------------------------------------------------------
def sprinkle_phase(rng, specs, p=0.25, maxlen=8):
    """with probability p put one or two GLOBALPHASE gates (no qubit at all, e.g. from resolve_gates) somewhere into the
    gate list - also in front of everything; the list keeps at most maxlen gates (exact comparison needs <= 8)"""
    if rng.random() < p:
        k = rng.choice([1, 1, 2])
        del specs[max(1, maxlen - k):]
        for _ in range(k):
            specs.insert(rng.randint(0, len(specs)), dict(name="GLOBALPHASE", targets=None, controls=None, arg=rng.choice(S.ANGLES)))
    return specs


PARAM_ALPHABET = [0.5, 1.25]     # small on purpose: equal-prefix / equal-suffix / fully equal parameter tuples occur often


def gen_multiparam(rng):
    """same-name gates with SEVERAL parameters (QASMU, R, MS, a user gate with a list argument) on the same targets,
    adjacent and separated by other gates, parameter tuples over a two-letter alphabet"""
    N = rng.choice([1, 2, 2, 3])
    n = rng.randint(2, 6)
    fams = ["QASMU", "QASMU", "QASMU", S.USER_LIST_GATE, "R"] + (["MS"] if N >= 2 else [])
    fam = rng.choice(fams)
    a = lambda: rng.choice(PARAM_ALPHABET)
    pair = sorted(rng.sample(range(N), 2)) if N >= 2 else None
    q0 = rng.randrange(N)
    specs = []
    for _ in range(n):
        if rng.random() < 0.75:
            if fam == "MS":
                specs.append(dict(name="MS", targets=list(pair), controls=None, arg=[a(), a()]))
            elif fam == "R":
                specs.append(dict(name="R", targets=[q0], controls=None, arg=[a(), a()]))
            else:
                specs.append(dict(name=fam, targets=[q0], controls=None, arg=[a(), a(), a()]))
        elif N >= 2:
            specs.append(S.rand_gate(rng, N, ["X", "RZ", "CNOT", "SNOT", "QASMU", "R"]))
        else:
            specs.append(dict(name=rng.choice(["X", "Z", "SNOT"]), targets=[0], controls=None, arg=None))
    sprinkle_phase(rng, specs, 0.15)
    return dict(instrs=specs, method=rng.choice(["ASAP", "ALAP"]), perm=rng.random() < 0.9, random=rng.random() < 0.35,
                shuf_seed=rng.randrange(10 ** 6), mode=rng.choice(["cycles", "cycles", "indices"]),
                **{"as": rng.choice(["circuit", "gates"])})


def gen_gate_input(rng, nmax, N=None, kinds=None):
    inp = S.gen_input(rng, nmax, N=N, mode=rng.choice(["cycles", "cycles", "indices"]), kinds=kinds)
    for s in inp["instrs"]:
        s.pop("dur", None)
        s.pop("how", None)
    sprinkle_phase(rng, inp["instrs"], maxlen=max(nmax, 3))
    inp["as"] = rng.choice(["circuit", "gates"])
    return inp


REDUCED = None


def reduced_alphabet():
    """one representative per commutation-rule class, placed on 3 qubits"""
    global REDUCED
    if REDUCED is None:
        names = {"CNOT", "X", "RX", "Z", "RZ", "SNOT", "CZ", "SWAP", "R", "FREDKIN", "TOFFOLI"}
        REDUCED = [g for g in placed_gates(3, angles=(0.5,)) if g["name"] in names]
        REDUCED += [g for g in role_forms(3) if g["name"] in ("TOFFOLI", "FREDKIN", "CNOT") and g["controls"] is None]
    return REDUCED


def exhaustive(maxlen, alphabet):
    for L in range(1, maxlen + 1):
        for combo in itertools.product(alphabet, repeat=L):
            for method in ("ASAP", "ALAP"):
                yield dict(instrs=list(combo), method=method, perm=True, random=False, shuf_seed=0, mode="cycles", **{"as": "gates"})


def check_real(corr, inp, res, what_prefix=""):
    if isinstance(res, str):
        if any(S.spec_qubits(s) for s in inp["instrs"]) and not (inp.get("repeat", 0) and inp["mode"] == "cycles"):
            corr.oracle_fail(inp, res, "a schedule", "scheduler raised on a valid circuit")
        return
    cycles = res if inp["mode"] == "cycles" else cycles_from_indices(res)
    bad = oracle_cycles(inp, cycles)
    if bad:
        corr.oracle_fail(inp, dict(result=res, detail=bad[1]), "a valid, unitary-preserving schedule", bad[0])


# --------------------------------------------------------------------------------------------------
# histories: ONE Scheduler object schedules several different circuits in a row
# --------------------------------------------------------------------------------------------------
def run_history(hist):
    """hist = dict(mode="history", method, perm, steps=[ordinary inputs with that method/perm]).
    The SAME Scheduler instance handles every step -> [(result | 'rejected: ...', perms of that step)]."""
    import random as _random
    import qutip_qip.compiler.scheduler as SM
    from qutip_qip.compiler import Scheduler
    from qutip_qip.circuit import QubitCircuit
    sch = S.mk_scheduler(hist)        # hist["cons"] / hist["ctor"] as in c11.mk_scheduler
    out = []
    old = SM.shuffle
    try:
        for inp in hist["steps"]:
            rnd = _random.Random(inp.get("shuf_seed", 0))
            perms = []

            def fake_shuffle(lst, rnd=rnd, perms=perms):
                p = list(range(len(lst)))
                rnd.shuffle(p)
                perms.append(p)
                lst[:] = [lst[i] for i in p]

            SM.shuffle = fake_shuffle
            try:
                if hist.get("mutate"):
                    # the public attributes are (re-)assigned before every call; each step carries its own values and
                    # is compared with the history-free model at those values
                    S.set_attributes(sch, inp)
                if inp.get("as") == "circuit":
                    N = max([q for s in inp["instrs"] for q in S.spec_qubits(s)] + [0]) + 1
                    obj = QubitCircuit(N)
                    for s in inp["instrs"]:
                        obj.add_gate(S.mk_gate(s))
                elif inp.get("as") == "gates":
                    obj = [S.mk_gate(s) for s in inp["instrs"]]
                else:
                    obj = [S.mk_instruction(s) for s in inp["instrs"]]
                kw = dict(random_shuffle=inp.get("random", False))
                if inp.get("repeat", 0):
                    kw["repeat_num"] = inp["repeat"]
                if inp["mode"] == "cycles":
                    res = sch.schedule(obj, gates_schedule=True, return_cycles_list=True, **kw)
                    res = [[int(i) for i in c] for c in res]
                else:
                    res = sch.schedule(obj, gates_schedule=True, **kw)
                    res = [int(i) for i in res]
                out.append((res, perms))
            except Exception as e:  # noqa
                out.append(("rejected: " + type(e).__name__, perms))
    finally:
        SM.shuffle = old
    return out


def step_failure(inp, res):
    """oracle on one step of a history -> (what, observed) or None"""
    if isinstance(res, str):
        if any(S.spec_qubits(s) for s in inp["instrs"]) and not (inp.get("repeat", 0) and inp["mode"] == "cycles"):
            return ("scheduler raised on a valid circuit", res)
        return None
    cycles = res if inp["mode"] == "cycles" else cycles_from_indices(res)
    bad = oracle_cycles(inp, cycles)
    if bad:
        return (bad[0], dict(result=res, detail=bad[1]))
    return None


def _distinct_1q(rng, n, N):
    """single-qubit gates, gate i on qubit i mod N (equal positions never share a qubit when n <= N)"""
    out = []
    for i in range(n):
        k = rng.choice(["SNOT", "X", "RZ", "RX", "Z"])
        out.append(dict(name=k, targets=[i % N], controls=None, arg=rng.choice(S.ANGLES) if k in ("RZ", "RX") else None))
    return out


def _commuting_sharing(rng, n, N):
    """gates the rule declares commuting that all share one qubit: CNOT c->t, RZ/Z on c, or CNOT c->t, RX/X on t"""
    c = rng.randrange(N)
    others = [q for q in range(N) if q != c]
    out = []
    if rng.random() < 0.5 or not others:
        for _ in range(n):
            k = rng.choice(["CNOT", "CNOT", "RZ", "Z"]) if others else rng.choice(["RZ", "Z"])
            if k == "CNOT":
                out.append(dict(name="CNOT", targets=[rng.choice(others)], controls=[c], arg=None))
            else:
                out.append(dict(name=k, targets=[c], controls=None, arg=rng.choice(S.ANGLES) if k == "RZ" else None))
    else:
        for _ in range(n):
            k = rng.choice(["CNOT", "CNOT", "RX", "X"])
            if k == "CNOT":
                out.append(dict(name="CNOT", targets=[c], controls=[rng.choice(others)], arg=None))
            else:
                out.append(dict(name=k, targets=[c], controls=None, arg=rng.choice(S.ANGLES) if k == "RX" else None))
    return out


def gen_history(rng):
    method = rng.choice(["ASAP", "ALAP"])
    perm = rng.random() < 0.8
    N = rng.choice([2, 3, 3, 4])
    nsteps = rng.randint(2, 4)
    same_len = rng.random() < 0.5
    n0 = rng.randint(2, 5)
    mutate = rng.random() < 0.4
    cons = list(rng.choice(S.CONS_EQUIV)) if rng.random() < 0.3 else None
    steps = []
    for k in range(nsteps):
        n = n0 if same_len else rng.randint(1, 6)
        style = rng.choice(["distinct", "sharing", "sharing", "random", "random-small", "roles", "multiparam"])
        if style == "distinct":
            specs = _distinct_1q(rng, n, N)
        elif style == "sharing":
            specs = _commuting_sharing(rng, n, N)
        elif style == "random":
            specs = [S.rand_gate(rng, N) for _ in range(n)]
        elif style == "roles":
            specs = [rand_role_form(rng, N) for _ in range(n)]
        elif style == "multiparam":
            specs = gen_multiparam(rng)["instrs"]
        else:
            specs = [S.rand_gate(rng, N, ["CNOT", "CNOT", "X", "RX", "Z", "RZ", "SNOT", "CZ", "SWAP"]) for _ in range(n)]
        sprinkle_phase(rng, specs)
        step = dict(instrs=specs, method=method, perm=perm, random=rng.random() < 0.3, shuf_seed=rng.randrange(10 ** 6),
                    mode=rng.choice(["cycles", "indices"]), **{"as": rng.choice(["circuit", "gates"])})
        if cons is not None:
            step["cons"] = list(cons)
        if mutate:
            step["method"] = rng.choice(["ASAP", "ALAP"])
            step["perm"] = (not (steps[-1]["perm"] if steps else perm)) if rng.random() < 0.6 else rng.random() < 0.5
            if rng.random() < 0.4:
                step["cons"] = list(rng.choice(S.CONS_EQUIV))
        if rng.random() < 0.15:
            step["mode"] = "indices"
            step["repeat"] = rng.randint(1, 3)
        steps.append(step)
    h = dict(mode="history", method=method, perm=perm, steps=steps)
    if cons is not None:
        h["cons"] = list(cons)
    if mutate:
        h["mutate"] = True
    return h


def history_prepare(ctx, corpus_hist):
    """run the histories on the real code -> flat list of (history, step index, step input, result, perms)"""
    rng = ctx.rng
    hists = list(corpus_hist) + [gen_history(rng) for _ in range(ctx.n(250, 1200))]
    flat = []
    for h in hists:
        for k, (step, (res, perms)) in enumerate(zip(h["steps"], run_history(h))):
            flat.append((h, k, step, res, perms))
    return hists, flat


def history_compare(corr, hists, flat, models):
    """every call of every history is compared with the HISTORY-FREE model and with the oracle"""
    for (h, k, step, res, perms), mod in zip(flat, models):
        corr.tally("history-step")
        corr.tally("history-step-%d" % k)
        if h.get("mutate"):
            corr.tally("history-step with attributes re-assigned between calls")
        corr.count(json.dumps(dict(hist=h, step=k), sort_keys=True), nontrivial=S.nontrivial(step))
        r = "rejected" if isinstance(res, str) else res
        bad = step_failure(step, res)
        if bad:
            corr.oracle_fail(h, dict(step=k, detail=bad[1]), "a valid, unitary-preserving schedule for every call",
                             "reused Scheduler object: " + bad[0])
        elif r != mod:
            corr.disagree(h, dict(step=k, result=res), mod,
                          "history-free Sched model vs Scheduler.schedule on a REUSED Scheduler object (call %d)" % k)
    corr.extra["histories"] = len(hists)


def history_fails(h):
    return any(step_failure(step, res) is not None for step, (res, _) in zip(h["steps"], run_history(h)))


def correspond(ctx):
    corr = Corr(rule="at least two gates share a qubit; rule pairs always count")
    rng = ctx.rng
    exact = [("corpus", i) for i in S.load_corpus("C05") if i.get("mode") not in ("rule", "history")]
    for _ in range(ctx.n(1200, 5000)):
        exact.append(("random<=8", S.with_variants(rng, gen_gate_input(rng, 8))))
    for _ in range(ctx.n(400, 1500)):
        exact.append(("cnot-x-z", S.with_variants(rng, gen_gate_input(rng, 8, N=rng.choice([2, 3]), kinds=["CNOT", "CNOT", "X", "RX", "Z", "RZ", "SNOT"]), 0.4, 0.3)))
    for _ in range(ctx.n(400, 1500)):
        exact.append(("same-name-heavy", gen_gate_input(rng, 7, N=rng.choice([3, 4]), kinds=["R", "R", "QASMU", "MS", "FREDKIN", "FREDKIN", "TOFFOLI", "CRX", "CNOT", "RX", "SWAP"])))
    for _ in range(ctx.n(500, 2500)):
        exact.append(("role-forms", S.with_variants(rng, gen_role_input(rng, 7))))
    for _ in range(ctx.n(500, 2500)):
        exact.append(("multi-parameter-alphabet", S.with_variants(rng, gen_multiparam(rng))))
    for _ in range(ctx.n(60, 300)):
        inp = gen_gate_input(rng, 6)
        inp["mode"] = "indices"
        inp["repeat"] = rng.randint(1, 4)
        exact.append(("repeat_num", inp))
    for _ in range(ctx.n(40, 200)):    # instruction lists with durations through the gate-schedule path
        exact.append(("instructions-with-durations", S.gen_input(rng, 8, mode=rng.choice(["cycles", "indices"]))))
    ex = list(exhaustive(2, reduced_alphabet())) if ctx.thorough else rng.sample(list(exhaustive(2, reduced_alphabet())), 400)
    for inp in ex:
        exact.append(("exhaustive-reduced-alphabet", inp))
    gp = dict(name="GLOBALPHASE", targets=None, controls=None, arg=0.5)
    for m in ("ASAP", "ALAP"):
        exact.append(("degenerate", dict(instrs=[], method=m, perm=True, random=False, shuf_seed=0, mode="indices", **{"as": "gates"})))
        exact.append(("degenerate", dict(instrs=[gp], method=m, perm=True, random=False, shuf_seed=0, mode="indices", **{"as": "gates"})))
        exact.append(("degenerate", dict(instrs=[], method=m, perm=True, random=False, shuf_seed=0, mode="indices", repeat=2, **{"as": "gates"})))

    reals = [S.run_real(inp) for _, inp in exact]
    hists, hflat = history_prepare(ctx, [i for i in S.load_corpus("C05") if i.get("mode") == "history"])
    models = S.run_model_many("c05", [(inp, perms) for (_, inp), (_, perms) in zip(exact, reals)]
                              + [(step, perms) for (_, _, step, _, perms) in hflat])
    history_compare(corr, hists, hflat, models[len(exact):])
    models = models[:len(exact)]
    for (kind, inp), (res, perms), mod in zip(exact, reals, models):
        corr.tally(kind)
        corr.tally("n=%d" % len(inp["instrs"]))
        corr.tally(inp["method"] + ("+shuffle" if inp.get("random") or inp.get("repeat") else "") + ("" if inp["perm"] else "+noperm"))
        if inp.get("cons") and len(inp["cons"]) > 1:
            corr.tally("constraint list with >= 2 functions" + ("" if inp["cons"][0] == "qubit" else ", qubit_constraint not first"))
        if inp.get("ctor"):
            corr.tally("attributes re-assigned after construction")
        corr.count(S.key_of(inp), nontrivial=S.nontrivial(inp), sample=inp)
        r = "rejected" if isinstance(res, str) else res
        if r != mod:
            corr.disagree(inp, res, mod, "Sched model vs Scheduler.schedule (%s)" % inp["mode"])
        check_real(corr, inp, res)

    # oracle-only: longer circuits, exhaustive sweeps
    n_oracle = 0
    stream = [gen_gate_input(rng, 14) for _ in range(ctx.n(800, 4000))]
    for inp in stream:
        r_ = rng.random()
        if r_ < 0.2:          # genuinely stricter constraint lists: oracle only (every listed function must be respected)
            inp["cons"] = list(rng.choice(S.CONS_STRICT + S.CONS_EQUIV))
        if rng.random() < 0.15:
            inp["ctor"] = dict(method=rng.choice(["ASAP", "ALAP"]), perm=not inp["perm"])
    if ctx.thorough:
        stream += list(exhaustive(3, reduced_alphabet()[::2]))
        stream += [i for i in exhaustive(2, placed_gates(3)) if len(i["instrs"]) == 2 and i["method"] == "ALAP"][::3]
    else:
        stream += rng.sample(list(exhaustive(3, reduced_alphabet()[::3])), 600)
    to_check = []
    for inp in stream:
        res, _ = S.run_real(inp)
        corr.tally("oracle-only")
        corr.count(S.key_of(inp), nontrivial=S.nontrivial(inp))
        n_oracle += 1
        check_real(corr, inp, res)
        if not isinstance(res, str) and len(to_check) < ctx.n(1500, 8000):
            cyc = res if inp["mode"] == "cycles" else cycles_from_indices(res)
            to_check.append((inp, clist([clist([cnat(i) for i in c]) for c in cyc])))
    corr.extra["oracle_only_cases"] = n_oracle
    # the real output, validated inside Coq by the proved checker (Props/C05.v valid_cycles_sound)
    verdicts = S.run_checker_many("c05chk", to_check, "valid_cycles")
    for (inp, lit), ok in zip(to_check, verdicts):
        corr.tally("real-output-checked-in-coq")
        if ok is not True:
            corr.disagree(inp, lit, ok, "real cycle list rejected by the proved checker valid_cycles")
    corr.extra["checked_in_coq"] = len(to_check)

    rule_sweep(ctx, corr)
    return corr


def classify(failure):
    return None


def replay(ctx, rec):
    inp = rec["input"]
    if inp.get("mode") == "rule":
        a, b = inp["instrs"]
        Nq = max(S.spec_qubits(a) + S.spec_qubits(b)) + 1
        return real_rule(a, b) and not S.gates_commute(a, b, Nq)
    if inp.get("mode") == "history":
        return history_fails(inp)
    res, _ = S.run_real(inp)
    if isinstance(res, str):
        return bool(any(S.spec_qubits(s) for s in inp["instrs"]))
    cycles = res if inp["mode"] == "cycles" else cycles_from_indices(res)
    return oracle_cycles(inp, cycles) is not None


def search(ctx, broken):
    out = []
    c = Corr()
    for inp in S.load_corpus("C05"):
        if inp.get("mode") == "rule":
            a, b = inp["instrs"]
            Nq = max(S.spec_qubits(a) + S.spec_qubits(b)) + 1
            if real_rule(a, b) and not S.gates_commute(a, b, Nq):
                out.append(dict(input=inp, observed="commutation_rules returns True", expected="gates do not commute",
                                what="commutation_rules declares two non-commuting gates commuting"))
        elif inp.get("mode") == "history":
            for k, (step, (res, _)) in enumerate(zip(inp["steps"], run_history(inp))):
                bad = step_failure(step, res)
                if bad:
                    out.append(dict(input=inp, observed=dict(step=k, detail=bad[1]),
                                    expected="a valid, unitary-preserving schedule for every call",
                                    what="reused Scheduler object: " + bad[0]))
                    break
        else:
            res, _ = S.run_real(inp)
            check_real(c, inp, res)
    rng = ctx.rng
    for _ in range(400):
        if out:
            break
        h = gen_history(rng)
        if h["perm"] and history_fails(h):
            for k, (step, (res, _)) in enumerate(zip(h["steps"], run_history(h))):
                bad = step_failure(step, res)
                if bad:
                    out.append(dict(input=h, observed=dict(step=k, detail=bad[1]),
                                    expected="a valid, unitary-preserving schedule for every call",
                                    what="reused Scheduler object: " + bad[0]))
                    break
    for _ in range(1500):
        if len(out) + len(c.oracle_failures) >= 2:
            break
        inp = S.with_variants(rng, gen_gate_input(rng, 8, N=rng.choice([2, 3]), kinds=["CNOT", "CNOT", "X", "RX", "Z", "RZ", "SNOT"]), 0.5, 0.4)
        res, _ = S.run_real(inp)
        check_real(c, inp, res)
    for _ in range(600):
        if len(out) + len(c.oracle_failures) >= 2:
            break
        inp = gen_multiparam(rng)
        res, _ = S.run_real(inp)
        check_real(c, inp, res)
    for _ in range(600):
        if len(out) + len(c.oracle_failures) >= 2:
            break
        inp = gen_role_input(rng, 6)
        res, _ = S.run_real(inp)
        check_real(c, inp, res)
    for _ in range(3000):
        if len(out) + len(c.oracle_failures) >= 3:
            break
        inp = gen_gate_input(rng, 9, kinds=["R", "QASMU", "MS", "FREDKIN", "CNOT", "RX", "RZ", "X", "Z", "SWAP"])
        res, _ = S.run_real(inp)
        check_real(c, inp, res)
    return out + c.oracle_failures
