"""C01 - gate-level evolution equals the ordered product of the gates' matrices.  See DESIGN.md section 5 (C01).

Model: coq/Model/Einsum.v (einsum label lists + einsum semantics, ket/operator step), coq/Model/GSP.v (compact
gate-sequence product on formal circuits with a set-order oracle), coq/Model/GateSim.v (dense paths, user-gate lookup).
The harness
  (a) intercepts numpy.einsum while the real _evolve_state_einsum runs and compares the integer label lists with
      Einsum.einsum_labels;
  (b) runs the real gate_sequence_product(expand=True) / _mult_sublists and the model GSP.gsp_top / mult_sublists (with the
      set order CPython actually produced, and with the ascending order the theorems assume) and compares index lists
      exactly and matrices to 1e-9;
  (c) runs exact (Gaussian-integer) circuits through ket_step / oper_step / dm_step / gsp_expanded in Coq and through
      the real simulator, comparing tables;
  (d) checks the property itself with an independent numpy oracle on every path of the real code.
"""
import itertools
import math
import os
import sys
import warnings

import numpy as np

sys.path.insert(0, os.path.dirname(os.path.dirname(os.path.abspath(__file__))))
import qoracle as Q  # noqa: E402
from common import Corr, Broken, coq_eval_many, parse_evals, VERIF  # noqa: E402

ID = "C01"
TARGETS = ["Props/C01.vo"]
TRUSTED = [
    "numpy.einsum(G, lG, S, lS, lO) is read as Model/Einsum.einsum2 (sum over the labels absent from the output); the label "
    "lists the real code passes are compared with the model's on every run",
    "expand_operator(M, dims=[2]*N, targets=T) is read as 'M acting on the qubits T' (GateSim.emb / relabelling of a formal "
    "circuit in GSP.v after the checks len(T)=arity, T[j]<N, no duplicates); expand_operator itself is property C08",
    "qutip.tensor / Qobj.__mul__ / Qobj.dag / ket2dm / globalphase are read as Kronecker product (first factor most significant), "
    "matrix product, conjugate transpose, |psi><psi|, scalar matrix; row-major reshape of Qobj.full()",
    "compact gate matrices (Gate.get_compact_qobj) are abstract matrices here: their values are property C09",
    "block matrices of _gate_sequence_product are modelled as formal circuits (their value is the circuit's semantics); "
    "arity of every U_list entry = length of its index list; an entry with an empty index list is a scalar matrix of any size (what propagators(expand=False) + get_all_qubits() produce)",
    "Python set iteration order = oracle `ord` (Permutation of the union); the fixed code sorts, so ord = ascending",
    "IEEE round-off not modelled (comparison to 1e-9); functional extensionality (Coq stdlib axiom) through Found/Lemmas.v",
]
ASSUMES = [
    "circuits are measurement-free and without classical controls; qubit lists of a gate are duplicate-free and < N",
    "gsp_correct assumes ascending enumeration of the merged index set (true of the repaired code, refuted for CPython sets: gsp_refuted_unsorted)",
    "compact product: index lists duplicate-free; an empty index list denotes a scalar factor (GLOBALPHASE propagator), which the repaired code takes out of the product",
]

warnings.filterwarnings("ignore")

LIB1 = ["X", "Y", "Z", "S", "T", "SNOT", "SQRTNOT", "RX", "RY", "RZ", "PHASEGATE", "R", "QASMU"]
LIB2 = ["CNOT", "CY", "CZ", "CSIGN", "CS", "CT", "CRX", "CRY", "CRZ", "CPHASE", "SWAP", "ISWAP", "SQRTSWAP", "SQRTISWAP",
        "SWAPalpha", "BERKELEY", "MS", "RZX"]
LIB3 = ["TOFFOLI", "FREDKIN"]
LIB = LIB1 + LIB2 + LIB3


# ------------------------------------------------------------------------------------------------
# independent numeric oracle (never uses the repo code)
# ------------------------------------------------------------------------------------------------
def apply_gate(T, M, qubits, N):
    """T: array whose first N axes are qubit axes (2 each); apply M on `qubits` (listed order = index order of M)."""
    k = len(qubits)
    Mt = np.asarray(M, dtype=complex).reshape([2] * (2 * k))
    R = np.tensordot(Mt, T, axes=(list(range(k, 2 * k)), list(qubits)))
    return np.moveaxis(R, list(range(k)), list(qubits))


def apply_circuit(ops, N, X):
    """ops: list of (matrix | complex scalar, qubits); X: array with 2**N rows. Returns ops applied in order."""
    X = np.asarray(X, dtype=complex)
    cols = X.shape[1] if X.ndim == 2 else None
    T = X.reshape([2] * N + ([cols] if cols is not None else []))
    for M, qs in ops:
        if len(qs) == 0:
            T = complex(np.asarray(M).reshape(-1)[0]) * T
        else:
            T = apply_gate(T, M, qs, N)
    return T.reshape(X.shape)


def rand_unitary(rs, k):
    A = rs.normal(size=(2 ** k, 2 ** k)) + 1j * rs.normal(size=(2 ** k, 2 ** k))
    Uq, _ = np.linalg.qr(A)
    return Uq


def cm(M):
    return [[[float(np.real(z)), float(np.imag(z))] for z in row] for row in np.asarray(M).tolist()]


def uncm(L):
    return np.array([[complex(a, b) for a, b in row] for row in L], dtype=complex)


def maxdiff(A, B):
    A, B = np.asarray(A), np.asarray(B)
    if A.shape != B.shape:
        return float("inf")
    return float(np.abs(A - B).max()) if A.size else 0.0


# ------------------------------------------------------------------------------------------------
# cases -> real objects
# ------------------------------------------------------------------------------------------------
def user_matrix(u, arg):
    M = uncm(u["mat0"])
    if u["form"] == "fun1":
        M = M + (arg if arg is not None else 0.0) * uncm(u["mat1"])
    return M


def _fun0(M0, dims):
    from qutip import Qobj

    def user_gate():
        return Qobj(M0, dims=dims)
    return user_gate


def _fun1(M0, M1, dims):
    from qutip import Qobj

    def user_gate(arg_value):
        return Qobj(M0 + arg_value * M1, dims=dims)
    return user_gate


def _fun2(M0, dims):
    from qutip import Qobj

    def user_gate(a, b):
        return Qobj(M0, dims=dims)
    return user_gate


def make_user_gates(users):
    from qutip import Qobj
    out = {}
    for name, u in (users or {}).items():
        k = int(round(math.log2(len(u["mat0"]))))
        dims = [[2] * k, [2] * k]
        M0 = uncm(u["mat0"])
        form = u["form"]
        if form == "oper":
            out[name] = Qobj(M0, dims=dims)
        elif form == "fun0":
            out[name] = _fun0(M0, dims)
        elif form == "fun1":
            out[name] = _fun1(M0, uncm(u["mat1"]), dims)
        elif form == "fun2":
            out[name] = _fun2(M0, dims)
        elif form == "other":
            out[name] = M0
        else:
            raise ValueError(form)
    return out


_USER_SUBCLASS = {}


def _user_subclass():
    """a user-defined Gate subclass: every instance carries its own matrix, all share the class name"""
    if "cls" not in _USER_SUBCLASS:
        from qutip import Qobj
        from qutip_qip.operations import Gate

        class UserSubGate(Gate):
            def __init__(self, targets, matrix, **kwargs):
                super().__init__(targets=targets, **kwargs)
                self._matrix = np.asarray(matrix, dtype=complex)

            def get_compact_qobj(self):
                k = len(self.targets)
                return Qobj(self._matrix, dims=[[2] * k, [2] * k])
        _USER_SUBCLASS["cls"] = UserSubGate
    return _USER_SUBCLASS["cls"]


def make_gate_object(g):
    """gate OBJECT built from a gate class of qutip_qip.operations (g['cls']), as a user writes CRX(controls=0, targets=1, arg_value=t)"""
    import qutip_qip.operations as OPS
    arg = g.get("arg")
    if isinstance(arg, list):
        arg = tuple(arg)
    cls = g["cls"]
    kw = {}
    if g.get("targets") is not None:
        kw["targets"] = list(g["targets"])
    if g.get("controls") is not None:
        kw["controls"] = list(g["controls"])
    if arg is not None:
        kw["arg_value"] = arg
    if g.get("obj_name") is not None:
        kw["name"] = g["obj_name"]
    if cls == "UserSubGate":
        return _user_subclass()(matrix=uncm(g["matrix"]), **kw)
    if cls == "ControlledGate":
        from qutip_qip.operations import gateclass as GC
        return GC.ControlledGate(control_value=g["control_value"], target_gate=OPS.GATE_CLASS_MAP[g["target_gate"]], **kw)
    return OPS.GATE_CLASS_MAP[cls](**kw)


def build(case):
    from qutip_qip.circuit import QubitCircuit
    qc = QubitCircuit(case["N"], user_gates=make_user_gates(case.get("users")))
    for g in case["gates"]:
        if g.get("cls"):
            qc.add_gate(make_gate_object(g))
            continue
        arg = g.get("arg")
        if isinstance(arg, list):
            arg = tuple(arg)
        qc.add_gate(g["name"], targets=g.get("targets"), controls=g.get("controls"), arg_value=arg)
    return qc


def controlled_block(U, nc, cv):
    """documented meaning of a controlled gate: U on the targets iff the controls (first listed = most significant) read cv"""
    d = U.shape[0]
    M = np.eye(d * 2 ** nc, dtype=complex)
    M[cv * d:(cv + 1) * d, cv * d:(cv + 1) * d] = U
    return M


def gate_ops(case):
    """oracle view: list of (matrix|scalar, qubits) from the CASE description (not from Gate objects)"""
    ops = []
    users = case.get("users") or {}
    for g in case["gates"]:
        qs = list(g.get("controls") or []) + list(g.get("targets") or [])
        if g["name"] == "GLOBALPHASE":
            ops.append((np.exp(1j * g["arg"]), []))
        elif g["name"] in users:
            # the circuit's own user_gates entry defines a gate of that name, library name or not
            ops.append((user_matrix(users[g["name"]], g.get("arg")), qs))
        elif g.get("cls") == "UserSubGate":
            ops.append((uncm(g["matrix"]), qs))
        elif g.get("cls") == "ControlledGate":
            ops.append((controlled_block(Q.np_gate(g["target_gate"], g.get("arg")), len(g["controls"]), g["control_value"]), qs))
        elif g.get("cls"):
            ops.append((Q.np_gate(g["cls"], g.get("arg")), qs))
        elif g["name"] in users:
            ops.append((user_matrix(users[g["name"]], g.get("arg")), qs))
        else:
            ops.append((Q.np_gate(g["name"], g.get("arg")), qs))
    return ops


def is_wellformed(case):
    users = case.get("users") or {}
    for g in case["gates"]:
        qs = list(g.get("controls") or []) + list(g.get("targets") or [])
        if len(set(qs)) != len(qs) or any(q >= case["N"] or q < 0 for q in qs):
            return False
        if g.get("cls") in ("UserSubGate", "ControlledGate"):
            continue
        if g["name"] in users:
            u = users[g["name"]]
            if g.get("controls") is not None or u["form"] in ("fun2", "other"):
                return False
            if 2 ** len(qs) != len(u["mat0"]):
                return False
        elif g["name"] != "GLOBALPHASE":
            if g["name"] not in Q.N_QUBITS or Q.N_QUBITS[g["name"]] != len(qs):
                return False
            if len(g.get("controls") or []) != Q.N_CONTROLS.get(g["name"], 0):
                return False
    return True


# ------------------------------------------------------------------------------------------------
# the real code under observation
# ------------------------------------------------------------------------------------------------
class EinsumSpy:
    """records the integer label lists handed to numpy.einsum while active"""

    def __init__(self):
        self.calls = []

    def __enter__(self):
        self.orig = np.einsum
        spy = self

        def wrapped(*a, **kw):
            if len(a) == 5 and not kw and not isinstance(a[0], str):
                try:
                    spy.calls.append((tuple(a[2].shape), tuple(a[0].shape), [int(x) for x in a[1]], [int(x) for x in a[3]],
                                      [int(x) for x in a[4]]))
                except Exception:
                    pass
            return spy.orig(*a, **kw)
        np.einsum = wrapped
        return self

    def __exit__(self, *exc):
        np.einsum = self.orig


class MultSpy:
    """records (inds_sublist, inds) -> revised_inds of every _mult_sublists call (if that helper still exists)"""

    def __init__(self):
        self.table = []
        self.mod = None

    def __enter__(self):
        try:
            from qutip_qip.circuit import circuitsimulator as cs
        except Exception:
            return self
        if not hasattr(cs, "_mult_sublists"):
            return self
        self.mod = cs
        self.orig = cs._mult_sublists
        spy = self

        def wrapped(tensor_list, overall_inds, U, inds):
            res = spy.orig(tensor_list, overall_inds, U, inds)
            try:
                sub = [i for s in overall_inds if set(s) & set(inds) for i in s]
                spy.table.append(([int(i) for i in sub], [int(i) for i in inds], [int(i) for i in res[1][-1]]))
            except Exception:
                pass
            return res
        cs._mult_sublists = wrapped
        return self

    def __exit__(self, *exc):
        if self.mod is not None:
            self.mod._mult_sublists = self.orig


GROUP = {"run_ket": "state-vector evolution", "unitary": "state-vector evolution", "oper": "state-vector evolution",
         "step": "step-by-step state-vector simulation", "run_dm": "density-matrix evolution", "dm_ket": "density-matrix evolution",
         "step_dm": "density-matrix evolution", "kept": "kept states", "kept_dm": "kept states", "expanded": "expanded propagators", "compact": "compact product",
         "compact_phase_all": "compact product", "compact_phase_empty": "compact product"}


def run_paths(case, want_trace=None):
    """Run every observation point on a well-formed circuit case. Returns list of (path, observed, expected, what)."""
    import qutip
    from qutip import Qobj
    from qutip_qip.circuit import CircuitSimulator
    from qutip_qip.operations import gate_sequence_product
    fails = []
    N = case["N"]
    rs = np.random.RandomState(case.get("seed", 0) % (2 ** 31))
    ops = gate_ops(case)
    dims = [2] * N
    D = 2 ** N
    psi = rs.normal(size=D) + 1j * rs.normal(size=D)
    psi /= np.linalg.norm(psi)
    A = rs.normal(size=(D, D)) + 1j * rs.normal(size=(D, D))
    rho = A @ A.conj().T
    rho /= np.trace(rho)
    X = rs.normal(size=(D, D)) + 1j * rs.normal(size=(D, D))
    E = apply_circuit(ops, N, np.eye(D))
    if N <= 4 and not case.get("users") and all((g["name"] in Q.N_QUBITS or g["name"] == "GLOBALPHASE")
                                                and g.get("cls") in (None, g["name"]) for g in case["gates"]):
        E2 = Q.circuit_unitary([(g["name"], list(g.get("controls") or []) + list(g.get("targets") or []), g.get("arg"))
                                for g in case["gates"]], N)
        assert maxdiff(E, E2) < 1e-9, "the two independent oracles disagree"
    has_phase = any(g["name"] == "GLOBALPHASE" for g in case["gates"])
    ket = Qobj(psi.reshape(D, 1), dims=[dims, [1] * N])
    rhoq = Qobj(rho, dims=[dims, dims])
    Xq = Qobj(X, dims=[dims, dims])
    paths = set(case.get("paths") or ["run_ket", "run_dm", "dm_ket", "unitary", "expanded", "compact", "step", "step_dm", "oper", "kept"])

    def attempt(path, fn, expected, tol=1e-9, what_diff=None):
        grp = GROUP.get(path, path)
        try:
            got = fn()
        except Exception as e:
            fails.append((path, f"{type(e).__name__}: {e}"[:300], "a result", f"{grp}: the real code raised {type(e).__name__}"))
            return
        d = maxdiff(got, expected)
        if not d < tol:
            fails.append((path, f"max deviation {d:.3g}", "deviation < 1e-9",
                          what_diff or f"{grp}: result differs from the ordered product of embedded matrices"))

    try:
        qc = build(case)
    except Exception as e:
        fails.append(("build", f"{type(e).__name__}: {e}"[:300], "a circuit",
                      f"circuit construction: add_gate raised {type(e).__name__} on a well-formed gate"))
        return fails
    with EinsumSpy() as es:
        if "run_ket" in paths:
            attempt("run_ket", lambda: qc.run(ket).full().reshape(D), E @ psi)
        if "unitary" in paths:
            attempt("unitary", lambda: qc.compute_unitary().full(), E)
        if "oper" in paths:
            attempt("oper", lambda: CircuitSimulator(qc).run(Xq).get_final_states(0).full(), E @ X)
        if "step" in paths:
            def stepper():
                sim = CircuitSimulator(qc)
                sim.initialize(ket)
                cur = psi
                worst = 0.0
                for i in range(len(case["gates"])):
                    sim.step()
                    cur = apply_circuit(ops[i:i + 1], N, cur)
                    worst = max(worst, maxdiff(sim.state.full().reshape(D), cur))
                return np.array([worst])
            attempt("step", stepper, np.array([0.0]))
    if want_trace is not None:
        want_trace.extend(es.calls)
    if "kept" in paths:
        # every state object handed out (by .state after a step, by run()) and the caller's input must keep its value
        # while the simulator goes on: compare all kept objects AGAIN after the whole circuit / a second run
        def kept(mode, inp, inp_arr, evolve):
            def f():
                sim = CircuitSimulator(qc, mode=mode)
                sim.initialize(inp)
                held, refs = [], []
                cur = inp_arr
                for i in range(len(case["gates"])):
                    sim.step()
                    held.append(sim.state)
                    cur = evolve(ops[i:i + 1], cur)
                    refs.append(cur)
                worst = 0.0
                for h, r in zip(held, refs):
                    worst = max(worst, maxdiff(h.full().reshape(r.shape), r))
                first = sim.run(inp).get_final_states(0)
                other = inp_arr[::-1].copy() if inp_arr.ndim == 1 else inp_arr.T.copy()
                otherq = Qobj(other.reshape(inp.shape), dims=inp.dims)
                second = sim.run(otherq).get_final_states(0)
                final = evolve(ops, inp_arr)
                worst = max(worst, maxdiff(first.full().reshape(final.shape), final))
                worst = max(worst, maxdiff(second.full().reshape(final.shape), evolve(ops, other)))
                for h, r in zip(held, refs):
                    worst = max(worst, maxdiff(h.full().reshape(r.shape), r))
                worst = max(worst, maxdiff(inp.full().reshape(inp_arr.shape), inp_arr))
                return np.array([worst])
            return f

        def ev_ket(o, v):
            return apply_circuit(o, N, v)

        def ev_dm(o, r):
            Eo = apply_circuit(o, N, np.eye(D))
            return Eo @ r @ Eo.conj().T
        msg = "a state returned earlier (by .state after a step, by run(), or the caller's input) was changed by a later step"
        attempt("kept", kept("state_vector_simulator", ket, psi, ev_ket), np.array([0.0]), what_diff="kept states: " + msg)
        attempt("kept_dm", kept("density_matrix_simulator", rhoq, rho, ev_dm), np.array([0.0]), what_diff="kept states: " + msg)
    if "run_dm" in paths:
        attempt("run_dm", lambda: qc.run(rhoq).full(), E @ rho @ E.conj().T)
    if "dm_ket" in paths:
        attempt("dm_ket", lambda: CircuitSimulator(qc, mode="density_matrix_simulator").run(ket).get_final_states(0).full(),
                np.outer(E @ psi, (E @ psi).conj()))
    if "step_dm" in paths:
        def stepper_dm():
            sim = CircuitSimulator(qc, mode="density_matrix_simulator")
            sim.initialize(rhoq)
            cur = rho
            worst = 0.0
            for i in range(len(case["gates"])):
                sim.step()
                Ei = apply_circuit(ops[i:i + 1], N, np.eye(D))
                cur = Ei @ cur @ Ei.conj().T
                worst = max(worst, maxdiff(sim.state.full(), cur))
            return np.array([worst])
        attempt("step_dm", stepper_dm, np.array([0.0]))
    if "expanded" in paths:
        def expanded():
            props = qc.propagators(expand=True)
            worst = 0.0
            for i, P in enumerate(props):
                worst = max(worst, maxdiff(P.full(), apply_circuit(ops[i:i + 1], N, np.eye(D))))
            if worst > 1e-9:
                return np.full((D, D), np.nan)
            if not props:
                return np.eye(D)
            return gate_sequence_product(props).full()
        attempt("expanded", expanded, E)
    if "compact" in paths and case["gates"]:
        def compact(inds_for_phase):
            props = qc.propagators(expand=False)
            inds = [g.get_all_qubits() if g.name != "GLOBALPHASE" else inds_for_phase for g in qc.gates]
            U, oi = gate_sequence_product(props, inds_list=inds, expand=True)
            if sorted(set(oi)) != list(oi) and len(set(oi)) != len(oi):
                return np.full((D, D), np.nan)
            return apply_circuit([(U.full(), list(oi))], N, np.eye(D))
        if has_phase:
            # GLOBALPHASE propagators are full-size matrices: with the index list of ALL qubits the product must be right
            attempt("compact_phase_all", lambda: compact(list(range(N))), E)
            attempt("compact_phase_empty", lambda: compact([]), E)
        else:
            attempt("compact", lambda: compact([]), E)
    return fails


def check_circuit(case):
    if not is_wellformed(case):
        return check_malformed(case)
    out = []
    for path, obs, exp, what in run_paths(case):
        out.append(dict(input=dict(case, path=path), observed=obs, expected=exp, what=what))
    return out


def check_malformed(case):
    """the 'is refused' clauses: a user gate with controls / a non-function non-operator entry / a two-parameter function /
    a wrong number of qubits must raise, never silently compute"""
    import qutip
    N = case["N"]
    D = 2 ** N
    out = []
    for path in ("run_ket", "unitary", "propagators"):
        try:
            qc = build(case)
            if path == "run_ket":
                qc.run(qutip.basis([2] * N, [0] * N))
            elif path == "unitary":
                qc.compute_unitary()
            else:
                qc.propagators(expand=True)
        except Exception:
            continue
        out.append(dict(input=dict(case, path=path), observed="a result was returned", expected="an exception",
                        what=f"{path}: malformed circuit ({case.get('malformed', '?')}) accepted"))
    return out


# ---- compact product on explicit index lists (public gate_sequence_product) ----
def run_gsp(case):
    """case: kind=gsp, inds_list, seed, [N]. Returns (real_result|None, table, mats, error)"""
    from qutip import Qobj
    from qutip_qip.operations import gate_sequence_product
    rs = np.random.RandomState(case["seed"] % (2 ** 31))
    mats = []
    Us = []
    for inds in case["inds_list"]:
        if len(inds) == 0:
            # an operator without qubit indices is a scalar matrix (what propagators(expand=False) gives for GLOBALPHASE)
            M = np.exp(1j * rs.uniform(-3, 3)) * np.eye(2 ** rs.randint(1, 4))
            k = int(round(math.log2(len(M))))
        else:
            k = len(inds)
            M = rand_unitary(rs, k)
        mats.append(M)
        Us.append(Qobj(M, dims=[[2] * k, [2] * k]))
    with MultSpy() as ms:
        try:
            U, oi = gate_sequence_product(Us, inds_list=[list(i) for i in case["inds_list"]], expand=True)
            res = (U.full(), [int(i) for i in oi])
            err = None
        except Exception as e:
            res = None
            err = f"{type(e).__name__}: {e}"[:200]
    return res, ms.table, mats, err


def gsp_expected_ok(case, res, mats):
    """property oracle: the returned (U, inds) acts as the ordered product, checked on the involved qubits"""
    U, oi = res
    qubits = sorted({q for inds in case["inds_list"] for q in inds})
    pos = {q: i for i, q in enumerate(qubits)}
    n = len(qubits)
    if len(set(oi)) != len(oi) or not set(oi) <= set(qubits) or U.shape != (2 ** len(oi), 2 ** len(oi)):
        return False, "malformed index list"
    rs = np.random.RandomState(12345)
    ncol = min(2 ** n, 4)
    X = rs.normal(size=(2 ** n, ncol)) + 1j * rs.normal(size=(2 ** n, ncol))
    exp = apply_circuit([(M, [pos[q] for q in inds]) for M, inds in zip(mats, case["inds_list"])], n, X)
    got = apply_circuit([(U, [pos[q] for q in oi])], n, X)
    d = maxdiff(got, exp)
    return d < 1e-9, f"max deviation {d:.3g}"


def fc_apply(fc, mats, k, X):
    return apply_circuit([(mats[i], list(qs)) for i, qs in fc], k, X)


def clist_nat(l):
    return "[" + "; ".join(str(int(x)) for x in l) + "]"


def coq_table(tab):
    return "[" + "; ".join(f"(({clist_nat(a)}, {clist_nat(b)}), {clist_nat(r)})" for a, b, r in tab) + "]"


def rank_table(case, table):
    return table  # the recorded calls are already in the rank space the code works in


# ---- _mult_sublists called directly (module-level helper; skipped when it no longer exists) ----
def run_mult(case):
    from qutip import Qobj
    try:
        from qutip_qip.circuit import circuitsimulator as cs
        f = cs._mult_sublists
    except Exception:
        return "absent", None, None, None
    rs = np.random.RandomState(case["seed"] % (2 ** 31))
    mats = [rand_unitary(rs, len(b)) for b in case["blocks"]] + [rand_unitary(rs, len(case["inds"]))]
    qs = [Qobj(M, dims=[[2] * int(math.log2(len(M)))] * 2) for M in mats]
    with MultSpy() as ms:
        try:
            tl, oi = cs._mult_sublists(qs[:-1], [list(b) for b in case["blocks"]], qs[-1], list(case["inds"]))
            return ([t.full() for t in tl], [[int(i) for i in l] for l in oi]), ms.table, mats, None
        except Exception as e:
            return None, ms.table, mats, f"{type(e).__name__}: {e}"[:200]


def mult_expected_ok(case, res, mats):
    tl, oi = res
    qubits = sorted({q for b in case["blocks"] for q in b} | set(case["inds"]))
    pos = {q: i for i, q in enumerate(qubits)}
    n = len(qubits)
    flat = [q for l in oi for q in l]
    if len(set(flat)) != len(flat) or set(flat) != set(qubits) or len(tl) != len(oi):
        return False, "blocks do not partition the qubits"
    rs = np.random.RandomState(777)
    ncol = min(2 ** n, 4)
    X = rs.normal(size=(2 ** n, ncol)) + 1j * rs.normal(size=(2 ** n, ncol))
    ops = [(M, [pos[q] for q in b]) for M, b in zip(mats[:-1], case["blocks"])] + [(mats[-1], [pos[q] for q in case["inds"]])]
    exp = apply_circuit(ops, n, X)
    for T, l in zip(tl, oi):
        if T.shape != (2 ** len(l), 2 ** len(l)):
            return False, "block shape does not match its index list"
    got = apply_circuit([(T, [pos[q] for q in l]) for T, l in zip(tl, oi)], n, X)
    d = maxdiff(got, exp)
    return d < 1e-9, f"max deviation {d:.3g}"


# ---- exact cases (Gaussian integers) ----
def gi_lit(z):
    return f"({int(round(z.real))}, {int(round(z.imag))})%Z"


def gi_tab(M):
    return "[" + "; ".join("[" + "; ".join(gi_lit(z) for z in row) + "]" for row in np.asarray(M).tolist()) + "]"


def gi_vec(v):
    return "[" + "; ".join(gi_lit(z) for z in np.asarray(v).reshape(-1).tolist()) + "]"


PHASES = {0: 1, 1: 1j, 2: -1, 3: -1j}

EXACT_PRELUDE = r"""
From Coq Require Import List ZArith. Import ListNotations.
From QV Require Import Found.Base Model.Einsum Model.GateSim.
Definition mt (T : list (list gi)) : mat GI := @mat_of_tab GI T.
Definition kstep (N : nat) (g : sgate GI) (t : list gi) := option_map (tab_of_vec GI N) (ket_step GI N g (vec_of GI t)).
Fixpoint krun N gs t := match gs with [] => Some t | g :: r => match kstep N g t with Some t' => krun N r t' | None => None end end.
Definition ncols N := seq 0 (2 ^ N).
Definition ot_of (N : nat) (T : list (list gi)) : otensor GI nat :=
  fun vs => match last vs (inl false) with
            | inr c => nth c (nth (idx (map (@unb nat) (removelast vs))) T []) (0, 0)%Z
            | inl _ => (0, 0)%Z end.
Definition ot_tab N (X : otensor GI nat) : list (list gi) :=
  map (fun r => map (fun c => X (map inl r ++ [inr c])) (ncols N)) (all_bits N).
Definition ostep (N : nat) (g : sgate GI) (T : list (list gi)) := option_map (ot_tab N) (oper_step GI nat (ncols N) N g (ot_of N T)).
Fixpoint orun N gs T := match gs with [] => Some T | g :: r => match ostep N g T with Some T' => orun N r T' | None => None end end.
Definition dstep (N : nat) (g : sgate GI) (T : list (list gi)) := tab_of_dmat GI N (@dm_step GI gi_conj N g (@mat_of_tab GI T)).
Definition drun N gs T := fold_left (fun T g => dstep N g T) gs T.
Definition eprod (N : nat) (gs : list (sgate GI)) := tab_of_dmat GI N (gsp_expanded N (map (prop_expand N) gs)).
Definition props (N : nat) (gs : list (sgate GI)) := map (fun g => tab_of_dmat GI N (prop_expand N g)) gs.
"""


def exact_case_coq(case):
    N = case["N"]
    gs = []
    for g in case["gates"]:
        if g["name"] == "GLOBALPHASE":
            gs.append(f"@GPhase GI {gi_lit(PHASES[g['phase']])}")
        else:
            gs.append(f"@GMat GI (mt {gi_tab(uncm(case['users'][g['name']]['mat0']))}) {clist_nat(g['targets'])}")
    gl = "[" + "; ".join(gs) + "]"
    v = gi_vec(uncm([case["psi"]])[0])
    X = gi_tab(uncm(case["X"]))
    txt = f"Eval vm_compute in (krun {N} {gl} {v}, orun {N} {gl} {X}, drun {N} {gl} {X}).\n"
    if len(case["gates"]) <= 3:
        txt += f"Eval vm_compute in (eprod {N} {gl}, props {N} {gl}).\n"
    else:
        txt += f"Eval vm_compute in (@nil (list gi), props {N} {gl}).\n"
    return txt


def exact_real(case):
    from qutip import Qobj
    from qutip_qip.circuit import CircuitSimulator
    from qutip_qip.operations import gate_sequence_product
    N = case["N"]
    D = 2 ** N
    dims = [2] * N
    c2 = dict(case, gates=[dict(g, arg=PHASES_ARG[g["phase"]]) if g["name"] == "GLOBALPHASE" else g for g in case["gates"]])
    qc = build(c2)
    psi = uncm([case["psi"]])[0]
    X = uncm(case["X"])
    out = {}

    def guard(name, fn):
        try:
            out[name] = fn()
        except Exception as e:
            out[name] = f"raised {type(e).__name__}: {e}"[:200]
    guard("ket", lambda: qc.run(Qobj(psi.reshape(D, 1), dims=[dims, [1] * N])).full().reshape(D))
    guard("oper", lambda: CircuitSimulator(qc).run(Qobj(X, dims=[dims, dims])).get_final_states(0).full())
    guard("dm", lambda: qc.run(Qobj(X, dims=[dims, dims])).full())
    guard("props", lambda: [P.full() for P in qc.propagators(expand=True)])
    guard("eprod", lambda: gate_sequence_product(qc.propagators(expand=True)).full())
    return out


PHASES_ARG = {0: 0.0, 1: math.pi / 2, 2: math.pi, 3: -math.pi / 2}


def gi_val(t):
    """parsed Coq value of a gi / nested lists of gi -> numpy"""
    if isinstance(t, tuple) and len(t) == 2 and all(isinstance(x, int) for x in t):
        return complex(t[0], t[1])
    return [gi_val(x) for x in t]


# ------------------------------------------------------------------------------------------------
# generators
# ------------------------------------------------------------------------------------------------
GRID = [k * math.pi / 8 for k in range(-8, 9)]


def rand_args(rng, name):
    n = Q.N_PARAMS.get(name, 0)
    if n == 0:
        return None
    vals = [rng.choice(GRID) if rng.random() < 0.4 else round(rng.uniform(-6.5, 6.5), 4) for _ in range(n)]
    return vals[0] if n == 1 else vals


def placed(rng, name, qs):
    nc = Q.N_CONTROLS.get(name, 0)
    g = dict(name=name, targets=list(qs[nc:]), controls=(list(qs[:nc]) if nc else None), arg=rand_args(rng, name))
    return g


def all_placed(N):
    """every library gate on every injective placement (control/target order included) in an N-qubit register"""
    out = []
    for name in LIB:
        k = Q.N_QUBITS[name]
        if k > N:
            continue
        for qs in itertools.permutations(range(N), k):
            out.append((name, list(qs)))
    return out


def rand_user(rng, k, form, integer=False):
    def m():
        if integer:
            return [[[rng.randint(-2, 2), rng.randint(-2, 2)] for _ in range(2 ** k)] for _ in range(2 ** k)]
        rs = np.random.RandomState(rng.randrange(2 ** 31))
        return cm(rand_unitary(rs, k))
    u = dict(form=form, mat0=m())
    if form == "fun1":
        u["mat1"] = m()
    return u


def gen_random_circuit(rng, maxN=6, maxg=8):
    N = rng.choice([1, 2, 3, 3, 4, 4, 5, 6][:max(1, min(8, maxN + 2))])
    N = min(N, maxN)
    ng = rng.randint(0 if rng.random() < 0.03 else 1, maxg)
    users = {}
    gates = []
    for _ in range(ng):
        r = rng.random()
        if r < 0.12:
            gates.append(dict(name="GLOBALPHASE", targets=None, controls=None, arg=round(rng.uniform(-3, 3), 4)))
            continue
        if r < 0.30:
            k = rng.choice([1, 1, 2, 3])
            if k <= N:
                form = rng.choice(["oper", "fun0", "fun1"])
                name = f"U{len(users)}_{form}"
                users[name] = rand_user(rng, k, form)
                gates.append(dict(name=name, targets=rng.sample(range(N), k), controls=None,
                                  arg=(round(rng.uniform(-2, 2), 3) if form == "fun1" else None)))
                continue
        pool = [n for n in LIB if Q.N_QUBITS[n] <= N]
        w = [3 if Q.N_QUBITS[n] == 3 else (2 if Q.N_QUBITS[n] == 2 else 1) for n in pool]
        name = rng.choices(pool, weights=w)[0]
        gates.append(placed(rng, name, rng.sample(range(N), Q.N_QUBITS[name])))
    return dict(kind="circuit", N=N, gates=gates, users=users, seed=rng.randrange(2 ** 31))


def gen_phase_circuit(rng):
    """step-through circuits with GLOBALPHASE (non-zero angle) after one-/multi-qubit gates, in the middle and at the end"""
    N = rng.choice([2, 3, 3, 4])
    gates = []
    for _ in range(rng.randint(2, 5)):
        pool = [n for n in LIB if Q.N_QUBITS[n] <= N]
        name = rng.choice(["RY", "RX", "SNOT", "RZ"]) if rng.random() < 0.5 else rng.choice(pool)
        k = Q.N_QUBITS[name]
        qs = [rng.randrange(1, N - 1)] if (k == 1 and N >= 3 and rng.random() < 0.6) else rng.sample(range(N), k)
        gates.append(placed(rng, name, qs))
        if rng.random() < 0.55:
            gates.append(dict(name="GLOBALPHASE", targets=None, controls=None, arg=rng.choice([0.3, math.pi / 2, -1.1, 2.5])))
    if rng.random() < 0.5:
        gates.append(dict(name="GLOBALPHASE", targets=None, controls=None, arg=rng.choice([0.3, math.pi / 2, -1.1])))
    return dict(kind="circuit", N=N, gates=gates, users={}, seed=rng.randrange(2 ** 31),
                paths=["kept", "step", "step_dm", "run_ket", "unitary"])


ONE_CTRL = ["CRX", "CRY", "CRZ", "CX", "CY", "CS", "CT", "CNOT", "CZ", "CSIGN", "CPHASE"]


def class_keys():
    from qutip_qip.operations import GATE_CLASS_MAP
    return sorted(k for k in GATE_CLASS_MAP if k in Q.N_QUBITS)


def obj_gate(rng, N, cls, shared_arg):
    """a gate description built from class `cls` (key of GATE_CLASS_MAP); parametrised gates take the circuit's shared angle"""
    k = Q.N_QUBITS[cls]
    nc = Q.N_CONTROLS.get(cls, 0)
    qs = rng.sample(range(N), k)
    npar = Q.N_PARAMS.get(cls, 0)
    arg = None
    if npar == 1:
        arg = shared_arg
    elif npar > 1:
        arg = [shared_arg] * npar
    return dict(name=cls, cls=cls, targets=qs[nc:], controls=(qs[:nc] if nc else None), arg=arg)


def gen_object_circuit(rng, force=None):
    """circuits whose gates are OBJECTS built from the gate classes (GATE_CLASS_MAP, ControlledGate, a user-defined Gate subclass),
    with equal arg_value across gates and gates that share gate.name but have different matrices, mixed with gates added by name"""
    N = rng.choice([2, 3, 3, 4])
    keys = [c for c in class_keys() if Q.N_QUBITS[c] <= N]
    shared = rng.choice([0.7, math.pi / 2, -1.3, 2.0])
    gates = []
    if force and Q.N_QUBITS[force] <= N:
        gates.append(obj_gate(rng, N, force, shared))
    n = rng.randint(2, 6)
    while len(gates) < n:
        r = rng.random()
        if r < 0.40:
            gates.append(obj_gate(rng, N, rng.choice(ONE_CTRL), shared))
        elif r < 0.55:
            nc = rng.choice([1, 1, 2]) if N >= 3 else 1
            qs = rng.sample(range(N), nc + 1)
            tg = rng.choice(["RX", "RY", "RZ", "X", "Y", "S", "T", "H"])
            gates.append(dict(name="CTRL:" + tg, cls="ControlledGate", target_gate=tg, controls=qs[:nc], targets=qs[nc:],
                              control_value=rng.randrange(2 ** nc), arg=(shared if tg in ("RX", "RY", "RZ") else None)))
        elif r < 0.70:
            k = rng.choice([1, 1, 2]) if N >= 2 else 1
            rs = np.random.RandomState(rng.randrange(2 ** 31))
            gates.append(dict(name="UserSubGate", cls="UserSubGate", targets=rng.sample(range(N), k), controls=None,
                              matrix=cm(rand_unitary(rs, k)), arg=rng.choice([None, shared]),
                              obj_name=rng.choice([None, None, "MYGATE"])))
        elif r < 0.90:
            gates.append(obj_gate(rng, N, rng.choice(keys), shared))
        else:
            name = rng.choice([c for c in LIB if Q.N_QUBITS[c] <= N])
            g = placed(rng, name, rng.sample(range(N), Q.N_QUBITS[name]))
            if Q.N_PARAMS.get(name, 0) == 1:
                g["arg"] = shared
            gates.append(g)
    rng.shuffle(gates)
    return dict(kind="circuit", N=N, gates=gates, users={}, seed=rng.randrange(2 ** 31))


BOUNDARY = [0, 0.0, 2 * math.pi, -2 * math.pi, 4 * math.pi, 6 * math.pi, math.pi, -math.pi, 3 * math.pi, math.pi / 2]
PARAM1 = ["RX", "RY", "RZ", "PHASEGATE", "CRX", "CRY", "CRZ", "CPHASE", "SWAPalpha", "RZX"]
PARAMN = ["R", "QASMU", "MS"]


def _fixed_gate(rng, N):
    name = rng.choice(["SNOT", "X", "CNOT", "S", "SQRTNOT", "ISWAP", "T", "CY"])
    return placed(rng, name, rng.sample(range(N), Q.N_QUBITS[name]))


def gen_boundary_cases(rng, full=True):
    """every parametrised gate kind (by name, class-built, generic ControlledGate, one-parameter user gate, GLOBALPHASE) at the
    exact angles 0 (int and float), +-2pi, 4pi, 6pi, +-pi, 3pi, pi/2, between two fixed gates, through every path"""
    out = []
    rsm = np.random.RandomState(rng.randrange(2 ** 31))
    for ai, ang in enumerate(BOUNDARY):
        kinds = []
        for name in PARAM1:
            kinds.append(("name", name))
        for cls in ["RX", "RY", "RZ", "CRX", "CRY", "CRZ", "CPHASE", "SWAPALPHA", "RZX"]:
            kinds.append(("cls", cls))
        kinds += [("ctrl", "RX"), ("ctrl", "RZ"), ("user1", 1), ("user1", 2), ("phase", None)]
        for name in PARAMN:
            kinds.append(("multi", name))
        for ki, (kind, what) in enumerate(kinds):
            if not full and (ki + ai) % 3 and not (ai == 2 + ki % 4):
                continue          # quick: every kind still meets 0, a non-zero multiple of 2*pi and other angles
            N = rng.choice([2, 3, 3])
            users = {}
            if kind == "name":
                g = placed(rng, what, rng.sample(range(N), Q.N_QUBITS[what]))
                g["arg"] = ang
            elif kind == "cls":
                g = obj_gate(rng, N, what, ang)
            elif kind == "ctrl":
                qs = rng.sample(range(N), 2)
                g = dict(name="CTRL:" + what, cls="ControlledGate", target_gate=what, controls=qs[:1], targets=qs[1:],
                         control_value=rng.randrange(2), arg=ang)
            elif kind == "user1":
                k = min(what, N)
                users["UF1"] = dict(form="fun1", mat0=cm(rand_unitary(rsm, k)), mat1=cm(rand_unitary(rsm, k)))
                g = dict(name="UF1", targets=rng.sample(range(N), k), controls=None, arg=ang)
            elif kind == "phase":
                g = dict(name="GLOBALPHASE", targets=None, controls=None, arg=ang)
            else:
                npar = Q.N_PARAMS[what]
                slot = rng.randrange(npar)
                g = placed(rng, what, rng.sample(range(N), Q.N_QUBITS[what]))
                g["arg"] = [ang if i == slot else rng.choice([0.7, ang, 0.0]) for i in range(npar)]
            gates = [_fixed_gate(rng, N), g, _fixed_gate(rng, N)]
            out.append(dict(kind="circuit", N=N, gates=gates, users=users, seed=rng.randrange(2 ** 31), sweep="boundary-angle"))
    return out


CONTROLLED_LIB = ["CNOT", "CX", "CY", "CZ", "CSIGN", "CS", "CT", "CRX", "CRY", "CRZ", "CPHASE"]


def gen_libname_user(rng, name=None):
    """user gates registered under a LIBRARY gate name (the docstring of QubitCircuit uses 'T'): the circuit's user_gates entry
    defines the gate; fixed operator / 0- / 1-parameter function; added by name (or as an instance of the library class of that
    name), alone and mixed with library gates of other names and user gates with fresh names"""
    from qutip_qip.operations import GATE_CLASS_MAP
    keys = sorted(k for k in GATE_CLASS_MAP if k in Q.N_QUBITS)
    N = rng.choice([2, 3, 3, 4])
    name = name or rng.choice(keys)
    if Q.N_QUBITS[name] > N:
        N = 3
    rsm = np.random.RandomState(rng.randrange(2 ** 31))
    users = {}
    form = rng.choice(["oper", "fun0", "fun1", "fun1"])
    k = Q.N_QUBITS[name] if rng.random() < 0.85 else rng.choice([1, 2])
    users[name] = dict(form=form, mat0=cm(rand_unitary(rsm, k)))
    if form == "fun1":
        users[name]["mat1"] = cm(rand_unitary(rsm, k))
    arg = rng.choice([0, 0.0, 2 * math.pi, 0.7, -1.3]) if form == "fun1" else None
    g = dict(name=name, targets=rng.sample(range(N), k), controls=None, arg=arg)
    if name not in CONTROLLED_LIB and k == Q.N_QUBITS[name] and Q.N_PARAMS.get(name, 0) <= 1 and rng.random() < 0.25:
        if Q.N_PARAMS.get(name, 0) == 0 or arg is not None:
            g["cls"] = name          # an instance of the library class carrying the user-defined name
            g["obj_name"] = name
    gates = [g]
    for _ in range(rng.choice([0, 0, 1, 2, 3])):
        r = rng.random()
        if r < 0.6:
            other = rng.choice([c for c in LIB if c != name and Q.N_QUBITS[c] <= N])
            gates.append(placed(rng, other, rng.sample(range(N), Q.N_QUBITS[other])))
        elif r < 0.8:
            fresh = f"FRESH{len(users)}"
            users[fresh] = dict(form="oper", mat0=cm(rand_unitary(rsm, 1)))
            gates.append(dict(name=fresh, targets=[rng.randrange(N)], controls=None, arg=None))
        else:
            gates.append(dict(g, targets=rng.sample(range(N), k)))
    rng.shuffle(gates)
    return dict(kind="circuit", N=N, gates=gates, users=users, seed=rng.randrange(2 ** 31), sweep="library-named user gate")


def gen_malformed(rng):
    N = rng.choice([2, 3])
    kind = rng.choice(["user_controls", "user_fun2", "user_other", "user_arity"])
    users = {}
    if kind == "user_controls":
        users["UG"] = rand_user(rng, 1, rng.choice(["oper", "fun0", "fun1"]))
        g = dict(name="UG", targets=[0], controls=[1], arg=0.5)
    elif kind == "user_fun2":
        users["UG"] = rand_user(rng, 1, "fun2")
        g = dict(name="UG", targets=[rng.randrange(N)], controls=None, arg=0.5)
    elif kind == "user_other":
        users["UG"] = rand_user(rng, 1, "other")
        g = dict(name="UG", targets=[rng.randrange(N)], controls=None, arg=None)
    else:
        users["UG"] = rand_user(rng, 2, "oper")
        g = dict(name="UG", targets=[rng.randrange(N)], controls=None, arg=None)
    pre = [placed(rng, "RX", [rng.randrange(N)])] if rng.random() < 0.5 else []
    return dict(kind="circuit", N=N, gates=pre + [g], users=users, seed=rng.randrange(2 ** 31), malformed=kind)


def gen_gsp(rng, big):
    """index lists for the compact product. big: 9..11 distinct qubits so that ranks >= 8 occur (set-order sensitivity)"""
    if big:
        n = rng.choice([9, 9, 9, 10])
        universe = sorted(rng.sample(range(0, 14), n)) if rng.random() < 0.5 else list(range(n))
        lists = [[q] for q in universe]
        rng.shuffle(lists)
        if rng.random() < 0.5:
            lists = lists[:]
        for _ in range(rng.randint(1, 3)):
            k = rng.choice([2, 2, 2, 3])
            hi = rng.sample(universe[8:], 1)
            rest = rng.sample([q for q in universe if q not in hi], k - 1)
            l = hi + rest
            rng.shuffle(l)
            lists.append(l)
        return dict(kind="gsp", inds_list=lists, seed=rng.randrange(2 ** 31))
    n = rng.randint(1, 6)
    universe = rng.sample(range(0, 12), n)
    lists = []
    for _ in range(rng.randint(1, 7)):
        k = rng.choice([1, 1, 2, 2, 3])
        k = min(k, n)
        lists.append(rng.sample(universe, k))
    return dict(kind="gsp", inds_list=lists, seed=rng.randrange(2 ** 31))


def gen_mult(rng):
    """direct _mult_sublists call: disjoint blocks over qubit labels 0..12, a new gate hitting at least one block"""
    nb = rng.randint(1, 4)
    sizes = [rng.choice([1, 1, 2, 3]) for _ in range(nb)]
    qs = rng.sample(range(0, 13), sum(sizes))
    blocks = []
    for k in sizes:
        blocks.append(qs[:k])
        qs = qs[k:]
    used = [q for b in blocks for q in b]
    k = rng.choice([1, 2, 2, 3])
    hit = rng.choice(used)
    others = [q for q in range(13) if q != hit]
    inds = [hit] + rng.sample(others, k - 1)
    rng.shuffle(inds)
    return dict(kind="mult", blocks=blocks, inds=inds, seed=rng.randrange(2 ** 31))


def gen_exact(rng):
    N = rng.choice([1, 2, 2, 3, 3])
    users = {}
    gates = []
    for i in range(rng.randint(1, 4)):
        if rng.random() < 0.15:
            gates.append(dict(name="GLOBALPHASE", targets=None, controls=None, phase=rng.randrange(4)))
            continue
        k = rng.randint(1, min(N, 3))
        name = f"G{i}"
        users[name] = rand_user(rng, k, "oper", integer=True)
        gates.append(dict(name=name, targets=rng.sample(range(N), k), controls=None, arg=None))
    D = 2 ** N
    psi = [[rng.randint(-3, 3), rng.randint(-3, 3)] for _ in range(D)]
    X = [[[rng.randint(-2, 2), rng.randint(-2, 2)] for _ in range(D)] for _ in range(D)]
    return dict(kind="exact", N=N, gates=gates, users=users, psi=psi, X=X)


# ------------------------------------------------------------------------------------------------
# driver
# ------------------------------------------------------------------------------------------------
def load_corpus():
    d = os.path.join(VERIF, "corpus", "C01")
    out = []
    if os.path.isdir(d):
        for f in sorted(os.listdir(d)):
            if f.endswith(".json"):
                import json
                out.append(json.load(open(os.path.join(d, f))))
    return out


def key_of(case):
    import json
    return json.dumps({k: v for k, v in case.items() if k not in ("users", "seed", "psi", "X")}, sort_keys=True, default=str)[:400]


# ---- registers with subsystems of dimension 2 or 3 (QubitCircuit(N, dims=[...])), user gates given as matrices ----
def apply_dims(T, M, targets, dims):
    """T: array whose first len(dims) axes have sizes dims; apply M on the subsystems `targets` (listed order = index order of M)"""
    td = [dims[t] for t in targets]
    k = len(targets)
    Mt = np.asarray(M, dtype=complex).reshape(td + td)
    R = np.tensordot(Mt, T, axes=(list(range(k, 2 * k)), list(targets)))
    return np.moveaxis(R, list(range(k)), list(targets))


def qudit_expected(case, X):
    dims = case["dims"]
    X = np.asarray(X, dtype=complex)
    T = X.reshape(list(dims) + ([X.shape[1]] if X.ndim == 2 else []))
    for g in case["gates"]:
        M = uncm(case["users"][g["name"]]["mat0"]) if g["name"] in case["users"] else Q.np_gate(g["name"], g.get("arg"))
        T = apply_dims(T, M, g["targets"], dims)
    return T.reshape(X.shape)


def gen_qudit(rng):
    N = rng.choice([1, 2, 2, 3])
    dims = [rng.choice([2, 3]) for _ in range(N)]
    if all(d == 2 for d in dims):
        dims[rng.randrange(N)] = 3
    users, gates = {}, []
    rsm = np.random.RandomState(rng.randrange(2 ** 31))
    for i in range(rng.randint(1, 4)):
        qubits = [q for q in range(N) if dims[q] == 2]
        if qubits and rng.random() < 0.25:
            name = rng.choice(["X", "SNOT", "RY", "S"])
            gates.append(dict(name=name, targets=[rng.choice(qubits)], controls=None, arg=(0.7 if name == "RY" else None)))
            continue
        k = rng.choice([1, 1, 2]) if N >= 2 else 1
        ts = rng.sample(range(N), k)
        d = int(np.prod([dims[t] for t in ts]))
        A = rsm.normal(size=(d, d)) + 1j * rsm.normal(size=(d, d))
        name = f"QD{i}"
        users[name] = dict(form=rng.choice(["oper", "fun0"]), mat0=cm(np.linalg.qr(A)[0]), dims=[dims[t] for t in ts])
        gates.append(dict(name=name, targets=ts, controls=None, arg=None))
    return dict(kind="qudit", N=N, dims=dims, gates=gates, users=users, seed=rng.randrange(2 ** 31))


def check_qudit(case):
    """every path on a register with dims in {2,3}; a path that raises on this well-formed circuit is an oracle failure"""
    from qutip import Qobj
    from qutip_qip.circuit import QubitCircuit, CircuitSimulator
    from qutip_qip.operations import gate_sequence_product
    dims = case["dims"]
    N = case["N"]
    D = int(np.prod(dims))
    rs = np.random.RandomState(case["seed"] % (2 ** 31))
    ug = {}
    for name, u in case["users"].items():
        q = Qobj(uncm(u["mat0"]), dims=[u["dims"], u["dims"]])
        ug[name] = q if u["form"] == "oper" else _fun0(uncm(u["mat0"]), [u["dims"], u["dims"]])
    psi = rs.normal(size=D) + 1j * rs.normal(size=D)
    psi /= np.linalg.norm(psi)
    A = rs.normal(size=(D, D)) + 1j * rs.normal(size=(D, D))
    rho = A @ A.conj().T
    rho /= np.trace(rho)
    X = rs.normal(size=(D, D)) + 1j * rs.normal(size=(D, D))
    E = qudit_expected(case, np.eye(D))
    out = []

    def attempt(path, fn, expected):
        try:
            got = fn()
        except Exception as e:
            out.append(dict(input=dict(case, path=path), observed=f"{type(e).__name__}: {e}"[:300], expected="a result",
                            what=f"register with dims {{2,3}} ({GROUP.get(path, path)}): the real code raised {type(e).__name__}"))
            return
        d = maxdiff(got, expected)
        if not d < 1e-9:
            out.append(dict(input=dict(case, path=path), observed=f"max deviation {d:.3g}", expected="deviation < 1e-9",
                            what=f"register with dims {{2,3}} ({GROUP.get(path, path)}): result differs from the ordered product of embedded matrices"))

    def mk():
        qc = QubitCircuit(N, dims=list(dims), user_gates=ug)
        for g in case["gates"]:
            qc.add_gate(g["name"], targets=list(g["targets"]), arg_value=g.get("arg"))
        return qc
    try:
        qc = mk()
    except Exception as e:
        return [dict(input=dict(case, path="build"), observed=f"{type(e).__name__}: {e}"[:300], expected="a circuit",
                     what="register with dims {2,3}: circuit construction raised")]
    ket = Qobj(psi.reshape(D, 1), dims=[list(dims), [1] * N])
    rhoq = Qobj(rho, dims=[list(dims), list(dims)])
    Xq = Qobj(X, dims=[list(dims), list(dims)])
    attempt("run_ket", lambda: qc.run(ket).full().reshape(D), E @ psi)
    attempt("run_dm", lambda: qc.run(rhoq).full(), E @ rho @ E.conj().T)
    attempt("dm_ket", lambda: CircuitSimulator(qc, mode="density_matrix_simulator").run(ket).get_final_states(0).full(),
            np.outer(E @ psi, (E @ psi).conj()))
    attempt("unitary", lambda: qc.compute_unitary().full(), E)
    attempt("oper", lambda: CircuitSimulator(qc).run(Xq).get_final_states(0).full(), E @ X)
    attempt("expanded", lambda: gate_sequence_product(qc.propagators(expand=True)).full(), E)

    def stepper():
        sim = CircuitSimulator(qc)
        sim.initialize(ket)
        held = []
        for _ in case["gates"]:
            sim.step()
            held.append(sim.state)
        worst = 0.0
        for i, h in enumerate(held):
            worst = max(worst, maxdiff(h.full().reshape(D), qudit_expected(dict(case, gates=case["gates"][:i + 1]), psi)))
        return np.array([worst])
    attempt("step", stepper, np.array([0.0]))
    return out


def process(corr, case, coq, einsum_seen):
    """run one case on the real code, register oracle failures, queue model evaluations"""
    kind = case.get("kind")
    if kind == "circuit":
        corr.tally("circuit" if "malformed" not in case else "malformed:" + case["malformed"])
        if is_wellformed(case):
            trace = []
            for path, obs, exp, what in run_paths(case, trace):
                corr.oracle_fail(dict(case, path=path), obs, exp, what)
            for sshape, gshape, lG, lS, lO in trace:
                k = len(gshape) // 2
                einsum_seen.setdefault((len(sshape), tuple(lG[k:])), (lG, lS, lO))
            nontriv = len(case["gates"]) >= 2 or any(len((g.get("controls") or []) + (g.get("targets") or [])) >= 2 for g in case["gates"])
            corr.count(key_of(case), nontrivial=nontriv, sample=case if len(case["gates"]) <= 3 else None)
        else:
            for f in check_malformed(case):
                corr.oracle_fail(f["input"], f["observed"], f["expected"], f["what"])
            corr.count(key_of(case), nontrivial=True)
    elif kind == "gsp":
        corr.tally("gsp-big" if len({q for l in case["inds_list"] for q in l}) >= 9 else "gsp")
        res, table, mats, err = run_gsp(case)
        if res is None:
            if case["inds_list"] and all(len(set(l)) == len(l) for l in case["inds_list"]):
                corr.oracle_fail(dict(case, path="compact"), err, "a product", "compact product raised on a well-formed input")
        else:
            ok, detail = gsp_expected_ok(case, res, mats)
            if not ok:
                corr.oracle_fail(dict(case, path="compact", set_orders=table), detail, "deviation < 1e-9",
                                 "compact gate_sequence_product differs from the ordered product")
        coq.append(("gsp", case, res, table, mats))
        corr.count(key_of(case), nontrivial=len(case["inds_list"]) >= 2)
    elif kind == "mult":
        res, table, mats, err = run_mult(case)
        if res == "absent":
            corr.tally("mult-skipped")
            return
        corr.tally("mult")
        if res is None:
            corr.oracle_fail(dict(case, path="_mult_sublists"), err, "blocks", "_mult_sublists raised on a well-formed input")
        else:
            ok, detail = mult_expected_ok(case, res, mats)
            if not ok:
                corr.oracle_fail(dict(case, path="_mult_sublists", set_orders=table), detail, "deviation < 1e-9",
                                 "_mult_sublists: revised blocks differ from (old blocks, then U)")
        coq.append(("mult", case, res, table, mats))
        corr.count(key_of(case), nontrivial=True)
    elif kind == "qudit":
        corr.tally("qudit-register")
        for f in check_qudit(case):
            corr.oracle_fail(f["input"], f["observed"], f["expected"], f["what"])
        corr.count(key_of(case), nontrivial=True, sample=None)
    elif kind == "exact":
        corr.tally("exact")
        coq.append(("exact", case, exact_real(case), None, None))
        corr.count(key_of(case), nontrivial=True)


def coq_block_lit(case):
    bl = []
    for j, b in enumerate(case["blocks"]):
        bl.append(f"([({j}, {clist_nat(range(len(b)))})], {clist_nat(b)})")
    return "[" + "; ".join(bl) + "]"


def evaluate_models(ctx, corr, coq, einsum_seen):
    files = []
    chunk = 120
    gsp_items = [c for c in coq if c[0] in ("gsp", "mult")]
    for ci in range(0, len(gsp_items), chunk):
        txt = "From Coq Require Import List Arith. Import ListNotations.\nFrom QV Require Import Model.GSP.\n"
        for kind, case, res, table, mats in gsp_items[ci:ci + chunk]:
            tab = coq_table(table)
            if kind == "gsp":
                L = "[" + "; ".join(clist_nat(l) for l in case["inds_list"]) + "]"
                txt += f"Eval vm_compute in (gsp_top (ord_table {tab}) {L}, gsp_top ord_sorted {L}).\n"
            else:
                U = f"[({len(case['blocks'])}, {clist_nat(range(len(case['inds'])))})]"
                txt += (f"Eval vm_compute in (mult_sublists (ord_table {tab}) {coq_block_lit(case)} {U} {clist_nat(case['inds'])}, "
                        f"mult_sublists ord_sorted {coq_block_lit(case)} {U} {clist_nat(case['inds'])}).\n")
        files.append((f"c01_{ctx.tier}_gsp_{ci // chunk}", txt))
    ex_items = [c for c in coq if c[0] == "exact"]
    echunk = 25
    for ci in range(0, len(ex_items), echunk):
        txt = EXACT_PRELUDE
        for kind, case, real, _, _ in ex_items[ci:ci + echunk]:
            txt += exact_case_coq(case)
        files.append((f"c01_{ctx.tier}_exact_{ci // echunk}", txt))
    keys = sorted(einsum_seen)
    if keys:
        txt = "From Coq Require Import List Arith. Import ListNotations.\nFrom QV Require Import Model.Einsum.\n"
        txt += "Eval vm_compute in map (fun p => einsum_labels (fst p) (snd p)) [" + "; ".join(
            f"({n}, {clist_nat(ts)})" for n, ts in keys) + "].\n"
        files.append((f"c01_{ctx.tier}_einsum", txt))
    outs = coq_eval_many(files, timeout=900)

    # (a) einsum labels
    if keys:
        vals = parse_evals(outs[f"c01_{ctx.tier}_einsum"])[0]
        for (n, ts), v in zip(keys, vals):
            lG, lS, lO = einsum_seen[(n, ts)]
            model = None if v is None else [list(x) for x in v[1]]
            impl = [lG, lS, lO]
            corr.count(("einsum", n, ts), nontrivial=len(ts) >= 1)
            corr.tally("einsum-labels")
            if model != impl:
                corr.disagree(dict(kind="einsum", num_site=n, targets=list(ts)), impl, model, "einsum label lists")
    # (b) gsp / mult
    for ci in range(0, len(gsp_items), chunk):
        vals = parse_evals(outs[f"c01_{ctx.tier}_gsp_{ci // chunk}"])
        for (kind, case, res, table, mats), v in zip(gsp_items[ci:ci + chunk], vals):
            m_obs, m_sorted = v
            if kind == "gsp":
                compare_gsp(corr, case, res, table, mats, m_obs, m_sorted)
            else:
                compare_mult(corr, case, res, table, mats, m_obs, m_sorted)
    # (c) exact
    for ci in range(0, len(ex_items), echunk):
        vals = parse_evals(outs[f"c01_{ctx.tier}_exact_{ci // echunk}"])
        for j, (kind, case, real, _, _) in enumerate(ex_items[ci:ci + echunk]):
            compare_exact(corr, case, real, vals[2 * j], vals[2 * j + 1])


def _some(v):
    return v[1] if isinstance(v, tuple) and len(v) == 2 and v[0] == "Some" else None


def compare_gsp(corr, case, res, table, mats, m_obs, m_sorted):
    inp = dict(case, set_orders=table)
    mo = _some(m_obs)
    if (mo is None) != (res is None):
        corr.disagree(inp, "raised" if res is None else "returned", "None" if mo is None else "Some", "compact product: accepted/refused")
        return
    if res is None:
        return
    fc, inds = mo
    U, oi = res
    if [int(i) for i in inds] != oi:
        corr.disagree(inp, oi, inds, "compact product: returned index list")
        return
    k = len(oi)
    rs = np.random.RandomState(99)
    X = rs.normal(size=(2 ** k, min(2 ** k, 4))) + 0j
    d = maxdiff(fc_apply(fc, mats, k, X), U @ X)
    if not d < 1e-9:
        corr.disagree(inp, f"matrix deviates by {d:.3g}", "formal circuit of the model", "compact product: returned matrix")
    # the theorems are about the ascending oracle: the code must behave like that model
    ms = _some(m_sorted)
    if ms is None or [int(i) for i in ms[1]] != oi or not maxdiff(fc_apply(ms[0], mats, k, X), U @ X) < 1e-9:
        corr.disagree(inp, dict(inds=oi), "model under ascending set order",
                      "compact product deviates from the model with ascending set enumeration (hypothesis of gsp_correct)")


def compare_mult(corr, case, res, table, mats, m_obs, m_sorted):
    inp = dict(case, set_orders=table)
    mo = _some(m_obs)
    if (mo is None) != (res is None):
        corr.disagree(inp, "raised" if res is None else "returned", "None" if mo is None else "Some", "_mult_sublists: accepted/refused")
        return
    if res is None:
        return
    tl, oi = res
    if [[int(i) for i in b[1]] for b in mo] != oi:
        corr.disagree(inp, oi, [b[1] for b in mo], "_mult_sublists: revised index lists")
        return
    for (fc, inds), T in zip(mo, tl):
        k = len(inds)
        X = np.eye(2 ** k, dtype=complex)
        d = maxdiff(fc_apply(fc, mats, k, X), T)
        if not d < 1e-9:
            corr.disagree(inp, f"block deviates by {d:.3g}", "formal circuit of the model", "_mult_sublists: block matrix")
            return
    ms = _some(m_sorted)
    if ms is None or [[int(i) for i in b[1]] for b in ms] != oi:
        corr.disagree(inp, oi, None if ms is None else [b[1] for b in ms],
                      "_mult_sublists deviates from the model with ascending set enumeration (hypothesis of gsp_correct)")


def compare_exact(corr, case, real, v1, v2):
    krun, orun, drun = v1
    eprod, props = v2
    D = 2 ** case["N"]

    def cmp(name, model, shape):
        r = real[name]
        if isinstance(r, str):
            if model is not None:
                corr.disagree(dict(case, path=name), r, "a table", f"exact run ({name}): the real code raised")
            return
        if model is None:
            corr.disagree(dict(case, path=name), "a result", "None", f"exact run ({name}): the model refuses")
            return
        M = np.array(gi_val(model), dtype=complex).reshape(shape)
        d = maxdiff(M, np.asarray(r).reshape(shape))
        if not d < 1e-9:
            corr.disagree(dict(case, path=name), np.round(np.asarray(r), 6).tolist().__repr__()[:300], str(M.tolist())[:300],
                          f"exact run ({name}): model and implementation differ by {d:.3g}")
    cmp("ket", _some(krun), (D,))
    cmp("oper", _some(orun), (D, D))
    has_phase = any(g["name"] == "GLOBALPHASE" for g in case["gates"])
    if isinstance(real["dm"], str) and has_phase:
        pass  # the refusal of GLOBALPHASE in density-matrix mode is reported by the property oracle (circuit cases)
    else:
        cmp("dm", drun, (D, D))
    if len(case["gates"]) <= 3:
        cmp("eprod", eprod, (D, D))
    if not isinstance(real["props"], str):
        for i, (P, Mp) in enumerate(zip(real["props"], props)):
            d = maxdiff(np.array(gi_val(Mp), dtype=complex), P)
            if not d < 1e-9:
                corr.disagree(dict(case, path="props", index=i), "propagator", "prop_expand", f"exact run: propagator {i} differs by {d:.3g}")


def correspond(ctx):
    corr = Corr(rule="one case = one circuit / index-list sequence run through every observation point of the real code and the "
                     "Coq model; non-trivial = at least two gates or a multi-qubit gate (circuits), >= 2 index lists (compact product), "
                     "every _mult_sublists / exact / malformed / einsum-label case")
    rng = ctx.rng
    coq = []
    einsum_seen = {}
    cases = []
    cases += load_corpus()
    # every placed library gate on <= 3 qubits (thorough), a seeded sample in quick
    singles = all_placed(3) + all_placed(2) + all_placed(1)
    if not ctx.thorough:
        singles = rng.sample(singles, 60)
    for name, qs in singles:
        N = max(qs) + 1 if rng.random() < 0.3 else 3
        cases.append(dict(kind="circuit", N=max(N, max(qs) + 1), gates=[placed(rng, name, qs)], users={}, seed=rng.randrange(2 ** 31)))
    # ordered pairs of placed gates on 3 qubits: ALL of them in thorough (in a seeded random order, processed last and
    # cut off by a time budget - the evidence notes how many were reached), a seeded sample in quick
    P3 = all_placed(3)
    if ctx.thorough:
        pairs = [(a, b) for a in P3 for b in P3]
        rng.shuffle(pairs)
        cheap = ["unitary", "compact", "run_ket", "run_dm"]
    else:
        pairs = [(rng.choice(P3), rng.choice(P3)) for _ in range(150)]
        cheap = None
    pair_cases = []
    for i, (a, b) in enumerate(pairs):
        c = dict(kind="circuit", N=3, gates=[placed(rng, a[0], a[1]), placed(rng, b[0], b[1])], users={}, seed=rng.randrange(2 ** 31))
        if cheap and i % 8:
            c["paths"] = cheap
        pair_cases.append(c)
    for _ in range(ctx.n(150, 1200)):
        cases.append(gen_random_circuit(rng))
    for _ in range(ctx.n(40, 300)):
        cases.append(gen_phase_circuit(rng))
    # registers with subsystems of dimension 2 or 3 and user gates given as matrices of the right dimension
    for _ in range(ctx.n(40, 400)):
        cases.append(gen_qudit(rng))
    # exact boundary angles on every parametrised gate kind; user gates named like library gates
    cases += gen_boundary_cases(rng, full=ctx.thorough)
    from qutip_qip.operations import GATE_CLASS_MAP as _GCM
    for nm in sorted(k for k in _GCM if k in Q.N_QUBITS):
        cases.append(gen_libname_user(rng, nm))
    for _ in range(ctx.n(20, 400)):
        cases.append(gen_libname_user(rng))
    # gate OBJECTS built from the gate classes: every class of GATE_CLASS_MAP at least once per run, then random mixes
    for cls in class_keys():
        cases.append(gen_object_circuit(rng, force=cls))
    for _ in range(ctx.n(60, 600)):
        cases.append(gen_object_circuit(rng))
    for _ in range(ctx.n(25, 100)):
        cases.append(gen_malformed(rng))
    for _ in range(ctx.n(120, 800)):
        cases.append(gen_gsp(rng, big=False))
    for _ in range(ctx.n(14, 60)):
        cases.append(gen_gsp(rng, big=True))
    # empty index lists are scalar factors (GLOBALPHASE propagators); duplicate indices in one list are refused
    for _ in range(ctx.n(20, 120)):
        c = gen_gsp(rng, big=False)
        for _ in range(rng.randint(1, 3)):
            c["inds_list"].insert(rng.randrange(len(c["inds_list"]) + 1), [])
        if rng.random() < 0.15:
            c["inds_list"] = [[] for _ in range(rng.randint(1, 3))]
        cases.append(c)
    for _ in range(ctx.n(8, 40)):
        c = gen_gsp(rng, big=False)
        l = rng.choice(c["inds_list"])
        l.append(rng.choice(l))
        c["malformed"] = "duplicate index"
        cases.append(c)
    for _ in range(ctx.n(250, 2000)):
        cases.append(gen_mult(rng))
    for _ in range(ctx.n(50, 300)):
        cases.append(gen_exact(rng))
    import time
    for case in cases:
        process(corr, case, coq, einsum_seen)
    deadline = ctx.t0 + float(os.environ.get("VERIF_C01_PAIR_BUDGET", "400"))
    done = 0
    for case in pair_cases:
        if ctx.thorough and done % 50 == 0 and time.time() > deadline:
            break
        process(corr, case, coq, einsum_seen)
        done += 1
    corr.extra["ordered_pairs_on_3_qubits"] = dict(total=len(P3) ** 2, run=done)
    if ctx.thorough:
        ctx.notes.append(f"ordered pairs of placed library gates on 3 qubits: {done} of {len(P3) ** 2} run "
                         f"({'exhaustive' if done == len(P3) ** 2 else 'time budget reached; seeded random order'})")
    evaluate_models(ctx, corr, coq, einsum_seen)
    corr.extra["einsum_label_shapes"] = len(einsum_seen)
    return corr


def _libname_refused(inp):
    """user gate registered under a library name whose gate class rejects the placement at add_gate: a controlled-gate name (the
    user gate has no controls) or a different number of qubits than the library gate of that name"""
    users = inp.get("users") or {}
    for g in inp.get("gates", []):
        n = g.get("name")
        if n in users and n in Q.N_QUBITS and not g.get("cls") and g.get("controls") is None:
            k = len(g.get("targets") or [])
            if n in CONTROLLED_LIB or k != Q.N_QUBITS[n]:
                return True
    return False


def classify(f):
    inp = f.get("input") or {}
    if (inp.get("kind") == "circuit" and inp.get("path") == "build" and "add_gate raised" in str(f.get("what", ""))
            and _libname_refused(inp)):
        return "user-gate-library-name-refused"
    if inp.get("kind") == "circuit" and inp.get("path") == "compact_phase_empty" and "raised" in str(f.get("what", "")):
        if any(g.get("name") == "GLOBALPHASE" for g in inp.get("gates", [])):
            return "compact-globalphase-refused"
    return None


def _check(case):
    kind = case.get("kind")
    if kind == "circuit":
        c = {k: v for k, v in case.items() if k not in ("path", "set_orders")}
        if "path" in case and is_wellformed(c):
            c["paths"] = ["compact" if case["path"].startswith("compact") else ("kept" if case["path"].startswith("kept") else case["path"])]
            if case["path"] == "build":
                c["paths"] = ["run_ket"]
            return [f for f in check_circuit(c) if f["input"]["path"] == case["path"]]
        return check_circuit(c)
    fake = Corr()
    coq = []
    process(fake, {k: v for k, v in case.items() if k not in ("path", "set_orders")}, coq, {})
    return fake.oracle_failures


def replay(ctx, rec):
    inp = rec.get("input", rec)
    return bool(_check(inp))


def search(ctx, broken):
    """an obligation broke without a failing input among the generated cases: look harder with the property oracle only"""
    rng = ctx.rng
    out = []
    cases = load_corpus()
    for name, qs in all_placed(3):
        cases.append(dict(kind="circuit", N=3, gates=[placed(rng, name, qs)], users={}, seed=1))
    for _ in range(400):
        cases.append(gen_random_circuit(rng))
    for _ in range(200):
        cases.append(gen_phase_circuit(rng))
    for _ in range(300):
        cases.append(gen_object_circuit(rng))
    for _ in range(200):
        cases.append(gen_qudit(rng))
    cases += gen_boundary_cases(rng)
    for _ in range(300):
        cases.append(gen_libname_user(rng))
    for _ in range(40):
        cases.append(gen_gsp(rng, big=True))
    for _ in range(400):
        cases.append(gen_gsp(rng, big=False))
    for _ in range(1500):
        cases.append(gen_mult(rng))
    for c in cases:
        try:
            out += _check(c)
        except Exception:
            continue
        if len(out) >= 5:
            break
    return out
