"""C09 - library gates: unitary, documented, path-independent.  See DESIGN.md section 5 (C09)."""
import itertools
import math
import os
import sys

import numpy as np

sys.path.insert(0, os.path.dirname(os.path.dirname(os.path.abspath(__file__))))
import qoracle as Q  # noqa: E402
from common import Corr, Broken, coq_eval, parse_evals  # noqa: E402
from translate import gates_tr  # noqa: E402

ID = "C09"
TARGETS = ["Props/C09.vo"]
TRUSTED = [
    "translator tools/translate/gates_tr.py (Python ast -> Found.Sym expression trees; fail-closed; inlines nothing numerically)",
    "Spec/GateSpec.v: documented matrices transcribed by hand (the oracle of 'documented definition')",
    "Found/Sym.v reading of np.cos/np.sin/np.exp/np.sqrt/Qobj/Qobj*Qobj/controlled_gate as exact complex operations; "
    "validated numerically on every run against the running implementation",
    "qutip sigmax/sigmay/sigmaz/qeye taken as the Pauli/identity matrices; scipy block_diag, numpy kernels, IEEE round-off not modelled",
    "controlled_gate for n>1 controls / arbitrary control values is tied by the numeric block-matrix oracle only",
]
ASSUMES = ["parameters range over all reals via the phase-ring quantification (u=e^{i pi/16}, z_j=e^{i theta_j/4} arbitrary units)"]

FN_NAMES = {"x_gate": "X", "y_gate": "Y", "z_gate": "Z", "s_gate": "S", "t_gate": "T", "snot": "SNOT", "sqrtnot": "SQRTNOT",
            "rx": "RX", "ry": "RY", "rz": "RZ", "phasegate": "PHASEGATE", "qrot": "R", "qasmu_gate": "QASMU",
            "cnot": "CNOT", "cy_gate": "CY", "cz_gate": "CZ", "csign": "CSIGN", "cs_gate": "CS", "ct_gate": "CT",
            "cphase": "CPHASE", "swap": "SWAP", "iswap": "ISWAP", "sqrtswap": "SQRTSWAP", "sqrtiswap": "SQRTISWAP",
            "swapalpha": "SWAPalpha", "berkeley": "BERKELEY", "molmer_sorensen": "MS", "toffoli": "TOFFOLI", "fredkin": "FREDKIN"}

DUMP = r"""
From QV Require Import Found.Sym Gen.Gates.
Definition dterm (t : term) := (tc t, Z.of_nat (th t), Z.of_nat (tu t), tz t).
Definition dump (m : mexp) := match mtab m with Some tb => map (map (map dterm)) tb | None => [] end.
Eval vm_compute in map (fun p => (fst p, dump (snd (snd p)))) gates_fn.
Eval vm_compute in map (fun p => (fst p, dump (snd p))) dispatch.
Eval vm_compute in map (fun p => (fst p, dump (snd p))) class_mat.
Eval vm_compute in class_map.
Eval vm_compute in match topoly globalphase_ex with Some p => map dterm p | None => [] end.
"""

_gen = {}


def generate(ctx):
    _gen.clear()
    _gen.update(gates_tr.generate())


def _tables():
    out = coq_eval("c09_dump", DUMP, timeout=300)
    vals = parse_evals(out)
    fn = {k: v for k, v in vals[0]}
    disp = {k: v for k, v in vals[1]}
    cls = {k: v for k, v in vals[2]}
    cmap = {k: v for k, v in vals[3]}
    return fn, disp, cls, cmap, vals[4]


def _samples(ctx, n):
    grid = [k * math.pi / 16 for k in range(-32, 33)]
    special = [0.0, math.pi, -math.pi, 2 * math.pi, 1e-9, 7.5, -9.25]
    per = ctx.n(10, 40)
    out = []
    if n == 0:
        return [[]]
    for s in special[:per]:
        out.append([s] + [ctx.rng.choice(grid) for _ in range(n - 1)])
    while len(out) < per + len(special):
        out.append([ctx.rng.choice(grid) if ctx.rng.random() < 0.6 else ctx.rng.uniform(-7, 7) for _ in range(n)])
    return out


def _impl_paths(name, fname, params):
    """-> {path: matrix} computed by the real code, for every path offering the gate"""
    from qutip_qip.operations import gates as G
    from qutip_qip.operations import Gate, GATE_CLASS_MAP
    from qutip_qip.circuit import QubitCircuit
    res = {}
    nq = Q.N_QUBITS[name]
    nc = Q.N_CONTROLS.get(name, 0)
    arg = None if not params else (params[0] if len(params) == 1 else tuple(params))
    ctr = list(range(nc)) or None
    tgt = list(range(nc, nq))
    if fname is not None:
        f = getattr(G, fname)
        if fname == "qasmu_gate":
            res["function"] = f(list(params)).full()
        else:
            res["function"] = f(*params).full()
    try:
        res["dispatch"] = Gate(name, targets=tgt, controls=ctr, arg_value=arg).get_compact_qobj().full()
    except NotImplementedError:
        pass
    if name in GATE_CLASS_MAP:
        cls = GATE_CLASS_MAP[name]
        kw = dict(targets=tgt, arg_value=arg)
        if nc:
            kw["controls"] = ctr
        try:
            g = cls(**kw)
        except TypeError:
            kw.pop("arg_value")
            g = cls(**kw)
        res["class"] = g.get_compact_qobj().full()
        qc = QubitCircuit(nq)
        qc.add_gate(name, targets=tgt, controls=ctr, arg_value=arg)
        res["circuit"] = qc.compute_unitary().full()
        res["circuit_compact"] = qc.propagators(expand=False)[0].full()
    return res


def _expanded_function_paths(rng, name, fname, params):
    """the gate function's own placement form f(..., N=, target(s)=, control(s)=): -> [(label, matrix, qubits, N)]"""
    import inspect
    import warnings
    from qutip_qip.operations import gates as G
    f = getattr(G, fname)
    sig = inspect.signature(f).parameters
    if "N" not in sig:
        return []
    nq = Q.N_QUBITS[name]
    out = []
    for extra in (0, 1, 2):
        N = nq + extra
        qs = rng.sample(range(N), nq)
        kw = dict(N=N)
        nc = sum(1 for k in ("control",) if k in sig) + (2 if "controls" in sig else 0)
        if "controls" in sig:
            kw["controls"] = qs[:2]
        if "control" in sig:
            kw["control"] = qs[0]
        rest = qs[nc:]
        if "targets" in sig:
            kw["targets"] = list(rest)
        elif "target" in sig:
            kw["target"] = rest[0]
        args = [list(params)] if fname == "qasmu_gate" else list(params)
        with warnings.catch_warnings():
            warnings.simplefilter("ignore")
            M = f(*args, **kw).full()
        out.append((f"function(N={N},{ {k: v for k, v in kw.items() if k != 'N'} })", M, qs, N))
    return out


_POLLUTED = [False]


def _pollute():
    """legal uses of OTHER circuit objects that must not change what a fresh circuit does with a library name:
    circuits carrying user gates named like library gates, merged into plain circuits with add_circuit"""
    from qutip import Qobj
    from qutip_qip.circuit import QubitCircuit
    from qutip_qip.operations import GATE_CLASS_MAP
    ug = {}
    for nm in GATE_CLASS_MAP:
        nq = Q.N_QUBITS.get(nm)
        if nq is None:
            continue
        d = 2 ** nq
        wrong = np.diag(np.exp(1j * (0.3 + np.arange(d))))
        if Q.N_PARAMS.get(nm, 0):
            ug[nm] = (lambda w, q: (lambda a: Qobj(w, dims=[[2] * q, [2] * q])))(wrong, nq)
        else:
            ug[nm] = (lambda w, q: (lambda: Qobj(w, dims=[[2] * q, [2] * q])))(wrong, nq)
    block = QubitCircuit(3, user_gates=ug)
    block.add_gate("T", targets=[0])
    block.add_gate("X", targets=[1])
    block.compute_unitary()
    plain = QubitCircuit(3)
    plain.add_gate("SNOT", targets=[0])
    plain.add_circuit(block)
    plain.compute_unitary()
    other = QubitCircuit(3)
    other.user_gates["S"] = ug["S"]
    other.add_gate("S", targets=[2])
    other.propagators(expand=False)
    _POLLUTED[0] = True


def _check_case(corr, name, fname, params, tabs, rng=None):
    fn, disp, cls, cmap = tabs
    inp = dict(gate=name, function=fname, params=params)
    try:
        impl = _impl_paths(name, fname, params)
    except Exception as e:  # a library gate must be constructible through every path
        corr.oracle_fail(inp, repr(e), "matrix", f"{name}: a definition path raised {type(e).__name__}")
        return
    doc = Q.np_gate(name, params)
    if fname is not None and rng is not None:
        try:
            for label, M, qs, N in _expanded_function_paths(rng, name, fname, params):
                want = Q.embed(doc, list(qs), N)
                if M.shape != want.shape or not np.allclose(M, want, atol=1e-9):
                    corr.oracle_fail(dict(inp, path=label), np.round(M, 6).tolist(), np.round(want, 6).tolist(),
                                     f"{name} via {label} differs from the documented matrix embedded on qubits {list(qs)}")
        except Exception as e:
            corr.oracle_fail(dict(inp, path="function(N=...)"), repr(e), "matrix", f"{name}: the placement form of the gate function raised {type(e).__name__}")
    if _POLLUTED[0]:
        inp = dict(inp, after_user_gate_history=True)
    for path, M in impl.items():
        if M.shape != doc.shape or not np.allclose(M, doc, atol=1e-9):
            corr.oracle_fail(dict(inp, path=path), np.round(M, 6).tolist(), np.round(doc, 6).tolist(),
                             f"{name} via {path} differs from the documented matrix")
        elif not np.allclose(M @ M.conj().T, np.eye(M.shape[0]), atol=1e-9):
            corr.oracle_fail(dict(inp, path=path), "non-unitary", "unitary", f"{name} via {path} is not unitary")
    # model (generated tables evaluated numerically) vs implementation
    model = {}
    if fname in fn:
        model["function"] = Q.eval_table(fn[fname], params)
    if name in disp:
        model["dispatch"] = Q.eval_table(disp[name], params)
    if name in cmap and cmap[name] in cls:
        model["class"] = Q.eval_table(cls[cmap[name]], params)
    for path, Mm in model.items():
        if path in impl and (Mm.shape != impl[path].shape or not np.allclose(Mm, impl[path], atol=1e-9)):
            corr.disagree(dict(inp, path=path), np.round(impl[path], 6).tolist(), np.round(Mm, 6).tolist(),
                          f"generated table for {name}/{path} differs from the running code")
    for path in ("function", "dispatch", "class"):
        if (path in impl) != (path in model) and not (path == "function" and fname is None):
            corr.disagree(dict(inp, path=path), path in impl, path in model, f"path {path} of {name} offered by only one side")


def _multi_object_circuits(ctx, corr):
    """one circuit holding SEVERAL gate objects that share a name and arg_value (class-built controlled gates are all named
    `_OneControlledGate`; ControlledGate objects differ only in control_value / target gate): each compact propagator must be the
    documented matrix of ITS OWN gate"""
    from qutip_qip.circuit import QubitCircuit
    from qutip_qip.operations import GATE_CLASS_MAP
    from qutip_qip.operations.gateclass import ControlledGate
    import qutip_qip.operations as O
    rng = ctx.rng
    fam0 = [n for n in ("CX", "CY", "CZ", "CS", "CT", "CNOT", "CSIGN") if n in GATE_CLASS_MAP]
    fam1 = [n for n in ("CRX", "CRY", "CRZ", "CPHASE") if n in GATE_CLASS_MAP]
    for rep in range(ctx.n(12, 60)):
        ang = rng.choice([0.7, -1.25, math.pi / 3])
        names = [rng.choice(fam0) for _ in range(2)] + [rng.choice(fam1) for _ in range(2)]
        rng.shuffle(names)
        qc = QubitCircuit(2)
        inp = dict(kind="multi_object_circuit", gates=names, angle=ang)
        corr.count(("multi", tuple(names), ang), nontrivial=True)
        corr.tally("multi-object-circuit")
        try:
            for nm in names:
                cls = GATE_CLASS_MAP[nm]
                g = cls(controls=[0], targets=[1], arg_value=ang) if nm in fam1 else cls(controls=[0], targets=[1])
                qc.add_gate(g)
            # generic ControlledGate objects that differ only in control_value
            for cv in (1, 0):
                qc.add_gate(ControlledGate(controls=[0], targets=[1], control_value=cv, target_gate=O.X))
            props = [u.full() for u in qc.propagators(expand=False)]
        except Exception as e:
            corr.oracle_fail(inp, repr(e), "matrices", f"a circuit of class-built gates raised {type(e).__name__}")
            continue
        X = np.array([[0, 1], [1, 0]], dtype=complex)
        want = [Q.np_gate(nm, [ang] if nm in fam1 else []) for nm in names]
        want += [np.block([[np.eye(2), np.zeros((2, 2))], [np.zeros((2, 2)), X]]), np.block([[X, np.zeros((2, 2))], [np.zeros((2, 2)), np.eye(2)]])]
        for k, (got, w) in enumerate(zip(props, want)):
            if got.shape != w.shape or not np.allclose(got, w, atol=1e-9):
                corr.oracle_fail(dict(inp, position=k), np.round(got, 6).tolist(), np.round(w, 6).tolist(),
                                 f"propagator {k} of a circuit of class-built gates differs from that gate's documented matrix")


def _angle_container_cases(ctx, corr):
    """the same angle OBJECT (python float, int, numpy scalar, 0-d numpy array) handed to several paths / several calls:
    every call must give the documented matrix at the original value and must not change the caller's object"""
    from qutip_qip.operations import gates as G, Gate, GATE_CLASS_MAP
    from qutip_qip.circuit import QubitCircuit
    fns = {"RX": "rx", "RY": "ry", "RZ": "rz", "PHASEGATE": "phasegate", "CPHASE": "cphase", "SWAPalpha": "swapalpha"}
    for name in ("RX", "RY", "RZ", "PHASEGATE", "R", "CPHASE", "SWAPalpha", "CRX", "MS"):
        for mk in (lambda v: float(v), lambda v: np.float64(v), lambda v: np.array(v), lambda v: np.array(v, dtype=np.float32).astype(float).reshape(())):
            theta0 = 0.75
            th = mk(theta0)
            phi = mk(0.5)
            args = (th, phi) if name in ("R", "MS") else (th,)
            doc = Q.np_gate(name, [0.75, 0.5] if name in ("R", "MS") else [0.75])
            inp = dict(kind="angle_container", gate=name, container=type(th).__name__ + ("[0-d]" if isinstance(th, np.ndarray) else ""))
            corr.count(("angle_container", name, inp["container"]), nontrivial=True)
            corr.tally("angle-container")
            nq = Q.N_QUBITS[name]
            nc = Q.N_CONTROLS.get(name, 0)
            ctr, tgt = (list(range(nc)) or None), list(range(nc, nq))
            arg = args if len(args) > 1 else args[0]
            try:
                mats = []
                for _ in range(2):
                    if name == "R":
                        mats.append(("function", G.qrot(th, phi).full()))
                    elif name == "MS":
                        mats.append(("function", G.molmer_sorensen(th, phi).full()))
                    elif name in fns:
                        mats.append(("function", getattr(G, fns[name])(th).full()))
                    try:   # names the generic dispatch does not offer (as in _impl_paths)
                        mats.append(("dispatch", Gate(name, targets=tgt, controls=ctr, arg_value=arg).get_compact_qobj().full()))
                    except NotImplementedError:
                        pass
                    if name in GATE_CLASS_MAP:
                        kw = dict(targets=tgt, arg_value=arg)
                        if nc:
                            kw["controls"] = ctr
                        mats.append(("class", GATE_CLASS_MAP[name](**kw).get_compact_qobj().full()))
                        qc = QubitCircuit(nq)
                        qc.add_gate(name, targets=tgt, controls=ctr, arg_value=arg)
                        mats.append(("circuit", qc.propagators(expand=False)[0].full()))
                        mats.append(("circuit-again", qc.propagators(expand=False)[0].full()))
            except Exception as e:
                corr.oracle_fail(inp, repr(e), "matrix", f"{name} with a {inp['container']} angle raised {type(e).__name__}")
                continue
            for k, (path, M) in enumerate(mats):
                if M.shape != doc.shape or not np.allclose(M, doc, atol=1e-6 if "float32" in inp["container"] else 1e-9):
                    corr.oracle_fail(dict(inp, path=path, call=k), np.round(M, 6).tolist(), np.round(doc, 6).tolist(),
                                     f"{name} via {path} (call {k} with the same angle object) differs from the documented matrix")
                    break
            if abs(float(th) - theta0) > 1e-12 or abs(float(phi) - 0.5) > 1e-12:
                corr.oracle_fail(inp, [float(th), float(phi)], [theta0, 0.5], f"{name}: the caller's angle object was modified in place")


def _controlled_cases(ctx, corr):
    """second sentence of C09: controlled_gate builds the block matrix, for <= 3 controls, all values and placements"""
    from qutip_qip.operations import controlled_gate
    from qutip import Qobj
    rng = ctx.rng
    n_cases = ctx.n(60, 400)
    for _ in range(n_cases):
        nc = rng.choice([1, 1, 2, 2, 3])
        N = nc + 1 + rng.choice([0, 0, 1])
        qs = rng.sample(range(N), nc + 1)
        controls, target = qs[:nc], qs[nc]
        cv = rng.randrange(2 ** nc)
        A = np.array([[complex(rng.gauss(0, 1), rng.gauss(0, 1)) for _ in range(2)] for _ in range(2)])
        U, _ = np.linalg.qr(A)
        inp = dict(kind="controlled_gate", N=N, controls=controls, target=target, control_value=cv,
                   U=[[[z.real, z.imag] for z in row] for row in U.tolist()])
        corr.count(("ctrl", nc, cv, tuple(qs), N), nontrivial=True, sample=inp if rng.random() < 0.02 else None)
        corr.tally(f"controlled_gate nc={nc}")
        try:
            M = controlled_gate(Qobj(U), controls=list(controls), targets=[target], N=N, control_value=cv).full()
        except Exception as e:
            corr.oracle_fail(inp, repr(e), "block matrix", "controlled_gate raised")
            continue
        # documented meaning: apply U on target iff the control bits (first listed = most significant) read cv
        dim = 2 ** N
        exp = np.zeros((dim, dim), dtype=complex)
        for col in range(dim):
            bits = [(col >> (N - 1 - qb)) & 1 for qb in range(N)]
            val = 0
            for c in controls:
                val = 2 * val + bits[c]
            if val == cv:
                for b in (0, 1):
                    nb = list(bits)
                    nb[target] = b
                    row = sum(bit << (N - 1 - qb) for qb, bit in enumerate(nb))
                    exp[row, col] += U[b, bits[target]]
            else:
                exp[col, col] = 1
        if not np.allclose(M, exp, atol=1e-9):
            corr.oracle_fail(inp, "matrix differs", "block matrix", "controlled_gate is not 'U iff controls read the value'")


def _controlled_class_cases(ctx, corr):
    """the ControlledGate CLASS path (what a circuit holds): every control value incl. 0, 1-3 controls, compact matrix and
    the circuit unitary against the bit-level meaning 'apply U iff the controls read the value'"""
    from qutip_qip.operations.gateclass import ControlledGate, X, Z, RX, RY, S
    from qutip_qip.circuit import QubitCircuit
    rng = ctx.rng
    targets_cls = [(X, None, "X"), (Z, None, "Z"), (S, None, "S"), (RX, 0.7, "RX"), (RY, -1.3, "RY")]
    for nc in (1, 2, 3):
        for cv in range(2 ** nc):
            for cls, arg, nm in rng.sample(targets_cls, ctx.n(2, len(targets_cls))):
                N = nc + 1 + rng.choice([0, 1])
                qs = rng.sample(range(N), nc + 1)
                inp = dict(kind="controlled_class", gate=nm, arg=arg, N=N, controls=qs[:nc], target=qs[nc], control_value=cv)
                corr.count(("ctrlc", nc, cv, nm, tuple(qs)), nontrivial=True, sample=inp if rng.random() < 0.03 else None)
                corr.tally(f"ControlledGate class nc={nc}")
                U = Q.np_gate(nm, None if arg is None else [arg])
                try:
                    kw = dict(controls=list(qs[:nc]), targets=[qs[nc]], control_value=cv, target_gate=cls)
                    if arg is not None:
                        kw["arg_value"] = arg
                    g = ControlledGate(**kw)
                    compact = g.get_compact_qobj().full()
                    qc = QubitCircuit(N)
                    qc.add_gate(g)
                    full = qc.compute_unitary().full()
                except Exception as e:
                    corr.oracle_fail(inp, repr(e), "matrix", "ControlledGate class path raised")
                    continue
                # compact: controls first (most significant), then the target
                k = nc + 1
                exp_c = np.eye(2 ** k, dtype=complex)
                exp_c[2 * cv:2 * cv + 2, 2 * cv:2 * cv + 2] = U
                exp_f = Q.embed(exp_c, list(qs), N)
                if compact.shape != exp_c.shape or not np.allclose(compact, exp_c, atol=1e-9):
                    corr.oracle_fail(inp, "compact matrix differs", "block matrix", "ControlledGate.get_compact_qobj is not 'U iff controls read the value'")
                elif not np.allclose(full, exp_f, atol=1e-9):
                    corr.oracle_fail(inp, "circuit unitary differs", "embedded block matrix", "circuit holding a ControlledGate is not 'U iff controls read the value'")


def _controlled_model_cases(ctx, corr, disp):
    """tie controlled_gate to the model (Sym.ptctrl, the object of controlled_gate_spec): for 1-3 controls, every value,
    library single-qubit unitaries with symbolic parameters, compare the real matrix with the model table evaluated numerically"""
    from qutip_qip.operations import controlled_gate
    from qutip import Qobj
    rng = ctx.rng
    names = [n for n in ("RX", "RY", "RZ", "X", "Y", "Z", "S", "T", "SNOT", "PHASEGATE", "SQRTNOT") if n in disp]
    cases = []
    for nc in (1, 2, 3):
        for cv in range(2 ** nc):
            for name in rng.sample(names, ctx.n(2, len(names))):
                cases.append((nc, cv, name))
    body = DUMP.split("Eval")[0] + """
Fixpoint assoc {A} (k : string) (l : list (string * A)) : option A :=
  match l with [] => None | (k', v) :: l' => if String.eqb k k' then Some v else assoc k l' end.
Definition one (c : nat * nat * string) := let '(nc, cv, nm) := c in
  match assoc nm dispatch with Some m => dump (MCtrl nc cv m) | None => [] end.
Eval vm_compute in map one [""" + "; ".join(f'({nc}%nat, {cv}%nat, "{nm}"%string)' for nc, cv, nm in cases) + "].\n"
    tabs = parse_evals(coq_eval("c09_ctrl", body, timeout=300))[0]
    for (nc, cv, name), tab in zip(cases, tabs):
        npar = Q.N_PARAMS.get(name, 0)
        params = [rng.choice([k * math.pi / 16 for k in range(-32, 33)]) for _ in range(npar)]
        N = nc + 1 + rng.choice([0, 1])
        qs = rng.sample(range(N), nc + 1)
        inp = dict(kind="controlled_model", gate=name, params=params, N=N, controls=qs[:nc], target=qs[nc], control_value=cv)
        corr.count(("ctrlm", nc, cv, name), nontrivial=True, sample=inp if rng.random() < 0.05 else None)
        corr.tally(f"controlled model nc={nc}")
        U = Q.np_gate(name, params)
        try:
            real = controlled_gate(Qobj(U), controls=list(qs[:nc]), targets=[qs[nc]], N=N, control_value=cv).full()
        except Exception as e:
            corr.disagree(inp, repr(e), "matrix", "controlled_gate raised where the model gives a matrix")
            continue
        model = Q.embed(Q.eval_table(tab, params), list(qs), N)
        if real.shape != model.shape or not np.allclose(real, model, atol=1e-9):
            corr.disagree(inp, "matrix", "matrix", "controlled_gate differs from the block-diagonal model (ptctrl) placed on controls+targets")


def correspond(ctx):
    corr = Corr(rule="every library gate name x every definition path (function, function with N/target placement, name dispatch, class, circuit, circuit after other circuits used user gates "
                     "named like library gates) x parameter samples "
                     "(pi/16 grid, boundary 0,+-pi,2pi,1e-9,>2pi, random); non-trivial = parametrised or multi-qubit gate; "
                     "plus controlled_gate with 1-3 controls, all control values, random placements")
    tabs = _tables()
    fn, disp, cls, cmap, gp = tabs
    inv_fn = {}
    for f, n in FN_NAMES.items():
        inv_fn.setdefault(n, f)
    names = sorted(set(disp) | set(cmap))
    for name in names:
        if name not in Q.N_QUBITS:
            corr.disagree(dict(gate=name), "offered by the library", "no documented matrix", f"gate name {name} has no documented spec")
            continue
        fname = inv_fn.get(name) or inv_fn.get({"H": "SNOT", "CX": "CNOT", "iSWAP": "ISWAP", "SWAPALPHA": "SWAPalpha"}.get(name, ""), None)
        npar = Q.N_PARAMS.get(name, 0)
        for params in _samples(ctx, npar):
            corr.count((name, tuple(params)), nontrivial=(npar > 0 or Q.N_QUBITS[name] > 1),
                       sample=dict(gate=name, params=params) if npar and ctx.rng.random() < 0.01 else None)
            corr.tally(name)
            _check_case(corr, name, fname, params, tabs[:4], rng=ctx.rng)
    # the circuit path must not depend on what OTHER circuits did before (user gates named like library gates)
    _pollute()
    try:
        for name in names:
            if name not in Q.N_QUBITS:
                continue
            fname = inv_fn.get(name) or inv_fn.get({"H": "SNOT", "CX": "CNOT", "iSWAP": "ISWAP", "SWAPALPHA": "SWAPalpha"}.get(name, ""), None)
            npar = Q.N_PARAMS.get(name, 0)
            for params in _samples(ctx, npar)[:3]:
                corr.count((name, tuple(params), "after-history"), nontrivial=True)
                corr.tally("after-history")
                _check_case(corr, name, fname, params, tabs[:4], rng=ctx.rng)
    finally:
        _POLLUTED[0] = False
    # global phase
    from qutip_qip.operations import globalphase
    for th in [0.0, math.pi / 16, -2.5, 7.0]:
        corr.count(("GLOBALPHASE", th), nontrivial=True)
        impl = globalphase(th, 2).full()
        if not np.allclose(impl, np.exp(1j * th) * np.eye(4), atol=1e-12):
            corr.oracle_fail(dict(gate="GLOBALPHASE", params=[th]), "matrix differs", "e^{i theta} I", "globalphase is not e^{i theta}")
        if abs(Q.eval_poly(gp, [th]) - impl[0, 0]) > 1e-9:
            corr.disagree(dict(gate="GLOBALPHASE", params=[th]), str(impl[0, 0]), str(Q.eval_poly(gp, [th])), "globalphase scalar")
    _controlled_cases(ctx, corr)
    _controlled_model_cases(ctx, corr, disp)
    _controlled_class_cases(ctx, corr)
    _multi_object_circuits(ctx, corr)
    _angle_container_cases(ctx, corr)
    corr.extra["translated"] = {k: (len(v) if isinstance(v, list) else v) for k, v in _gen.items() if k != "class_map"}
    return corr


def search(ctx, broken):
    """an obligation broke: look harder with the numeric oracle (denser parameter grid)"""
    class T:  # thorough sampling regardless of tier
        rng = ctx.rng
        thorough = True
        def n(self, q, t): return t
    c = Corr()
    try:
        tabs = _tables()
    except Exception:
        tabs = ({}, {}, {}, {}, [])
    from qutip_qip.operations import GATE_CLASS_MAP
    inv_fn = {n: f for f, n in FN_NAMES.items()}
    for name in sorted(Q.N_QUBITS):
        if name == "IDLE":
            continue
        for params in _samples(T(), Q.N_PARAMS.get(name, 0)):
            _check_case(c, name, inv_fn.get(name), params, tabs[:4], rng=ctx.rng)
    _pollute()
    try:
        for name in sorted(Q.N_QUBITS):
            if name != "IDLE":
                for params in _samples(T(), Q.N_PARAMS.get(name, 0))[:3]:
                    _check_case(c, name, inv_fn.get(name), params, tabs[:4], rng=ctx.rng)
    finally:
        _POLLUTED[0] = False
    _controlled_cases(T(), c)
    _controlled_class_cases(T(), c)
    _multi_object_circuits(T(), c)
    _angle_container_cases(T(), c)
    return c.oracle_failures


def replay(ctx, rec):
    inp = rec.get("input", rec)
    c = Corr()
    if inp.get("kind") in ("controlled_gate", "controlled_class", "controlled_model", "multi_object_circuit", "angle_container"):
        class T:
            import random as _r
            rng = _r.Random(0)
            thorough = False
            def n(self, q, t): return q
        (_multi_object_circuits if inp["kind"] == "multi_object_circuit" else _angle_container_cases if inp["kind"] == "angle_container" else _controlled_cases)(T(), c)
        return bool(c.oracle_failures)
    import random
    if inp.get("after_user_gate_history"):
        _pollute()
    try:
        _check_case(c, inp["gate"], inp.get("function"), inp.get("params", []), ({}, {}, {}, {}), rng=random.Random(0))
    finally:
        _POLLUTED[0] = False
    return bool(c.oracle_failures)


def classify(f):
    return None
