"""Independent OpenQASM 2.0 reader and evaluator, written from the language specification (Cross, Bishop, Smolin,
Gambetta, "Open Quantum Assembly Language", 2017: grammar of appendix A, semantics of section 3) and from the published
qelib1.inc.  It never looks at qasm.py.  Used as the property oracle of C04 (what a program means) and of C10 (is the
exported text valid OpenQASM 2.0, and what does it denote).

parse(text)            strict lexer + parser -> list of statements (raises QasmError / Unsupported)
elaborate(stmts)       static checks + macro expansion -> (nq, nc, prims)
                       prims: ("U", (theta, phi, lam), q, cond) | ("CX", a, b, cond) | ("measure", q, c, cond)
                       cond = None | (list of classical bit indices c[0], c[1], .., k):  executed iff sum c[i] 2^i == k
run_prims(prims, nq, nc, psi)   -> {record (tuple of measurement outcomes in order): unnormalised final state}
"""
import cmath
import math
import re

import numpy as np


class QasmError(Exception):
    """the text is not a well-formed OpenQASM 2.0 program"""


class Unsupported(QasmError):
    """well-formed OpenQASM 2.0, but outside the subset the library claims to support (reset, opaque, ^, functions)"""


QELIB1 = r"""
gate u3(theta,phi,lambda) q { U(theta,phi,lambda) q; }
gate u2(phi,lambda) q { U(pi/2,phi,lambda) q; }
gate u1(lambda) q { U(0,0,lambda) q; }
gate cx c,t { CX c,t; }
gate id a { U(0,0,0) a; }
gate x a { u3(pi,0,pi) a; }
gate y a { u3(pi,pi/2,pi/2) a; }
gate z a { u1(pi) a; }
gate h a { u2(0,pi) a; }
gate s a { u1(pi/2) a; }
gate sdg a { u1(-pi/2) a; }
gate t a { u1(pi/4) a; }
gate tdg a { u1(-pi/4) a; }
gate rx(theta) a { u3(theta,-pi/2,pi/2) a; }
gate ry(theta) a { u3(theta,0,0) a; }
gate rz(phi) a { u1(phi) a; }
gate cz a,b { h b; cx a,b; h b; }
gate cy a,b { sdg b; cx a,b; s b; }
gate ch a,b { h b; sdg b; cx a,b; h b; t b; cx a,b; t b; h b; s b; x b; s a; }
gate ccx a,b,c { h c; cx b,c; tdg c; cx a,c; t c; cx b,c; tdg c; cx a,c; t b; t c; h c; cx a,b; t a; tdg b; cx a,b; }
gate crz(lambda) a,b { u1(lambda/2) b; cx a,b; u1(-lambda/2) b; cx a,b; }
gate cu1(lambda) a,b { u1(lambda/2) a; cx a,b; u1(-lambda/2) b; cx a,b; u1(lambda/2) b; }
gate cu3(theta,phi,lambda) c,t { u1((lambda-phi)/2) t; cx c,t; u3(-theta/2,0,-(phi+lambda)/2) t; cx c,t; u3(theta/2,phi,0) t; }
"""

_TOKEN = re.compile(r"""
    (?P<ws>\s+|//[^\n]*)
  | (?P<real>(?:[0-9]+\.[0-9]*|[0-9]*\.[0-9]+)(?:[eE][-+]?[0-9]+)?)
  | (?P<int>[1-9][0-9]*|0)
  | (?P<id>[a-z][A-Za-z0-9_]*)
  | (?P<kw>OPENQASM|U|CX)
  | (?P<str>"[^"\n]*")
  | (?P<sym>->|==|[()\[\]{};,+\-*/^])
""", re.X)
KEYWORDS = {"qreg", "creg", "gate", "opaque", "measure", "reset", "barrier", "if", "include", "pi", "sin", "cos", "tan", "exp", "ln", "sqrt"}


def tokenize(text):
    pos, out = 0, []
    while pos < len(text):
        m = _TOKEN.match(text, pos)
        if not m:
            raise QasmError(f"lexical error at {text[pos:pos + 20]!r}")
        if m.lastgroup == "int" and m.end() < len(text) and (text[m.end()].isdigit() or text[m.end()].isalpha() or text[m.end()] == "_"):
            raise QasmError(f"bad number at {text[pos:pos + 20]!r}")   # 007, 1e5 (a real needs a '.'), 2x
        if m.lastgroup == "real" and m.end() < len(text) and (text[m.end()].isalpha() or text[m.end()] == "_"):
            raise QasmError(f"bad real at {text[pos:pos + 20]!r}")
        pos = m.end()
        if m.lastgroup == "ws":
            continue
        out.append((m.lastgroup, m.group()))
    return out


class _P:
    def __init__(self, toks):
        self.t, self.i = toks, 0

    def peek(self, k=0):
        return self.t[self.i + k] if self.i + k < len(self.t) else ("eof", "")

    def eat(self, val=None, kind=None):
        k, v = self.peek()
        if (val is not None and v != val) or (kind is not None and k != kind):
            raise QasmError(f"expected {val or kind}, found {v!r}")
        self.i += 1
        return v

    def ident(self):
        k, v = self.peek()
        if k != "id" or v in KEYWORDS:
            raise QasmError(f"identifier expected, found {v!r}")
        self.i += 1
        return v

    def idlist(self):
        out = [self.ident()]
        while self.peek()[1] == ",":
            self.eat(",")
            out.append(self.ident())
        return out

    def argument(self):
        r = self.ident()
        if self.peek()[1] == "[":
            self.eat("[")
            n = int(self.eat(kind="int"))
            self.eat("]")
            return (r, n)
        return (r, None)

    def anylist(self):
        out = [self.argument()]
        while self.peek()[1] == ",":
            self.eat(",")
            out.append(self.argument())
        return out

    # exp with the precedences of the yacc grammar: + - < * / < unary - < ^
    def exp(self, lvl=0):
        if lvl == 0:
            a = self.exp(1)
            while self.peek()[1] in ("+", "-"):
                o = self.eat()
                a = (o, a, self.exp(1))
            return a
        if lvl == 1:
            a = self.exp(2)
            while self.peek()[1] in ("*", "/"):
                o = self.eat()
                a = (o, a, self.exp(2))
            return a
        if lvl == 2:
            if self.peek()[1] == "-":
                self.eat()
                return ("neg", self.exp(2))
            a = self.atom()
            if self.peek()[1] == "^":
                self.eat()
                return ("^", a, self.exp(2))
            return a

    def atom(self):
        k, v = self.peek()
        if k in ("real", "int"):
            self.i += 1
            return ("num", v)
        if v == "pi":
            self.i += 1
            return ("pi",)
        if v in ("sin", "cos", "tan", "exp", "ln", "sqrt"):
            self.i += 1
            self.eat("(")
            a = self.exp()
            self.eat(")")
            return ("fn", v, a)
        if v == "(":
            self.eat("(")
            a = self.exp()
            self.eat(")")
            return a
        if k == "id":
            return ("id", self.ident())
        raise QasmError(f"expression expected, found {v!r}")

    def explist(self):
        out = [self.exp()]
        while self.peek()[1] == ",":
            self.eat(",")
            out.append(self.exp())
        return out

    def uop(self, in_body):
        k, v = self.peek()
        if v == "U":
            self.eat()
            self.eat("(")
            es = self.explist()
            self.eat(")")
            a = self.argument()
            self.eat(";")
            return ("app", "U", es, [a])
        if v == "CX":
            self.eat()
            a = self.argument()
            self.eat(",")
            b = self.argument()
            self.eat(";")
            return ("app", "CX", [], [a, b])
        name = self.ident()
        es = []
        if self.peek()[1] == "(":
            self.eat("(")
            if self.peek()[1] != ")":
                es = self.explist()
            self.eat(")")
        args = self.anylist()
        self.eat(";")
        return ("app", name, es, args)

    def qop(self):
        v = self.peek()[1]
        if v == "measure":
            self.eat()
            a = self.argument()
            self.eat("->")
            b = self.argument()
            self.eat(";")
            return ("measure", a, b)
        if v == "reset":
            self.eat()
            a = self.argument()
            self.eat(";")
            return ("reset", a)
        return self.uop(False)

    def statement(self):
        v = self.peek()[1]
        if v in ("qreg", "creg"):
            self.eat()
            r = self.ident()
            self.eat("[")
            n = int(self.eat(kind="int"))
            self.eat("]")
            self.eat(";")
            return (v, r, n)
        if v in ("gate", "opaque"):
            self.eat()
            name = self.ident()
            params = []
            if self.peek()[1] == "(":
                self.eat("(")
                if self.peek()[1] != ")":
                    params = self.idlist()
                self.eat(")")
            qs = self.idlist()
            if v == "opaque":
                self.eat(";")
                return ("opaque", name, params, qs)
            self.eat("{")
            body = []
            while self.peek()[1] != "}":
                if self.peek()[1] == "barrier":
                    self.eat()
                    ids = self.idlist()
                    self.eat(";")
                    body.append(("barrier", [(x, None) for x in ids]))
                else:
                    st = self.uop(True)
                    if any(i is not None for _, i in st[3]):
                        raise QasmError("indexed argument inside a gate body")
                    body.append(st)
            self.eat("}")
            return ("gate", name, params, qs, body)
        if v == "barrier":
            self.eat()
            a = self.anylist()
            self.eat(";")
            return ("barrier", a)
        if v == "if":
            self.eat()
            self.eat("(")
            c = self.ident()
            self.eat("==")
            k = int(self.eat(kind="int"))
            self.eat(")")
            return ("if", c, k, self.qop())
        if v == "include":
            self.eat()
            f = self.eat(kind="str")
            self.eat(";")
            return ("include", f.strip('"'))
        return self.qop()


def parse(text, header=True):
    p = _P(tokenize(text))
    if header:
        p.eat("OPENQASM")
        if p.eat(kind="real") != "2.0":
            raise QasmError("not version 2.0")
        p.eat(";")
    out = []
    while p.peek()[0] != "eof":
        out.append(p.statement())
    return out


def _eval(e, env):
    t = e[0]
    if t == "num":
        return float(e[1])
    if t == "pi":
        return math.pi
    if t == "id":
        if e[1] not in env:
            raise QasmError(f"unknown identifier {e[1]} in expression")
        return env[e[1]]
    if t == "neg":
        return -_eval(e[1], env)
    if t == "^":
        _eval(e[1], env), _eval(e[2], env)
        raise Unsupported("power operator")
    if t == "fn":
        _eval(e[2], env)
        raise Unsupported("function in expression")
    a, b = _eval(e[1], env), _eval(e[2], env)
    if t == "+":
        return a + b
    if t == "-":
        return a - b
    if t == "*":
        return a * b
    if b == 0:
        raise QasmError("division by zero")
    return a / b


class Elab:
    def __init__(self):
        self.qregs, self.cregs, self.gates = {}, {}, {}
        self.nq = self.nc = 0
        self.prims = []
        self.unsupported = None

    def check_body(self, name, params, qs, body):
        if len(set(params)) != len(params) or len(set(qs)) != len(qs):
            raise QasmError(f"gate {name}: repeated formal")
        for st in body:
            if st[0] == "barrier":
                for x, _ in st[1]:
                    if x not in qs:
                        raise QasmError(f"gate {name}: barrier on unknown qubit {x}")
                continue
            _, g, es, args = st
            self.signature_check(g, len(es), len(args))
            names = [x for x, _ in args]
            if len(set(names)) != len(names) or not set(names) <= set(qs):
                raise QasmError(f"gate {name}: bad qubit arguments for {g}")
            env = {p: 1.0 for p in params}
            for e in es:
                try:
                    _eval(e, env)
                except Unsupported as u:
                    self.unsupported = self.unsupported or u
                except QasmError as q:
                    if "division" not in str(q):
                        raise

    def signature_check(self, g, ne, na):
        if g == "U":
            sig = (3, 1)
        elif g == "CX":
            sig = (0, 2)
        elif g in self.gates:
            sig = (len(self.gates[g][0]), len(self.gates[g][1]))
        else:
            raise QasmError(f"gate {g} is not declared")
        if sig != (ne, na):
            raise QasmError(f"gate {g} takes {sig[0]} parameters and {sig[1]} qubits")

    def expand(self, g, vals, qubits, cond):
        if g == "U":
            self.prims.append(("U", tuple(vals), qubits[0], cond))
            return
        if g == "CX":
            self.prims.append(("CX", qubits[0], qubits[1], cond))
            return
        params, qs, body = self.gates[g]
        env = dict(zip(params, vals))
        qm = dict(zip(qs, qubits))
        for st in body:
            if st[0] == "barrier":
                continue
            _, h, es, args = st
            self.expand(h, [_eval(e, env) for e in es], [qm[x] for x, _ in args], cond)

    def resolve(self, regs, arg, what):
        r, i = arg
        if r not in regs:
            raise QasmError(f"{what} register {r} is not declared")
        off, n = regs[r]
        if i is None:
            return list(range(off, off + n))
        if i >= n:
            raise QasmError(f"index {r}[{i}] out of range")
        return off + i

    def apply(self, st, cond):
        if st[0] == "measure":
            a, b = self.resolve(self.qregs, st[1], "quantum"), self.resolve(self.cregs, st[2], "classical")
            if isinstance(a, list) != isinstance(b, list):
                raise QasmError("measure: register and bit mixed")
            if isinstance(a, list):
                if len(a) != len(b):
                    raise QasmError("measure: registers of different sizes")
                for x, y in zip(a, b):
                    self.prims.append(("measure", x, y, cond))
            else:
                self.prims.append(("measure", a, b, cond))
            return
        if st[0] == "reset":
            self.resolve(self.qregs, st[1], "quantum")
            raise Unsupported("reset")
        _, g, es, args = st
        self.signature_check(g, len(es), len(args))
        vals = [_eval(e, {}) for e in es]
        rs = [self.resolve(self.qregs, a, "quantum") for a in args]
        sizes = {len(r) for r in rs if isinstance(r, list)}
        if len(sizes) > 1:
            raise QasmError("registers of different sizes in one statement")
        insts = [[r[j] if isinstance(r, list) else r for r in rs] for j in range(sizes.pop())] if sizes else [rs]
        for inst in insts:
            if len(set(inst)) != len(inst):
                raise QasmError("repeated qubit in one gate application")
            self.expand(g, vals, inst, cond)

    def run(self, stmts, qelib=None):
        for st in stmts:
            k = st[0]
            if k == "include":
                if st[1] != "qelib1.inc":
                    raise Unsupported("include of " + st[1])
                for g in parse(QELIB1, header=False):
                    self.define(g)
            elif k in ("qreg", "creg"):
                regs = self.qregs if k == "qreg" else self.cregs
                if st[1] in self.qregs or st[1] in self.cregs or st[1] in self.gates:
                    raise QasmError(f"{st[1]} is declared twice")
                if k == "qreg":
                    regs[st[1]] = (self.nq, st[2])
                    self.nq += st[2]
                else:
                    regs[st[1]] = (self.nc, st[2])
                    self.nc += st[2]
            elif k == "gate":
                self.define(st)
            elif k == "opaque":
                raise Unsupported("opaque gate")
            elif k == "barrier":
                for a in st[1]:
                    self.resolve(self.qregs, a, "quantum")
            elif k == "if":
                if st[1] not in self.cregs:
                    raise QasmError(f"classical register {st[1]} is not declared")
                off, n = self.cregs[st[1]]
                self.apply(st[3], (list(range(off, off + n)), st[2]))
            else:
                self.apply(st, None)
        if self.unsupported:
            raise self.unsupported
        return self.nq, self.nc, self.prims

    def define(self, st):
        _, name, params, qs, body = st
        if name in self.gates or name in self.qregs or name in self.cregs:
            raise QasmError(f"{name} is declared twice")
        self.check_body(name, params, qs, body)
        self.gates[name] = (params, qs, body)


def elaborate(stmts):
    return Elab().run(stmts)


# ---------------------------------------------------------------- numeric semantics
def u_matrix(theta, phi, lam):
    """U(theta,phi,lambda) := Rz(phi) Ry(theta) Rz(lambda)   (eq. (2) of the specification)"""
    c, s = math.cos(theta / 2), math.sin(theta / 2)
    rz = lambda a: np.array([[cmath.exp(-1j * a / 2), 0], [0, cmath.exp(1j * a / 2)]])
    # the product form keeps huge angles exact: exp(-i(phi+lambda)/2) would round phi+lambda first
    return rz(phi) @ np.array([[c, -s], [s, c]], dtype=complex) @ rz(lam)


def apply1(psi, M, q, n):
    """apply the 2x2 matrix M to qubit q (qubit 0 = most significant) of an n-qubit vector"""
    t = psi.reshape([2] * n)
    t = np.moveaxis(np.tensordot(M, t, axes=([1], [q])), 0, q)
    return t.reshape(-1)


def applyk(psi, M, qs, n):
    k = len(qs)
    t = psi.reshape([2] * n)
    Mt = np.asarray(M, dtype=complex).reshape([2] * (2 * k))
    t = np.tensordot(Mt, t, axes=(list(range(k, 2 * k)), list(qs)))
    t = np.moveaxis(t, list(range(k)), list(qs))
    return t.reshape(-1)


CXM = np.array([[1, 0, 0, 0], [0, 1, 0, 0], [0, 0, 0, 1], [0, 0, 1, 0]], dtype=complex)


def cond_holds(cond, cbits):
    if cond is None:
        return True
    bits, k = cond
    return sum(cbits[b] << i for i, b in enumerate(bits)) == k


def run_prims(prims, nq, nc, psi, tol=1e-12):
    """all measurement branches: {record: (unnormalised state, classical bits)}"""
    branches = [((), np.array(psi, dtype=complex), (0,) * nc)]
    for p in prims:
        new = []
        for rec, st, cb in branches:
            if not cond_holds(p[-1], cb):
                new.append((rec, st, cb))
                continue
            if p[0] == "U":
                new.append((rec, apply1(st, u_matrix(*p[1]), p[2], nq), cb))
            elif p[0] == "CX":
                new.append((rec, applyk(st, CXM, [p[1], p[2]], nq), cb))
            elif p[0] == "measure":
                for out in (0, 1):
                    P = np.zeros((2, 2), dtype=complex)
                    P[out, out] = 1
                    s2 = apply1(st, P, p[1], nq)
                    if np.vdot(s2, s2).real > tol:
                        c2 = list(cb)
                        c2[p[2]] = out
                        new.append((rec + (out,), s2, tuple(c2)))
            else:
                raise ValueError(p)
        branches = new
    return {rec: (st, cb) for rec, st, cb in branches}


def same_up_to_phase(a, b, tol=1e-9):
    na, nb = np.linalg.norm(a), np.linalg.norm(b)
    if abs(na - nb) > tol:
        return False
    return abs(abs(np.vdot(a, b)) - na * nb) <= tol * max(1.0, na * nb)
