"""C04 - imported OpenQASM 2.0 programs mean what the standard says.  See DESIGN.md section 5 (C04).

model/code tie : programs are generated as abstract syntax (Spec/Qasm.v `prog`), printed one statement per line, read by
                 the real read_qasm(strmode=True); the same syntax tree is given to Model/QasmImport.v `import_prog`
                 under vm_compute; the resulting circuits are compared exactly (names, targets, controls, classical
                 controls) and numerically (parameters to 1e-12, unitaries of user gates to 1e-9).
oracle         : tools/props/c04_oqasm.py, an independent OpenQASM 2.0 reader/evaluator written from the standard,
                 decides (a) whether the text is well-formed/supported and (b) what it denotes (all measurement
                 branches of two random input states, compared up to a phase per branch).
"""
import json
import math
import os
import sys
import warnings
from fractions import Fraction

import numpy as np

sys.path.insert(0, os.path.dirname(os.path.dirname(os.path.abspath(__file__))))
sys.path.insert(0, os.path.dirname(os.path.abspath(__file__)))
import qoracle as Q  # noqa: E402
import c04_oqasm as OQ  # noqa: E402
from common import Corr, Broken, coq_eval, coq_eval_many, parse_evals, cstr, VERIF  # noqa: E402
from translate import gates_tr, qasm_tr  # noqa: E402

ID = "C04"
TARGETS = ["Proofs/QasmSpecTotal.vo", "Props/C04.vo"]
TRUSTED = [
    "the tokenizer / regular expressions of qasm.py (_tokenize, _tokenize_line, _gate_processor, the regexes of _regs_processor and "
    "_initialize_pass) are NOT modelled: they are tied only by running the real read_qasm on the text printed (one statement per "
    "line) from the syntax tree given to the model and comparing the circuits exactly",
    "Spec/Qasm.v: syntax, well-formedness and expansion semantics of OpenQASM 2.0 and qelib1.inc transcribed by hand from the "
    "specification (the oracle); U(theta,phi,lambda) = Rz(phi) Ry(theta) Rz(lambda), read through Found/Sym.v",
    "translators tools/translate/qasm_tr.py and gates_tr.py (Python ast -> tables; fail-closed)",
    "parameter values: Python float evaluation of + - * / (incl. ZeroDivisionError and the exact text of str(float)) is not modelled; "
    "the model records the operations in an abstract value algebra and the harness evaluates them numerically",
    "the unitary stored for a user-defined gate is taken to be the ordered product of the gates of its temporary circuit "
    "(QubitCircuit.compute_unitary, property C01); checked numerically on every case",
    "meaning of (classical_controls, classical_control_value): first listed bit is the most significant (documented in Gate, property C02)",
    "programs where a register or gate name is declared twice, or a formal parameter is called `pi`, are not modelled",
    "import_sound / import_sound_unitary are stated against spec_prog with the importer's signature table sig0 as the set of library-level "
    "gates (equal to the standard's table by shortcut_table_complete); the meaning of a library-level gate is its qelib1.inc body expanded "
    "symbolically to U/CX and instantiated at the atoms of its parameter values (aenv: an arbitrary assignment of units to value lists); "
    "import_total / spec_total / import_sound_total assume that no division by zero occurs (vdiv total); spec-side totality (wf p -> spec_prog p <> None) "
    "is proved (spec_total), so import_sound_total carries no definedness hypothesis",
    "equivalence used: for every record of measurement outcomes the unnormalised branch state agrees up to a unit scalar that may "
    "depend on the record (records are classical, so this is unobservable); a single common scalar is impossible because the "
    "library's X, H, S, T, CZ.. differ from the qelib1 definitions by gate-dependent phases inside if-statements",
]
ASSUMES = ["parameters range over all reals via the phase-ring quantification of Found (u = e^{i pi/16}, z_j = e^{i theta_j/4})",
           "mode='default', no include file other than qelib1.inc (absent from the working directory)"]

HELPER_NAMES = ("ch", "tdg", "id", "u2", "sdg", "cu3")
HEADER = 'OPENQASM 2.0;\ninclude "qelib1.inc";\n'

# ---------------------------------------------------------------------------------------------------------------
# syntax trees (JSON) : expr = ["num","3/4"] | ["pi"] | ["id",x] | ["neg",a] | ["add"|"sub"|"mul"|"div"|"pow",a,b] | ["call",f,a]
# ---------------------------------------------------------------------------------------------------------------
QELIB_SIG = {"u3": (3, 1), "u2": (2, 1), "u1": (1, 1), "cx": (0, 2), "id": (0, 1), "x": (0, 1), "y": (0, 1), "z": (0, 1), "h": (0, 1),
             "s": (0, 1), "sdg": (0, 1), "t": (0, 1), "tdg": (0, 1), "rx": (1, 1), "ry": (1, 1), "rz": (1, 1), "cz": (0, 2),
             "cy": (0, 2), "ch": (0, 2), "ccx": (0, 3), "crz": (1, 2), "cu1": (1, 2), "cu3": (3, 2), "U": (3, 1), "CX": (0, 2)}

LEVEL = {"add": 1, "sub": 1, "mul": 2, "div": 2, "neg": 3, "pow": 4}
SYM = {"add": "+", "sub": "-", "mul": "*", "div": "/", "pow": "^"}


def num_text(fr):
    fr = Fraction(fr)
    if fr.denominator == 1:
        return str(fr.numerator)
    s = repr(float(fr))
    assert "e" not in s and Fraction(s) == fr, fr
    return s


def pexpr(e, ctx=0, right=False):
    t = e[0]
    if t == "num":
        return num_text(e[1])
    if t == "pi":
        return "pi"
    if t == "id":
        return e[1]
    if t == "call":
        return f"{e[1]}({pexpr(e[2])})"
    if t == "neg":
        s = "-" + pexpr(e[1], 3, True)
        return f"({s})" if (ctx >= 3 or right) else s
    lv = LEVEL[t]
    s = pexpr(e[1], lv, False) + SYM[t] + pexpr(e[2], lv, True)
    if lv < ctx or (lv == ctx and right):
        return f"({s})"
    return s


def pqarg(a):
    return a[0] if a[1] is None else f"{a[0]}[{a[1]}]"


def papp(g, args, qs, parens=False):
    """parens: print an EMPTY parameter list as `( )` (allowed by the grammar for every gate but U / CX)"""
    pl = f"({','.join(pexpr(e) for e in args)})" if args else ("()" if parens and g not in ("U", "CX") else "")
    return g + pl + " " + ",".join(qs) + ";"


def print_prog(p, layout="canonical", rng=None):
    """one statement per line (a gate definition is one statement)"""
    decl = [f"qreg {r}[{n}];" for r, n in p["qregs"]] + [f"creg {r}[{n}];" for r, n in p["cregs"]]
    gl = []
    for g in p["gates"]:
        head = g["name"] + (f"({','.join(g['params'])})" if g["params"] else ("()" if g.get("parens") else "")) + " " + ",".join(g["qubits"])
        if g.get("opaque"):
            gl.append(f"opaque {head};")
            continue
        body = []
        for b in g["body"]:
            if "barrier" in b:
                body.append("barrier " + ",".join(b["barrier"]) + ";")
            else:
                body.append(papp(b["call"], b["args"], b["qs"], b.get("parens")))
        if layout == "multiline":
            gl.append(f"gate {head}\n{{\n" + "\n".join("  " + x for x in body) + "\n}")
        else:
            gl.append(f"gate {head} {{ " + " ".join(body) + " }")
    ol = []
    for o in p["ops"]:
        if "app" in o:
            s = papp(o["app"], o["args"], [pqarg(a) for a in o["qs"]], o.get("parens"))
            if "if" in o:
                s = f"if({o['if'][0]}=={o['if'][1]}) " + s
            ol.append(s)
        elif "measure" in o:
            ol.append(f"measure {pqarg(o['measure'][0])} -> {pqarg(o['measure'][1])};")
        elif "barrier" in o:
            ol.append("barrier " + ",".join(pqarg(a) for a in o["barrier"]) + ";")
        elif "reset" in o:
            ol.append(f"reset {pqarg(o['reset'])};")
    if layout == "canonical" or layout == "multiline":
        lines = decl + gl + ol
    elif layout == "late_decl":          # a register declared after the first operations on earlier registers
        lines = decl[:1] + gl + ol[:1] + decl[1:] + ol[1:] if len(decl) > 1 and ol and _uses_only(p, 0) else decl + gl + ol
    elif layout == "joined":             # several statements on one line
        lines = [" ".join(decl)] + gl + [" ".join(ol)]
    elif layout == "spaced":
        lines = [x.replace(",", " , ").replace("(", " ( ").replace(";", " ;") for x in decl + gl + ol]
    elif layout == "comments":
        lines = []
        for x in decl + gl + ol:
            lines += ["// note", x + " // trailing"]
    else:
        raise ValueError(layout)
    return HEADER + "\n".join(lines) + "\n"


def _uses_only(p, k):
    first = p["ops"][0]
    r0 = p["qregs"][0][0]
    names = [a[0] for a in first.get("qs", [])] if "app" in first else None
    return names is not None and all(n == r0 for n in names) and "if" not in first


# ---- Coq literals ---------------------------------------------------------------------------------------------
def cexpr(e):
    t = e[0]
    if t == "num":
        fr = Fraction(e[1])
        return f"(ENum ({fr.numerator} # {fr.denominator})%Q)"
    if t == "pi":
        return "EPi"
    if t == "id":
        return f"(EId {cstr(e[1])})"
    if t == "neg":
        return f"(ENeg {cexpr(e[1])})"
    if t == "call":
        return f"(ECall {cstr(e[1])} {cexpr(e[2])})"
    c = {"add": "EAdd", "sub": "ESub", "mul": "EMul", "div": "EDiv", "pow": "EPow"}[t]
    return f"({c} {cexpr(e[1])} {cexpr(e[2])})"


def clist(xs):
    return "[" + "; ".join(xs) + "]"


def cqarg(a):
    return f"(AReg {cstr(a[0])})" if a[1] is None else f"(AIdx {cstr(a[0])} {a[1]})"


def cprog(p):
    regs = lambda l: clist(f"({cstr(r)}, {n})" for r, n in l)
    gl = []
    for g in p["gates"]:
        if g.get("opaque"):
            gl.append(f"GOpaque {cstr(g['name'])} {clist(map(cstr, g['params']))} {clist(map(cstr, g['qubits']))}")
            continue
        body = []
        for b in g["body"]:
            if "barrier" in b:
                body.append(f"BBarrier {clist(map(cstr, b['barrier']))}")
            else:
                body.append(f"BCall {cstr(b['call'])} {clist(map(cexpr, b['args']))} {clist(map(cstr, b['qs']))}")
        gl.append(f"GDef {cstr(g['name'])} (mkGdef {clist(map(cstr, g['params']))} {clist(map(cstr, g['qubits']))} {clist(body)})")
    ol = []
    for o in p["ops"]:
        if "app" in o:
            tail = f"{cstr(o['app'])} {clist(map(cexpr, o['args']))} {clist(map(cqarg, o['qs']))}"
            ol.append(f"OIf {cstr(o['if'][0])} {o['if'][1]} {tail}" if "if" in o else f"OApp {tail}")
        elif "measure" in o:
            ol.append(f"OMeasure {cqarg(o['measure'][0])} {cqarg(o['measure'][1])}")
        elif "barrier" in o:
            ol.append(f"OBarrier {clist(map(cqarg, o['barrier']))}")
        elif "reset" in o:
            ol.append(f"OReset {cqarg(o['reset'])}")
    return f"(mkProg {regs(p['qregs'])} {regs(p['cregs'])} {clist(gl)} {clist(ol)})"


CASE_HEAD = r"""
From QV Require Import Spec.Qasm Model.QasmImport.
Local Open Scope string_scope.
Local Open Scope nat_scope.
Inductive tz := ZNum (n d : Z) | ZPi | ZNeg (a : tz) | ZAdd (a b : tz) | ZSub (a b : tz) | ZMul (a b : tz) | ZDiv (a b : tz).
Fixpoint enc_tv (t : tv) : tz := match t with
  | TNum q => ZNum (Qnum q) (Zpos (Qden q)) | TPi => ZPi | TNeg a => ZNeg (enc_tv a)
  | TAdd a b => ZAdd (enc_tv a) (enc_tv b) | TSub a b => ZSub (enc_tv a) (enc_tv b)
  | TMul a b => ZMul (enc_tv a) (enc_tv b) | TDiv a b => ZDiv (enc_tv a) (enc_tv b) end.
Definition enc_g (g : igate TermAlg) := (ig_name g, ig_targets g, ig_controls g, map enc_tv (ig_args g)).
Definition enc_op (o : iop TermAlg) := match o with
  | IOp cc user gs => (0, cc, user, map enc_g gs, 0, 0)
  | IMeas q c => (1, None, None, [], q, c) end.
Definition enc (r : option (nat * nat * list (iop TermAlg))) :=
  match r with Some (n, c, l) => Some (n, c, map enc_op l) | None => None end.
Definition wfb (p : prog) := (wf_listed lib_sigs p, wf lib_sigs p).
"""


# ---- running the model -----------------------------------------------------------------------------------------
def tv_eval(t):
    """numeric value of a recorded value term (mirrors the float operations Python's eval performs)"""
    if t == "ZPi":
        return math.pi
    k = t[0]
    if k == "ZNum":
        fr = Fraction(t[1], t[2])
        return int(fr) if fr.denominator == 1 else float(fr)
    if k == "ZNeg":
        return -tv_eval(t[1])
    a, b = tv_eval(t[1]), tv_eval(t[2])
    if k == "ZAdd":
        return a + b
    if k == "ZSub":
        return a - b
    if k == "ZMul":
        return a * b
    if k == "ZDiv":
        return a / b
    raise ValueError(t)


def run_model(tag, progs):
    """-> list of (result, wf_listed, wf) ; result = None | (N, ncb, ops)"""
    files = []
    per = 150
    for i in range(0, len(progs), per):
        body = CASE_HEAD + "".join(f"Eval vm_compute in (enc (import_prog TermAlg {cprog(p)}), wfb {cprog(p)}).\n" for p in progs[i:i + per])
        files.append((f"C04_{tag}_p{os.getpid()}_{i // per}", body))      # per-process names: concurrent checks must not share case files
    try:
        outs = coq_eval_many(files, timeout=900)
    finally:
        import glob
        for name, _ in files:
            for fn in glob.glob(os.path.join(VERIF, "coq", "Cases", name + ".*")) + glob.glob(os.path.join(VERIF, "coq", "Cases", "." + name + ".aux")):
                try:
                    os.remove(fn)
                except OSError:
                    pass
    res = []
    for name, _ in files:
        for v in parse_evals(outs[name]):
            r, (wl, w) = v
            if r is not None:
                n, c, ops = r[1]
                r = (n, c, ops)
            res.append((r, wl, w))
    if len(res) != len(progs):
        raise Broken("correspondence-harness:C04", f"model returned {len(res)} results for {len(progs)} programs")
    return res


_helper_tabs = {}


def helper_matrix(name, args):
    if not _helper_tabs:
        dump = ("From QV Require Import Found.Sym Gen.Gates Gen.Qasm.\n"
                "Definition dterm (t : term) := (tc t, Z.of_nat (th t), Z.of_nat (tu t), tz t).\n"
                "Definition dump (m : mexp) := match mtab m with Some tb => map (map (map dterm)) tb | None => [] end.\n"
                "Eval vm_compute in map (fun p => (fst p, dump (snd (snd p)))) helpers.\n")
        vals = parse_evals(coq_eval("C04_helpers", dump, timeout=300))
        _helper_tabs.update({k: v for k, v in vals[0]})
    return Q.eval_table(_helper_tabs[name], list(args))


def native_matrix(name, args):
    if name in _helper_tabs or name in HELPER_NAMES:
        return helper_matrix(name, args)
    a = list(args)
    return Q.np_gate(name, a[0] if len(a) == 1 else (a or None))


def leaves_unitary(gs, n):
    U = np.eye(2 ** n, dtype=complex)
    for (name, tg, ct, args) in gs:
        vals = [float(tv_eval(a)) for a in args]
        U = Q.embed(native_matrix(name, vals), list(ct) + list(tg), n) @ U
    return U


# ---- running the implementation --------------------------------------------------------------------------------
def run_impl(text):
    from qutip_qip.qasm import read_qasm
    try:
        with warnings.catch_warnings():
            warnings.simplefilter("ignore")
            qc = read_qasm(text, strmode=True)
    except Exception as e:  # any exception = rejected
        return None, f"{type(e).__name__}: {e}"
    return qc, None


def impl_ops(qc):
    """canonical list of the operations of the imported circuit"""
    from qutip_qip.operations import Measurement
    out = []
    for g in qc.gates:
        if isinstance(g, Measurement):
            out.append(("M", list(g.targets), g.classical_store))
            continue
        a = g.arg_value
        args = [] if a is None else (list(a) if isinstance(a, (list, tuple, np.ndarray)) else [a])
        cc = None if g.classical_controls is None else (list(g.classical_controls), g.classical_control_value)
        user = g.name in qc.user_gates and g.name not in HELPER_NAMES
        out.append(("U" if user else "G", g.name, list(g.targets or []), list(g.controls or []), args, cc))
    return out


def compare(corr, inp, qc, model):
    """exact comparison of the imported circuit with the model's prediction; returns True if they agree"""
    n, c, mops = model
    iops = impl_ops(qc)
    if (qc.N, qc.num_cbits) != (n, c):
        corr.disagree(inp, [qc.N, qc.num_cbits], [n, c], "register sizes")
        return False
    exp = []
    for kind, cc, user, gs, q, cb in mops:
        cc = None if cc is None else (list(cc[1][0]), cc[1][1])
        if kind == 1:
            exp.append(("M", [q], cb))
        elif user is None:
            for (name, tg, ct, args) in gs:
                exp.append(("G", name, list(tg), list(ct), args, cc))
        else:
            exp.append(("U", None, list(user[1]), [], gs, cc))
    if len(exp) != len(iops):
        corr.disagree(inp, _short(iops), _short(exp), "number of operations")
        return False
    for a, b in zip(iops, exp):
        ok = a[0] == b[0]
        if ok and a[0] == "M":
            ok = a[1:] == b[1:]
        elif ok and a[0] == "G":
            ok = a[1:4] == b[1:4] and a[5] == b[5] and len(a[4]) == len(b[4])
            if ok:
                for x, y in zip(a[4], b[4]):
                    try:
                        yv = tv_eval(y)
                    except ZeroDivisionError:
                        ok = False
                        break
                    if not (isinstance(x, (int, float)) and abs(float(x) - float(yv)) <= 1e-12 * max(1.0, abs(float(yv)))):
                        ok = False
        elif ok:
            ok = a[2] == b[2] and a[3] == [] and a[5] == b[5]
            if ok:
                M = qc.user_gates[a[1]]
                M = M.full() if hasattr(M, "full") else None
                try:
                    E = leaves_unitary(b[4], len(b[2]))
                except ZeroDivisionError:
                    E = None
                ok = M is not None and E is not None and M.shape == E.shape and np.allclose(M, E, atol=1e-9)
        if not ok:
            corr.disagree(inp, _short([a]), _short([b]), "operation differs")
            return False
    return True


def _short(x):
    return json.loads(json.dumps(x, default=str))[:12]


# ---- the property oracle -----------------------------------------------------------------------------------------
def impl_branches(qc, psi):
    """all measurement branches of the imported circuit, from the circuit's own gate list and gate unitaries"""
    from qutip_qip.operations import Measurement
    n = qc.N
    branches = [((), np.array(psi, dtype=complex), (0,) * qc.num_cbits)]
    for g in qc.gates:
        new = []
        if isinstance(g, Measurement):
            for rec, st, cb in branches:
                for out in (0, 1):
                    P = np.zeros((2, 2), dtype=complex)
                    P[out, out] = 1
                    s2 = OQ.apply1(st, P, g.targets[0], n)
                    if np.vdot(s2, s2).real > 1e-12:
                        c2 = list(cb)
                        c2[g.classical_store] = out
                        new.append((rec + (out,), s2, tuple(c2)))
            branches = new
            continue
        M = qc._get_gate_unitary(g).full()
        qs = list(g.controls or []) + list(g.targets or [])
        if len(set(qs)) != len(qs) or M.shape != (2 ** len(qs),) * 2:
            raise ValueError(f"gate {g.name} on qubits {qs} has no meaning")
        for rec, st, cb in branches:
            fire = True
            if g.classical_controls is not None:
                k = len(g.classical_controls)
                v = g.classical_control_value
                bits = [(v >> (k - 1 - i)) & 1 for i in range(k)] if v < 2 ** k else None   # first listed = most significant
                fire = bits is not None and all(cb[c] == b for c, b in zip(g.classical_controls, bits))
            new.append((rec, OQ.applyk(st, M, qs, n) if fire else st, cb))
        branches = new
    return {rec: (st, cb) for rec, st, cb in branches}


def oracle(text, canonical=True, rng=None):
    """-> None if the property holds on this text, else (observed, expected, what)"""
    try:
        nq, nc, prims = OQ.elaborate(OQ.parse(text))
        verdict = "ok"
    except OQ.Unsupported as e:
        verdict, why = "unsupported", str(e)
    except OQ.QasmError as e:
        verdict, why = "malformed", str(e)
    qc, err = run_impl(text)
    if verdict != "ok":
        if qc is not None:
            return (f"imported as a circuit with {len(qc.gates)} operations", "rejected with an error",
                    f"{verdict} program is not rejected ({why})")
        return None
    if qc is None:
        if canonical:
            return ("rejected: " + err, "a circuit", "well-formed program (one statement per line) is refused")
        return None
    if (qc.N, qc.num_cbits) != (nq, nc):
        return ([qc.N, qc.num_cbits], [nq, nc], "number of qubits / classical bits")
    seed = rng.randrange(2 ** 31) if rng is not None else 12345
    r = np.random.RandomState(seed)
    for trial in range(2):
        psi = r.normal(size=2 ** nq) + 1j * r.normal(size=2 ** nq)
        psi /= np.linalg.norm(psi)
        want = OQ.run_prims(prims, nq, nc, psi)
        try:
            got = impl_branches(qc, psi)
        except Exception as e:
            return (f"{type(e).__name__}: {e}", "a circuit with the standard's action", "imported circuit cannot be evaluated")
        if set(want) != set(got):
            return (sorted(map(list, got)), sorted(map(list, want)), "sets of possible measurement records differ")
        for rec in want:
            if want[rec][1] != got[rec][1]:
                return (list(got[rec][1]), list(want[rec][1]), f"classical bits after record {list(rec)} differ")
            if not OQ.same_up_to_phase(want[rec][0], got[rec][0]):
                return ("branch state differs", "equal up to a global phase",
                        f"action differs from the standard on measurement record {list(rec)}")
    return None


# ---- generation --------------------------------------------------------------------------------------------------
QNAMES = ["q", "r", "anc", "q1", "reg_b"]
CNAMES = ["c", "m", "c0", "out"]
PARAM_POOL = ["theta", "phi", "lambda", "t", "a", "alpha", "x", "th", "p", "e", "gamma", "beta", "t2"]
QF_POOL = ["a", "b", "c", "q", "q0", "q1", "t", "ctl", "tgt", "qa"]
GNAMES = ["g", "foo", "myg", "rot", "ent", "u3alt", "cH", "blk"]


def gen_num(rng):
    return ["num", str(Fraction(rng.choice([0, 1, 2, 3, 5, 7]), rng.choice([1, 1, 2, 4, 8, 16])))]


def gen_expr(rng, params, depth=0):
    r = rng.random()
    if depth >= 3 or r < 0.25:
        c = rng.random()
        if params and c < 0.5:
            return ["id", rng.choice(params)]
        if c < 0.75:
            return ["pi"]
        return gen_num(rng)
    if r < 0.4:
        return ["neg", gen_expr(rng, params, depth + 1)]
    op = rng.choice(["add", "sub", "mul", "div", "div", "mul"])
    a = gen_expr(rng, params, depth + 1)
    if op == "div":
        d = rng.choice([2, 3, 4, 8])
        b = ["num", str(d)] if rng.random() < 0.7 else ["div", ["pi"], ["num", str(d)]]
    else:
        b = gen_expr(rng, params, depth + 1)
    return [op, a, b]


def gen_prog(rng, size="small"):
    nq_regs = rng.choice([1, 1, 2, 2, 3])
    sizes = []
    left = 5
    for i in range(nq_regs):
        s = rng.randint(1, max(1, min(3, left - (nq_regs - 1 - i))))
        sizes.append(s)
        left -= s
    if rng.random() < 0.3 and nq_regs >= 2:
        sizes[1] = sizes[0]
    while sum(sizes) > 5:
        sizes[sizes.index(max(sizes))] -= 1
    qregs = [[n, s] for n, s in zip(rng.sample(QNAMES, nq_regs), sizes)]
    nc_regs = rng.choice([0, 1, 1, 2, 3])
    cregs = [[n, rng.randint(1, 3)] for n in rng.sample(CNAMES, nc_regs)]
    if cregs and rng.random() < 0.5:
        cregs[0][1] = qregs[0][1]
    sig = dict(QELIB_SIG)
    gates = []
    depth = {}
    for gi in range(rng.choice([0, 1, 2, 3, 4])):
        name = GNAMES[gi] if rng.random() < 0.8 else rng.choice(GNAMES[gi:])
        if name in sig:
            continue
        npar = rng.choice([0, 0, 1, 1, 2, 3])
        nqb = rng.choice([1, 1, 2, 2, 3])
        params = rng.sample(PARAM_POOL, npar)
        qf = rng.sample(QF_POOL, nqb)
        body = []
        d = 0
        for _ in range(rng.randint(1, 4)):
            if rng.random() < 0.1:
                body.append({"barrier": rng.sample(qf, rng.randint(1, nqb))})
                continue
            cands = [h for h, (a, k) in sig.items() if k <= nqb and depth.get(h, 0) < 3]
            user = [h for h in cands if h in depth]
            h = rng.choice(user) if user and rng.random() < 0.45 else rng.choice(cands)
            a, k = sig[h]
            body.append({"call": h, "args": [gen_expr(rng, params) for _ in range(a)], "qs": rng.sample(qf, k)})
            d = max(d, depth.get(h, 0) + 1)
        if rng.random() < 0.12:           # a body that applies no gate: empty, or barriers only (the identity)
            body = [b for b in body if "barrier" in b] if rng.random() < 0.5 else []
            d = 0
        for b in body:
            if "call" in b and not b["args"] and rng.random() < 0.2:
                b["parens"] = True
        g_new = {"name": name, "params": params, "qubits": qf, "body": body}
        if not params and rng.random() < 0.3:
            g_new["parens"] = True
        gates.append(g_new)
        sig[name] = (npar, nqb)
        depth[name] = d
    ops = []
    allq = [(r, i) for r, s in qregs for i in range(s)]
    user_names = [g["name"] for g in gates]
    for _ in range(rng.randint(1, 7 if size == "small" else 12)):
        r = rng.random()
        if r < 0.08 and cregs:
            cr = rng.choice(cregs)
            same = [q for q in qregs if q[1] == cr[1]]
            if same and rng.random() < 0.5:
                ops.append({"measure": [[rng.choice(same)[0], None], [cr[0], None]]})
            else:
                q = rng.choice(allq)
                ops.append({"measure": [list(q), [cr[0], rng.randrange(cr[1])]]})
            continue
        if r < 0.13:
            k = rng.randint(1, min(3, len(allq)))
            ops.append({"barrier": [list(q) if rng.random() < 0.6 else [q[0], None] for q in rng.sample(allq, k)]})
            continue
        cands = [h for h, (a, k) in sig.items() if k <= len(allq)]
        h = rng.choice(user_names) if user_names and rng.random() < 0.4 and sig[rng.choice(user_names)][1] <= len(allq) else rng.choice(cands)
        if sig[h][1] > len(allq):
            h = "h"
        a, k = sig[h]
        args = [gen_expr(rng, []) for _ in range(a)]
        qs = None
        if rng.random() < 0.3:   # broadcast over whole registers of one size
            sz = rng.choice(qregs)[1]
            same = [q for q in qregs if q[1] == sz]
            if len(same) >= 1:
                whole = rng.sample(same, min(len(same), rng.randint(1, k)))
                rest = [q for q in allq if q[0] not in [w[0] for w in whole]]
                if len(rest) >= k - len(whole):
                    qs = [[w[0], None] for w in whole] + [list(q) for q in rng.sample(rest, k - len(whole))]
                    rng.shuffle(qs)
        if qs is None:
            qs = [list(q) for q in rng.sample(allq, k)]
        o = {"app": h, "args": args, "qs": qs}
        if not args and rng.random() < 0.2:
            o["parens"] = True
        if cregs and rng.random() < 0.3:
            cr = rng.choice(cregs)
            kv = rng.randrange(2 ** cr[1]) if rng.random() < 0.9 else 2 ** cr[1] + rng.randrange(3)
            o["if"] = [cr[0], kv]
            # make conditions reachable: measure something into that register first (sometimes)
            if rng.random() < 0.7:
                q = rng.choice(allq)
                ops.append({"measure": [list(q), [cr[0], rng.randrange(cr[1])]]})
                if rng.random() < 0.5:
                    ops.insert(max(0, len(ops) - 1), {"app": "h", "args": [], "qs": [list(q)]})
        ops.append(o)
    return {"qregs": qregs, "cregs": cregs, "gates": gates, "ops": ops}


# the same parametrised user gate applied several times with parameter values that agree to 5-8 significant digits
NEAR = [("1000000", "1000003"), ("1234567", "2469137/2"), ("1", "10000001/10000000"), (None, "314159265/100000000"),
        ("1/2", "50000004/100000000"), ("5/2", "25000002/10000000"), ("1234567/10", "1234569/10"), ("7", "700000003/100000000"),
        ("1000000", "100000001/100")]
NEAR_DEFS = [
    {"name": "rot", "params": ["t"], "qubits": ["a"], "body": [{"call": "rx", "args": [["id", "t"]], "qs": ["a"]}]},
    {"name": "crx", "params": ["theta"], "qubits": ["a", "b"],
     "body": [{"call": "cu3", "args": [["id", "theta"], ["neg", ["div", ["pi"], ["num", "2"]]], ["div", ["pi"], ["num", "2"]]], "qs": ["a", "b"]}]},
    {"name": "cry", "params": ["theta"], "qubits": ["a", "b"],
     "body": [{"call": "cu3", "args": [["id", "theta"], ["num", "0"], ["num", "0"]], "qs": ["a", "b"]}]},
    {"name": "two", "params": ["x", "y"], "qubits": ["a", "b"],
     "body": [{"call": "ry", "args": [["id", "x"]], "qs": ["a"]}, {"call": "crz", "args": [["add", ["id", "x"], ["id", "y"]]], "qs": ["b", "a"]}]},
]


def gen_near_prog(rng):
    d = json.loads(json.dumps(rng.choice(NEAR_DEFS)))
    nq = len(d["qubits"])
    n = rng.randint(max(2, nq), 4)
    qregs = [["q", n]]
    cregs = [["c", 1]] if rng.random() < 0.3 else []
    a, b = rng.choice(NEAR)
    va = ["pi"] if a is None else ["num", a]
    vals = [va, ["num", b]] + ([va] if rng.random() < 0.3 else [])
    rng.shuffle(vals)
    ops = []
    for v in vals:
        args = [v] if len(d["params"]) == 1 else ([v, ["num", "1/4"]] if rng.random() < 0.5 else [["num", "1/4"], v])
        o = {"app": d["name"], "args": args, "qs": [["q", i] for i in rng.sample(range(n), nq)]}
        if cregs and rng.random() < 0.3:
            o["if"] = ["c", 0]
        ops.append(o)
        if rng.random() < 0.3:
            ops.append({"app": "h", "args": [], "qs": [["q", rng.randrange(n)]]})
    return {"qregs": qregs, "cregs": cregs, "gates": [d], "ops": ops}


# systematic malformed variants ---------------------------------------------------------------------------------
KINDS = ["undeclared_gate", "undeclared_qreg", "index_out_of_range", "repeated_qubit", "arity_qubits_more", "arity_qubits_less",
         "arity_params_more", "arity_params_less", "reset", "opaque", "power", "function", "unknown_identifier",
         "size_mismatch", "undeclared_creg_if", "undeclared_creg_measure", "measure_out_of_range", "measure_mixed",
         "body_undeclared_gate", "body_arity", "body_repeated_qubit", "body_unknown_qubit", "body_unknown_param",
         "body_power", "body_function", "barrier_undeclared", "barrier_out_of_range",
         # a broadcast whose FIRST tuple is fine and a LATER tuple repeats a qubit: whole register r together with r[k], k >= 1
         "repeated_later_tuple", "repeated_later_tuple_if", "repeated_later_tuple_3q"]


def mutate(rng, p, kind=None):
    """-> (kind, program) with one malformation of the classes named by the property, or None if not applicable"""
    p = json.loads(json.dumps(p))
    apps = [o for o in p["ops"] if "app" in o]
    defs = [g for g in p["gates"] if not g.get("opaque")]
    calls = [(g, b) for g in defs for b in g["body"] if "call" in b]
    k = kind or rng.choice(KINDS)
    allq = [(r, i) for r, s in p["qregs"] for i in range(s)]
    if k == "reset":
        p["ops"].insert(rng.randrange(len(p["ops"]) + 1), {"reset": list(rng.choice(allq))})
        return k, p
    if k == "opaque":
        p["gates"].insert(rng.randrange(len(p["gates"]) + 1), {"opaque": True, "name": "opq", "params": [], "qubits": ["a"], "body": []})
        if rng.random() < 0.5:
            p["ops"].append({"app": "opq", "args": [], "qs": [list(rng.choice(allq))]})
        return k, p
    if k.startswith("repeated_later_tuple"):
        big = [(r, n) for r, n in p["qregs"] if n >= 2]
        if not big:
            return None
        r, n = rng.choice(big)
        idx = rng.randrange(1, n)                       # never 0: the first tuple (r[0], r[idx]) is distinct
        sig = dict(QELIB_SIG)
        sig.update({g["name"]: (len(g["params"]), len(g["qubits"])) for g in p["gates"] if not g.get("opaque")})
        want = 3 if k.endswith("3q") else 2
        cands = [h for h, (a, q) in sig.items() if q == want]
        if not cands:
            return None
        h = rng.choice(cands)
        qs = [[r, None], [r, idx]]
        if want == 3:
            same = [x for x, m in p["qregs"] if m == n and x != r]
            others = [(x, i) for x, m in p["qregs"] if x != r for i in range(m)]
            if same and rng.random() < 0.6:
                qs.append([rng.choice(same), None])
            elif others:
                qs.append(list(rng.choice(others)))
            else:
                free = [i for i in range(n) if i != idx]
                qs.append([r, rng.choice(free)])     # also repeats in some tuple; still malformed
        rng.shuffle(qs)
        o = {"app": h, "args": [gen_expr(rng, []) for _ in range(sig[h][0])], "qs": qs}
        if k.endswith("_if"):
            if not p["cregs"]:
                return None
            cr = rng.choice(p["cregs"])
            o["if"] = [cr[0], rng.randrange(2 ** cr[1])]
        p["ops"].insert(rng.randrange(len(p["ops"]) + 1), o)
        return k, p
    if k.startswith("barrier"):
        p["ops"].insert(rng.randrange(len(p["ops"]) + 1),
                        {"barrier": [["zz", None]] if k == "barrier_undeclared" else [[p["qregs"][0][0], p["qregs"][0][1] + rng.randrange(2)]]})
        return k, p
    if k in ("undeclared_creg_measure", "measure_out_of_range", "measure_mixed"):
        q = rng.choice(allq)
        if k == "undeclared_creg_measure":
            o = {"measure": [list(q), ["nocreg", 0]]}
        elif not p["cregs"]:
            return None
        elif k == "measure_out_of_range":
            cr = rng.choice(p["cregs"])
            o = {"measure": [list(q), [cr[0], cr[1]]]} if rng.random() < 0.5 else {"measure": [[q[0], 7], [cr[0], 0]]}
        else:
            cr = rng.choice(p["cregs"])
            o = {"measure": [list(q), [cr[0], None]]} if rng.random() < 0.5 else {"measure": [[q[0], None], [cr[0], 0]]}
        p["ops"].insert(rng.randrange(len(p["ops"]) + 1), o)
        return k, p
    if k.startswith("body"):
        if not calls:
            return None
        g, b = rng.choice(calls)
        if k == "body_undeclared_gate":
            b["call"] = "nogate"
        elif k == "body_arity":
            if rng.random() < 0.5:
                b["args"] = b["args"] + [["pi"]]
            elif len(g["qubits"]) > len(b["qs"]):
                b["qs"] = b["qs"] + [x for x in g["qubits"] if x not in b["qs"]][:1]
            else:
                b["args"] = b["args"] + [["num", "1"]]
        elif k == "body_repeated_qubit":
            if len(b["qs"]) < 2:
                return None
            b["qs"][1] = b["qs"][0]
        elif k == "body_unknown_qubit":
            b["qs"][0] = "zq"
        else:
            if not b["args"]:
                return None
            j = rng.randrange(len(b["args"]))
            b["args"][j] = {"body_unknown_param": ["mul", ["id", "zeta"], b["args"][j]],
                            "body_power": ["pow", b["args"][j], ["num", "2"]],
                            "body_function": ["call", rng.choice(["sin", "cos", "sqrt", "exp", "ln", "tan"]), b["args"][j]]}[k]
        return k, p
    if not apps:
        return None
    o = rng.choice(apps)
    if k == "undeclared_gate":
        o["app"] = "nogate"
    elif k == "undeclared_qreg":
        o["qs"][rng.randrange(len(o["qs"]))][0] = "nreg"
    elif k == "index_out_of_range":
        cand = [a for a in o["qs"] if a[1] is not None]
        if not cand:
            return None
        a = rng.choice(cand)
        a[1] = dict(p["qregs"])[a[0]] + rng.randrange(2)
    elif k == "repeated_qubit":
        if len(o["qs"]) < 2:
            return None
        i, j = rng.sample(range(len(o["qs"])), 2)
        if o["qs"][j][1] is None and dict(p["qregs"])[o["qs"][j][0]] > 1 and o["qs"][i][1] is not None:
            return None
        o["qs"][i] = list(o["qs"][j])
    elif k == "arity_qubits_more":
        rest = [q for q in allq if list(q) not in o["qs"] and [q[0], None] not in o["qs"]]
        if not rest:
            return None
        o["qs"].append(list(rng.choice(rest)))
    elif k == "arity_qubits_less":
        if len(o["qs"]) < 2:
            return None
        o["qs"].pop(rng.randrange(len(o["qs"])))
    elif k == "arity_params_more":
        o["args"] = o["args"] + [gen_num(rng)]
    elif k == "arity_params_less":
        if not o["args"]:
            return None
        o["args"].pop()
    elif k in ("power", "function", "unknown_identifier"):
        if not o["args"]:
            return None
        j = rng.randrange(len(o["args"]))
        o["args"][j] = {"power": ["pow", ["num", "2"], ["num", "3"]] if rng.random() < 0.5 else ["pow", o["args"][j], ["num", "2"]],
                        "function": ["call", rng.choice(["sin", "cos", "sqrt", "exp", "ln", "tan"]), o["args"][j]],
                        "unknown_identifier": ["add", ["id", rng.choice(["arg", "theta", "np", "zeta", "i"])], o["args"][j]]}[k]
    elif k == "size_mismatch":
        sizes = sorted({s for _, s in p["qregs"]})
        if len(sizes) < 2 or len(o["qs"]) < 2:
            return None
        a = next(r for r, s in p["qregs"] if s == sizes[0])
        b = next(r for r, s in p["qregs"] if s == sizes[-1])
        o["qs"][0], o["qs"][1] = [a, None], [b, None]
    elif k == "undeclared_creg_if":
        o["if"] = ["nocreg", 1]
    return k, p


# ---- corpus / replay / search -----------------------------------------------------------------------------------
CORPUS_DIR = os.path.join(VERIF, "corpus", "C04")


def corpus():
    out = []
    if os.path.isdir(CORPUS_DIR):
        for f in sorted(os.listdir(CORPUS_DIR)):
            if f.endswith(".json"):
                out.append(json.load(open(os.path.join(CORPUS_DIR, f))))
    return out


def check_text(text, canonical=True, rng=None):
    r = oracle(text, canonical, rng)
    if r is None:
        return None
    return dict(input=dict(text=text, canonical=canonical), observed=r[0], expected=r[1], what=r[2])


def replay(ctx, rec):
    inp = rec.get("input", rec)
    text = inp.get("text")
    if text is None and "prog" in inp:
        text = print_prog(inp["prog"], inp.get("layout", "canonical"))
    return check_text(text, inp.get("canonical", True)) is not None


def classify(f):
    """known-finding class of a failing input: only REFUSALS of well-formed programs whose sole obstacle is the named construct"""
    import re
    inp = f.get("input", {})
    text = inp.get("text", "")
    if "is refused" not in f.get("what", "") or not text:
        return None
    if re.search(r"(?m)^\s*if\s*\([^)]*\)\s*measure\b", text):
        if oracle(re.sub(r"(?m)^(\s*)if\s*\([^)]*\)\s*(measure\b)", r"\1\2", text), True) is None:
            return "if-measure-refused"
    return None


def generate(ctx):
    gates_tr.generate()
    ctx.gen = qasm_tr.generate()


def _stream(ctx, n_valid, n_bad, n_layout):
    rng = ctx.rng
    cases = []
    for rec in corpus():
        inp = rec.get("input", rec)
        if "prog" in inp:
            cases.append(("corpus", inp["prog"], inp.get("layout", "canonical")))
    for _ in range(n_valid):
        cases.append(("valid", gen_prog(rng, "small" if rng.random() < 0.7 else "large"), "canonical"))
    for _ in range(30 if n_valid < 1000 else 200):
        cases.append(("near_params", gen_near_prog(rng), "canonical"))
    for i in range(n_bad):
        for _ in range(200):
            m = mutate(rng, gen_prog(rng), KINDS[i % len(KINDS)])
            if m is not None:
                cases.append(("bad:" + m[0], m[1], "canonical"))
                break
    for _ in range(n_layout):
        cases.append(("layout", gen_prog(rng), rng.choice(["multiline", "late_decl", "joined", "spaced", "comments"])))
    return cases


def correspond(ctx):
    corr = Corr(rule="programs from the grammar of the supported subset (1-3 qregs, 0-3 cregs, <= 5 qubits, 0-4 gate definitions "
                     "nested <= 3, parameter expressions, empty bodies, `( )` parameter lists, indexed / whole-register arguments, barrier, measure, if) + one malformation "
                     "each of 30 kinds (incl. broadcasts whose k-th tuple, k >= 1, repeats a qubit) + other layouts; non-trivial = uses a user gate, a broadcast, an if, a measurement or a parameter")
    cases = _stream(ctx, ctx.n(260, 2400), ctx.n(240, 1800), ctx.n(40, 300))
    progs = [c[1] for c in cases]
    models = run_model(ctx.tier, progs)
    for (kind, p, layout), (model, wfl, wfs) in zip(cases, models):
        canonical = layout in ("canonical",)
        text = print_prog(p, layout, ctx.rng)
        inp = dict(prog=p, layout=layout, text=text, canonical=canonical, kind=kind)
        nontriv = bool(p["gates"]) or any(("if" in o) or ("measure" in o) or o.get("args") or any(a[1] is None for a in o.get("qs", []))
                                          for o in p["ops"])
        corr.count(text, nontrivial=nontriv, sample=dict(text=text) if ctx.rng.random() < 0.02 else None)
        corr.tally(kind.split(":")[0] if not kind.startswith("bad") else kind)
        corr.tally("layout:" + layout)
        qc, err = run_impl(text)
        # 1. model vs implementation (canonical layout: exact; other layouts: only if the implementation accepts)
        if canonical or qc is not None:
            if (qc is None) != (model is None):
                corr.disagree(inp, "rejected: " + str(err) if qc is None else "accepted", "rejected" if model is None else "accepted",
                              "accept/reject differs between model and implementation")
            elif qc is not None:
                compare(corr, inp, qc, model)
        # 2. the model's own static verdicts must agree with the independent reader (keeps Spec/Qasm.v honest)
        try:
            OQ.elaborate(OQ.parse(text))
            ok = True
        except OQ.QasmError:
            ok = False
        if ok != bool(wfl) and not _dup_names(p):
            corr.disagree(inp, "independent reader: " + ("well-formed" if ok else "malformed"), f"wf_listed = {wfl}",
                          "Spec/Qasm.v wf_listed disagrees with the independent OpenQASM reader")
        # 3. property oracle on the real code
        r = oracle(text, canonical, ctx.rng)
        if r is not None:
            corr.oracle_fail(dict(text=text, canonical=canonical, prog=p, layout=layout), r[0], r[1], r[2])
    corr.extra["translated"] = {k: (len(v) if hasattr(v, "__len__") else v) for k, v in getattr(ctx, "gen", {}).items()}
    return corr


def _dup_names(p):
    names = [g["name"] for g in p["gates"]]
    return len(set(names)) != len(names)


def search(ctx, broken):
    out = []
    for rec in corpus():
        inp = rec.get("input", rec)
        text = inp.get("text") or print_prog(inp["prog"], inp.get("layout", "canonical"))
        f = check_text(text, inp.get("canonical", True))
        if f:
            out.append(f)
    rng = ctx.rng
    for i in range(1500):
        if len(out) >= 8:
            break
        p = gen_prog(rng)
        if i % 2:
            m = mutate(rng, p)
            if m is None:
                continue
            p = m[1]
        f = check_text(print_prog(p), True, rng)
        if f:
            f["input"]["prog"] = p
            out.append(f)
    return out
