"""C02 -- measurement branches obey the Born rule and drive classical control
(circuit/circuitsimulator.py, operations/measurement.py).

Model: coq/Model/Sim.v (abstract state space) run on the exact n-qubit instance coq/Model/SimInst.v.
Spec:  coq/Spec/Branch.v.  Theorems: coq/Props/C02.v.
"""
import itertools
import json
import math
import os
import warnings
from fractions import Fraction
from unittest import mock

import numpy as np

from common import Corr, Broken, coq_eval_many, parse_evals, cnat, cbool, clist, REPO, SRC, VERIF

warnings.filterwarnings("ignore")

ID = "C02"
TARGETS = ["Props/C02.vo"]
TRUSTED = [
    "Model/Sim.v is a hand-written Gallina model of CircuitSimulator.initialize/step/_check_classical_control_value/"
    "_apply_measurement/run/run_statistics, CircuitResult and Measurement.measurement_comp_basis; it is tied to the code by "
    "comparing, on generated circuits (<= 4 qubits, <= 4 measurements, all outcome records), probabilities and states "
    "(1e-9), classical bits, the caller's list afterwards and the alias classes of the returned lists (exactly)",
    "the theorems are proved over an ABSTRACT state space (record Sys + laws SysLaws of Proofs/SimLaws.v: field and order "
    "laws of the probabilities, projector completeness nrm(P0 s)+nrm(P1 s)=nrm s, unitarity nrm(U s)=nrm s, linearity of "
    "gates/projectors w.r.t. renormalisation, linear density-matrix operations with tr|s><s| = <s|s>); that qutip's "
    "Qobj algebra, numpy.einsum and expand_operator form such a structure is ASSUMED (validated numerically by the "
    "correspondence on the exact-rational instance Model/SimInst.v, whose laws are not proved in general; a small "
    "instance satisfying every law is proved in Proofs/SimTiny.v)",
    "qutip.measurement.measurement_statistics is modelled as: outcome b has p = <s|P_b|s>, collapsed state P_b s/sqrt(p), "
    "dropped (None, 0.0) when p < atol; np.random.choice is modelled as an arbitrary oracle that never returns an outcome "
    "of probability 0 (patched from outside in the harness)",
    "the model has no simulator-object state besides what initialize sets (every run starts from initialize): this is tied to "
    "the code by histories of 2-4 calls (run_statistics / prescribed run / unconstrained run / density-matrix run, mixed order, "
    "different states and registers) made on ONE CircuitSimulator object, each call compared with the model and the oracle as "
    "for a fresh object; when the patched random choice is not consumed the harness decides from 16 real samples whether the "
    "run samples the branches at all; likewise nothing is remembered from CONSTRUCTION time: histories in which the circuit "
    "object is edited (add_gate / add_measurement) after the simulator objects were made and between two runs of one simulator "
    "(state-vector and density-matrix), every run compared with the model and the oracle on the circuit as it is at run time",
    "gate kinds the simulator special-cases are all generated on every path (run_statistics, prescribed, unconstrained, density "
    "matrix; before/between/after measurements; under classical control): GLOBALPHASE (0, +-pi/2, pi, 2pi, atan2(4,3)), user gates "
    "as operator / 0-argument / 1-argument function, TOFFOLI, FREDKIN, ControlledGate(X) with every control value, RX/RY/RZ(pi), "
    "CPHASE(pi/2); the exact table is validated against the documented formulas at import time",
    "Python floats are modelled as exact field elements; the generated states/gates have Gaussian-rational amplitudes "
    "so that all probabilities are rationals far from the tolerance thresholds",
    "the model describes /repo with fixes/C02-copy-cbits.diff (`alias := false`) and fixes/C02-dm-classical-control.diff "
    "(density-matrix mode tracks the ensemble per classical register value: dm_run) applied; the shipped variants "
    "(`alias := true`, dm_run_orig) are refuted in Props/C02.v",
]
ASSUMES = [
    "initial kets are normalised (nrm s0 = 1); classical indices are in range (0 <= index < num_cbits), classical "
    "control values satisfy 0 <= v < 2^len(classical_controls); negative Python indices are not modelled",
    "no conditional outcome probability lies strictly between 0 and the tolerance (guard `clear`; trivially true for "
    "tolerance 0) -- an outcome with 0 < p < 1e-12 is treated by the code as impossible",
    "density-matrix clause: proved for every circuit (conditioned gates reading measured bits included); on the "
    "branch-tracking path the guard also assumes that the run raises no exception and that some branch survives the "
    "tolerance tests (always the case for a normalised input; checked on every generated case)",
    "user-defined gates are assumed unitary",
]

# --------------------------------------------------------------------------------------------------
# gate table: name -> (matrix rows with Gaussian-integer entries (re, im), divisor d): U = M / sqrt(d)
# matrix index order = controls ++ targets, first listed most significant
# --------------------------------------------------------------------------------------------------
def _m(rows):
    return [[(c, 0) if not isinstance(c, tuple) else c for c in r] for r in rows]


I_ = (0, 1)
MI_ = (0, -1)
GATES = {
    "X": (_m([[0, 1], [1, 0]]), 1, 0, 1),
    "Y": (_m([[0, MI_], [I_, 0]]), 1, 0, 1),
    "Z": (_m([[1, 0], [0, -1]]), 1, 0, 1),
    "S": (_m([[1, 0], [0, I_]]), 1, 0, 1),
    "SNOT": (_m([[1, 1], [1, -1]]), 2, 0, 1),
    "SQRTNOT": (_m([[(1, 1), (1, -1)], [(1, -1), (1, 1)]]), 4, 0, 1),
    "R345": (_m([[3, -4], [4, 3]]), 25, 0, 1),            # user gate
    "CNOT": (_m([[1, 0, 0, 0], [0, 1, 0, 0], [0, 0, 0, 1], [0, 0, 1, 0]]), 1, 1, 1),
    "CZ": (_m([[1, 0, 0, 0], [0, 1, 0, 0], [0, 0, 1, 0], [0, 0, 0, -1]]), 1, 1, 1),
    "SWAP": (_m([[1, 0, 0, 0], [0, 0, 1, 0], [0, 1, 0, 0], [0, 0, 0, 1]]), 1, 0, 2),
    "TOFFOLI": (_m([[1 if (r == c and r < 6) or (r, c) in ((6, 7), (7, 6)) else 0 for c in range(8)] for r in range(8)]), 1, 2, 1),
}
# name -> (M, d, number of controls, number of targets)


def _ident(n):
    return [[1 if r == c else 0 for c in range(n)] for r in range(n)]


def _mcx(v):
    """X on the last qubit iff the two controls (first listed most significant) spell v"""
    M = _ident(8)
    a, b = 2 * v, 2 * v + 1
    M[a][a] = M[b][b] = 0
    M[a][b] = M[b][a] = 1
    return _m(M)


def _fredkin():
    M = _ident(8)
    M[5][5] = M[6][6] = 0
    M[5][6] = M[6][5] = 1
    return _m(M)


# every gate kind the simulator special-cases, with exactly representable matrices:
#  GLOBALPHASE (no qubits, scalar e^{i phi}; phi = 0, pi/2, pi, -pi/2, 2 pi and atan2(4,3)),
#  user gates given as operator (R345), as 0-argument function (UF0, two qubits) and as 1-argument function (UF1_a),
#  multi-controlled gates (TOFFOLI, FREDKIN, ControlledGate(X) on two controls with every control value),
#  parameterised library gates at exact angles (RX/RY/RZ(pi), CPHASE(pi/2)).
PI = math.pi
GATES.update({
    "GP_0": (_m([[1]]), 1, 0, 0),
    "GP_h": (_m([[I_]]), 1, 0, 0),
    "GP_p": (_m([[-1]]), 1, 0, 0),
    "GP_mh": (_m([[MI_]]), 1, 0, 0),
    "GP_2p": (_m([[1]]), 1, 0, 0),
    "GP_345": (_m([[(3, 4)]]), 25, 0, 0),
    "UF0": (_m([[3, 0, 0, -4], [0, 3, -4, 0], [4, 0, 0, 3], [0, 4, 3, 0]]), 25, 0, 2),   # (R345 x 1) . CNOT
    "UF1_1": (_m([[1, 0], [0, I_]]), 1, 0, 1),
    "UF1_2": (_m([[1, 0], [0, -1]]), 1, 0, 1),
    "UF1_3": (_m([[1, 0], [0, MI_]]), 1, 0, 1),
    "FREDKIN": (_fredkin(), 1, 1, 2),
    "MCX_0": (_mcx(0), 1, 2, 1),
    "MCX_1": (_mcx(1), 1, 2, 1),
    "MCX_2": (_mcx(2), 1, 2, 1),
    "RX_pi": (_m([[0, MI_], [MI_, 0]]), 1, 0, 1),
    "RY_pi": (_m([[0, -1], [1, 0]]), 1, 0, 1),
    "RZ_pi": (_m([[MI_, 0], [0, I_]]), 1, 0, 1),
    "CPHASE_h": (_m([[1, 0, 0, 0], [0, 1, 0, 0], [0, 0, 1, 0], [0, 0, 0, I_]]), 1, 1, 1),
})
# how the harness hands the gate to QubitCircuit.add_gate: name -> (library/user name, arg_value)
PYGATE = {
    "GP_0": ("GLOBALPHASE", 0.0), "GP_h": ("GLOBALPHASE", PI / 2), "GP_p": ("GLOBALPHASE", PI),
    "GP_mh": ("GLOBALPHASE", -PI / 2), "GP_2p": ("GLOBALPHASE", 2 * PI), "GP_345": ("GLOBALPHASE", math.atan2(4, 3)),
    "UF0": ("UF0", None), "UF1_1": ("UF1", 1), "UF1_2": ("UF1", 2), "UF1_3": ("UF1", 3),
    "RX_pi": ("RX", PI), "RY_pi": ("RY", PI), "RZ_pi": ("RZ", PI), "CPHASE_h": ("CPHASE", PI / 2),
}
SPECIAL = ["GP_h", "GP_p", "GP_mh", "GP_345", "GP_345", "GP_0", "GP_2p", "UF0", "UF1_1", "UF1_2", "UF1_3", "FREDKIN",
           "MCX_0", "MCX_1", "MCX_2", "RX_pi", "RY_pi", "RZ_pi", "CPHASE_h"]


def documented_matrix(name):
    """what the documentation says the gate is (independent of the exact table; used to validate the table)"""
    if name.startswith("GP_"):
        return np.array([[np.exp(1j * PYGATE[name][1])]])
    if name.startswith("UF1_"):
        return np.diag([1, 1j ** PYGATE[name][1]])
    if name == "UF0":
        cnot = np.array([[1, 0, 0, 0], [0, 1, 0, 0], [0, 0, 0, 1], [0, 0, 1, 0]])
        return np.kron(np.array([[3, -4], [4, 3]]) / 5, np.eye(2)) @ cnot
    if name in ("RX_pi", "RY_pi", "RZ_pi"):
        P = {"RX_pi": np.array([[0, 1], [1, 0]]), "RY_pi": np.array([[0, -1j], [1j, 0]]), "RZ_pi": np.diag([1, -1])}[name]
        return np.cos(PI / 2) * np.eye(2) - 1j * np.sin(PI / 2) * P
    if name == "CPHASE_h":
        return np.diag([1, 1, 1, np.exp(1j * PI / 2)])
    return None


def gate_matrix(name):
    M, d, _, _ = GATES[name]
    return np.array([[complex(a, b) for (a, b) in row] for row in M]) / math.sqrt(d)


for _g in GATES:
    _doc = documented_matrix(_g)
    assert _doc is None or np.allclose(gate_matrix(_g), _doc, atol=1e-12), _g
    assert np.allclose(gate_matrix(_g).conj().T @ gate_matrix(_g), np.eye(len(GATES[_g][0])), atol=1e-12), _g

# --------------------------------------------------------------------------------------------------
# inputs
#   {"n":2, "ncb":2, "ops":[{"g":"X","q":[1],"cc":[0],"cv":1} | {"m":0,"store":1}], "ket":[[re,im],...],
#    "cbits":[..]|None, "mode":"stats"|"run"|"rand"|"dm", "mres":[..]|None, "orc":[..], "dm_from_ket":bool}
# --------------------------------------------------------------------------------------------------
def n_meas(inp):
    return sum(1 for o in inp["ops"] if "m" in o)


def eff_cbits(inp):
    cb = inp.get("cbits")
    if cb and len(cb) == inp["ncb"]:
        return list(cb)
    return [0] * inp["ncb"]


def rand_ket(rng, n, style):
    dim = 2 ** n
    if style == "basis":
        v = [[0, 0] for _ in range(dim)]
        v[rng.randrange(dim)] = [1, 0]
        return v
    while True:
        v = [[rng.randint(-2, 2), rng.choice([0, 0, 1, -1, 2])] if rng.random() < 0.7 else [0, 0] for _ in range(dim)]
        if any(a or b for a, b in v):
            return v


def rand_op(rng, n, ncb, pm):
    if rng.random() < pm:
        store = rng.randrange(ncb) if (ncb and rng.random() < 0.85) else None
        return {"m": rng.randrange(n), "store": store}
    for _ in range(30):
        if rng.random() < 0.3:
            name = rng.choice(SPECIAL)
        else:
            name = rng.choice(["X", "X", "SNOT", "SNOT", "R345", "R345", "Z", "Y", "S", "SQRTNOT", "CNOT", "CNOT", "CZ", "SWAP", "TOFFOLI"])
        _, _, nc, nt = GATES[name]
        if nc + nt <= n:
            break
    else:
        name = "X"
        nc, nt = 0, 1
    qs = rng.sample(range(n), nc + nt)
    op = {"g": name, "q": qs, "cc": None, "cv": None}
    if ncb and rng.random() < 0.5:
        k = rng.choice([1, 1, 2, 2, 3][: max(1, min(5, 2 * ncb - 1))])
        k = min(k, ncb)
        cc = rng.sample(range(ncb), k)
        op["cc"] = cc
        op["cv"] = rng.randrange(2 ** k) if rng.random() < 0.85 else None
    elif rng.random() < 0.04:
        op["cc"] = []
        op["cv"] = rng.choice([None, 0])
    return op


def gen_input(rng, mode=None, nmax=3, big=False):
    n = rng.choice([1, 2, 2, 3, 3] + ([4] if nmax >= 4 else []))
    ncb = rng.choice([0, 1, 2, 2, 3, 3])
    nops = rng.randint(2, 9 if big else 7)
    pm = rng.choice([0.25, 0.4, 0.5])
    ops = []
    for _ in range(nops):
        o = rand_op(rng, n, ncb, pm)
        if "m" in o and sum(1 for x in ops if "m" in x) >= 4:
            continue
        ops.append(o)
    mode = mode or rng.choice(["stats"] * 5 + ["run"] * 2 + ["rand"] * 2 + ["dm"] * 2)
    r = rng.random()
    if r < 0.4 or ncb == 0 and r < 0.8:
        cb = None
    elif r < 0.88:
        cb = [rng.randint(0, 1) for _ in range(ncb)]
    elif r < 0.94:
        cb = [rng.randint(0, 1) for _ in range(rng.choice([0, ncb + 1, max(0, ncb - 1)]))]
    else:
        cb = [rng.choice([0, 1, 2]) for _ in range(ncb)]
    inp = {"n": n, "ncb": ncb, "ops": ops, "ket": rand_ket(rng, n, rng.choice(["basis", "rand", "rand"])),
           "cbits": cb, "mode": mode, "mres": None, "orc": [], "dm_from_ket": True}
    m = n_meas(inp)
    if mode == "run":
        inp["mres"] = [rng.randint(0, 1) for _ in range(m)]
    elif mode == "rand":
        inp["orc"] = [rng.randint(0, 1) for _ in range(m)]
    elif mode == "dm":
        inp["dm_from_ket"] = rng.random() < 0.5
    return inp


def gen_special(rng, name=None, mode=None, where=None):
    """a special-cased gate kind at a chosen place (before the first / between / after the last measurement),
    optionally under classical control, in every mode"""
    for _ in range(50):
        name = name or rng.choice(SPECIAL)
        _, _, nc, nt = GATES[name]
        inp = gen_input(rng, mode=mode or rng.choice(["stats", "run", "rand", "dm", "dm"]), nmax=3)
        if inp["n"] < nc + nt or inp["n"] < 1:
            inp["n"] = max(nc + nt, 1)
            continue
        ops = [o for o in inp["ops"]]
        ms = [i for i, o in enumerate(ops) if "m" in o]
        if len(ms) < 2:
            ops += [{"m": rng.randrange(inp["n"]), "store": (rng.randrange(inp["ncb"]) if inp["ncb"] else None)} for _ in range(2 - len(ms))]
            ms = [i for i, o in enumerate(ops) if "m" in o]
        where = where or rng.choice(["before", "between", "after"])
        pos = {"before": rng.randint(0, ms[0]), "between": rng.randint(ms[0] + 1, ms[-1]), "after": rng.randint(ms[-1] + 1, len(ops))}[where]
        g = {"g": name, "q": rng.sample(range(inp["n"]), nc + nt), "cc": None, "cv": None}
        if inp["ncb"] and rng.random() < 0.5:
            k = rng.randint(1, inp["ncb"])
            g["cc"] = rng.sample(range(inp["ncb"]), k)
            g["cv"] = rng.randrange(2 ** k)
        ops.insert(pos, g)
        inp["ops"] = ops
        m = n_meas(inp)
        if m > 4:
            continue
        if inp["mode"] == "run":
            inp["mres"] = [rng.randint(0, 1) for _ in range(m)]
        elif inp["mode"] == "rand":
            inp["orc"] = [rng.randint(0, 1) for _ in range(m)]
        if rng.random() < 0.5:
            inp["ket"] = rand_ket(rng, inp["n"], "rand")
        return inp
    raise RuntimeError("gen_special")


def gen_malformed(rng):
    """inputs the code must reject (or silently default): out-of-range classical indices, missing register,
    too short measure_results"""
    inp = gen_input(rng, mode=rng.choice(["stats", "run", "dm"]))
    kind = rng.choice(["store_oob", "cc_oob", "no_register", "short_mres", "cv_big"])
    n, ncb = inp["n"], inp["ncb"]
    if kind == "store_oob":
        inp["ops"].insert(rng.randint(0, len(inp["ops"])), {"m": rng.randrange(n), "store": ncb + rng.randint(0, 1)})
    elif kind == "cc_oob":
        inp["ops"].insert(rng.randint(0, len(inp["ops"])), {"g": "X", "q": [rng.randrange(n)], "cc": [ncb], "cv": 1})
    elif kind == "no_register":
        inp["ncb"] = 0
        inp["cbits"] = None
        inp["ops"] = [o for o in inp["ops"] if "m" in o or not o.get("cc")]
        for o in inp["ops"]:
            if "m" in o:
                o["store"] = None
        inp["ops"].append({"m": 0, "store": 0})
    elif kind == "short_mres":
        inp["mode"] = "run"
        inp["ops"].append({"m": 0, "store": None})
        inp["ops"].append({"m": 0, "store": None})
        inp["mres"] = [1] * (n_meas(inp) - 1 - rng.randint(0, 1))
    elif kind == "cv_big":
        if ncb == 0:
            inp["ncb"] = 1
            inp["cbits"] = None
        inp["ops"].insert(0, {"g": "X", "q": [0], "cc": [0], "cv": rng.choice([2, 3, 5])})
    while n_meas(inp) > 5:
        for i, o in enumerate(inp["ops"]):
            if "m" in o:
                del inp["ops"][i]
                break
    if inp["mode"] == "run" and kind != "short_mres":
        inp["mres"] = [rng.randint(0, 1) for _ in range(n_meas(inp))]
    inp["kind"] = kind
    return inp


def key_of(inp):
    return json.dumps({k: inp.get(k) for k in ("n", "ncb", "ops", "ket", "cbits", "mode", "mres", "orc", "dm_from_ket")}, sort_keys=True)


def nontrivial(inp):
    """a measurement AND (a classically controlled gate OR a second measurement)"""
    m = n_meas(inp)
    return m >= 1 and (m >= 2 or any(o.get("cc") for o in inp["ops"] if "g" in o))


def reads_written_bit(inp):
    """a classically controlled gate reads a bit that an EARLIER measurement stores into"""
    written = set()
    for o in inp["ops"]:
        if "m" in o:
            if o.get("store") is not None:
                written.add(o["store"])
        elif o.get("cc"):
            if written & set(o["cc"]):
                return True
    return False


# --------------------------------------------------------------------------------------------------
# the real implementation
# --------------------------------------------------------------------------------------------------
def add_op(qc, o):
    """append one operation of an input to a (possibly already simulated) QubitCircuit"""
    if "m" in o:
        qc.add_measurement("M", targets=[o["m"]], classical_store=o["store"])
        return
    _, _, nc, nt = GATES[o["g"]]
    kw = {}
    if nc:
        kw["controls"] = list(o["q"][:nc])
    if nt:
        kw["targets"] = list(o["q"][nc:])
    if o.get("cc") is not None:
        kw["classical_controls"] = list(o["cc"])
        if o.get("cv") is not None:
            kw["classical_control_value"] = o["cv"]
    name = o["g"]
    if name.startswith("MCX_"):
        from qutip_qip.operations.gateclass import ControlledGate, X as XGate
        qc.add_gate(ControlledGate(control_value=int(name[4:]), target_gate=XGate, **kw))
        return
    if name in PYGATE:
        name, arg = PYGATE[name]
        if arg is not None:
            kw["arg_value"] = arg
    qc.add_gate(name, **kw)


def build(inp):
    from qutip import Qobj
    from qutip_qip.circuit import QubitCircuit
    n = inp["n"]
    qc = QubitCircuit(n, num_cbits=inp["ncb"])
    def uf0():
        return Qobj(gate_matrix("UF0"), dims=[[2, 2], [2, 2]])

    def uf1(a):
        return Qobj(np.diag([1, 1j ** a]))

    qc.user_gates = {"R345": Qobj(gate_matrix("R345")), "UF0": uf0, "UF1": uf1}
    for o in inp["ops"]:
        add_op(qc, o)
    v = np.array([complex(a, b) for a, b in inp["ket"]])
    v = v / np.linalg.norm(v)
    ket = Qobj(v.reshape(-1, 1), dims=[[2] * n, [1] * n])
    return qc, ket


def _vec(q):
    return None if q is None else [complex(x) for x in q.full().ravel()]


class FakeChoice:
    def __init__(self, orc):
        self.orc = list(orc)
        self.k = 0

    def __call__(self, a, p=None, **kw):
        w = self.orc[self.k] if self.k < len(self.orc) else 0
        self.k += 1
        if p is not None and p[w] == 0:
            w = 1 - w
        return a[w]


def call_real(inp, qc=None, shared=None):
    """one call on the real code -> dict(rejected=True) or canonical observable output.
    shared = {"sv": CircuitSimulator, "dm": CircuitSimulator}: re-use these simulator OBJECTS (history mode);
    None: fresh objects through the public wrappers"""
    from qutip import ket2dm
    from qutip_qip.circuit import CircuitSimulator
    try:
        qc0, ket = build(inp)
        if qc is None:
            qc = qc0
        cb = None if inp["cbits"] is None else list(inp["cbits"])
        mode = inp["mode"]
        if mode == "stats":
            # (no random choice can occur here unless the code is wrong; keep it deterministic anyway)
            with mock.patch("numpy.random.choice", FakeChoice([])):
                res = qc.run_statistics(ket, cbits=cb) if shared is None else shared["sv"].run_statistics(ket, cbits=cb)
            states = res.get_final_states()
            probs = res.get_probabilities()
            cbs = res.get_cbits() if hasattr(res, "cbits") else [None] * len(states)
            labels = []
            for i, c in enumerate(cbs):
                if c is None:
                    labels.append(None)
                elif c is cb:
                    labels.append("caller")
                else:
                    labels.append(next(j for j in range(i + 1) if cbs[j] is c))
            return {"entries": [[_vec(s), float(p), None if c is None else [int(x) for x in c], l]
                                for s, p, c, l in zip(states, probs, cbs, labels)],
                    "caller": cb}
        if mode in ("run", "rand"):
            sim = CircuitSimulator(qc) if shared is None else shared["sv"]
            if mode == "run":
                # (an empty measure_results tuple is falsy: the code then draws outcomes at random)
                with mock.patch("numpy.random.choice", FakeChoice(inp["orc"])):
                    res = sim.run(ket, cbits=cb, measure_results=tuple(inp["mres"]))
                    used = None
                    # the public wrapper must return the same state
                    st2 = qc.run(ket, cbits=None if inp["cbits"] is None else list(inp["cbits"]),
                                 measure_results=tuple(inp["mres"]))
            else:
                fake = FakeChoice(inp["orc"])
                with mock.patch("numpy.random.choice", fake):
                    res = sim.run(ket, cbits=cb)
                used = fake.k
                st2 = None
            c = res.get_cbits(0) if hasattr(res, "cbits") else None
            out = {"entries": [[_vec(res.get_final_states(0)), float(res.get_probabilities(0)),
                                None if c is None else [int(x) for x in c],
                                None if c is None else ("caller" if c is cb else 0)]],
                   "caller": cb, "rand_calls": used}
            if mode == "run":
                out["wrapper_state"] = _vec(st2)
            return out
        if mode == "dm":
            sim = CircuitSimulator(qc, mode="density_matrix_simulator") if shared is None else shared["dm"]
            res = sim.run(ket if inp["dm_from_ket"] else ket2dm(ket), cbits=cb)
            c = res.get_cbits(0) if hasattr(res, "cbits") else None
            return {"rho": [complex(x) for x in res.get_final_states(0).full().ravel()],
                    "prob": float(res.get_probabilities(0)),
                    "cbits": None if c is None else [int(x) for x in c],
                    "label": None if c is None else ("caller" if c is cb else 0), "caller": cb}
        raise ValueError(mode)
    except Exception as e:  # any exception = rejected
        return {"rejected": True, "exc": type(e).__name__ + ": " + str(e)[:100]}


def run_real(inp):
    return call_real(inp)


# --- histories: several calls on ONE CircuitSimulator object ---------------------------------------
CALL_KEYS = ("ket", "cbits", "mode", "mres", "orc", "dm_from_ket")
IN_KEYS = ("n", "ncb", "ops") + CALL_KEYS


def sub_inputs(h):
    """the calls of a history as ordinary single-call inputs (the model's answer does not depend on history).
    A call with "upto" is made when the circuit object holds only the first `upto` operations (the circuit is
    EDITED between constructing the simulator and running it / between two runs): its single-call input is the
    circuit as it is at run time"""
    out = []
    for c in h["calls"]:
        ops = h["ops"] if c.get("upto") is None else h["ops"][:c["upto"]]
        x = {"n": h["n"], "ncb": h["ncb"], "ops": ops}
        for k in CALL_KEYS:
            x[k] = c.get(k, {"mres": None, "orc": [], "dm_from_ket": True}.get(k))
        out.append(x)
    return out


class LiveHistory:
    """ONE circuit object and ONE simulator object per mode of operation.  The simulators are constructed when the
    circuit holds h["built"] operations (default: all); before call k the circuit is grown to calls[k]["upto"]
    operations with the public add_gate / add_measurement"""

    def __init__(self, h):
        from qutip_qip.circuit import CircuitSimulator
        self.h = h
        self.have = len(h["ops"]) if h.get("built") is None else h["built"]
        self.qc, _ = build({"n": h["n"], "ncb": h["ncb"], "ops": h["ops"][:self.have], "ket": [[1, 0]] * 2 ** h["n"]})
        self.shared = {"sv": CircuitSimulator(self.qc), "dm": CircuitSimulator(self.qc, mode="density_matrix_simulator")}

    def advance(self, k):
        upto = self.h["calls"][k].get("upto")
        upto = len(self.h["ops"]) if upto is None else upto
        for o in self.h["ops"][self.have:upto]:
            add_op(self.qc, o)
        self.have = max(self.have, upto)


def run_history(h):
    """real outputs of every call, all made on the SAME simulator objects (one per mode of operation)"""
    subs = sub_inputs(h)
    try:
        live = LiveHistory(h)
    except Exception as e:
        return [{"rejected": True, "exc": type(e).__name__} for _ in subs]
    out = []
    for k, x in enumerate(subs):
        try:
            live.advance(k)
        except Exception as e:
            out.append({"rejected": True, "exc": type(e).__name__ + ": " + str(e)[:100]})
            continue
        out.append(call_real(x, qc=live.qc, shared=live.shared))
    return out


def gen_edit_history(rng, nmax=3):
    """a history in which the circuit object is edited (gates / measurements appended) AFTER the simulator objects
    were constructed and between two runs of one simulator; every run is compared with the model / oracle on the
    circuit as it is at run time.  The appended part preferably holds what makes the circuit a feedback circuit
    (its first storing measurement and/or its first classically controlled gate)"""
    for _ in range(60):
        h = gen_history(rng, nmax=nmax)
        ops = h["ops"]
        if h["ncb"] and rng.random() < 0.7:
            # make sure a gate reads a bit stored earlier
            b = rng.randrange(h["ncb"])
            q = rng.randrange(h["n"])
            ops = ops + [{"m": q, "store": b}] if not any("m" in o and o["store"] == b for o in ops) else ops
            ops = ops + [{"g": rng.choice(["X", "SNOT", "R345", "Y"]), "q": [rng.randrange(h["n"])], "cc": [b], "cv": rng.choice([1, 1, 0, None])}]
            if rng.random() < 0.4:
                ops = ops + [rand_op(rng, h["n"], h["ncb"], 0.3)]
        if sum(1 for o in ops if "m" in o) > 4 or len(ops) < 2:
            continue
        h["ops"] = ops
        L = len(ops)
        first_cc = next((i for i, o in enumerate(ops) if "g" in o and o.get("cc")), L)
        first_st = next((i for i, o in enumerate(ops) if "m" in o and o.get("store") is not None), L)
        r = rng.random()
        if r < 0.35:
            built = rng.randint(0, min(first_cc, L - 1))            # simulator made before the first conditioned gate
        elif r < 0.55:
            built = rng.randint(0, min(first_st, L - 1))            # ... before the first storing measurement
        elif r < 0.65:
            built = 0
        else:
            built = rng.randint(0, L - 1)
        h["built"] = built
        ncalls = len(h["calls"])
        style = rng.random()
        if style < 0.45:
            cuts = [L] * ncalls                                     # all edits before the first run
        else:
            cuts = sorted(rng.randint(built, L) for _ in range(ncalls))
            cuts[-1] = L
            if style < 0.7 and ncalls >= 2:
                cuts[0] = built                                     # first run on the circuit the simulator was made for
        for c, u in zip(h["calls"], cuts):
            c["upto"] = u
            if rng.random() < 0.45:
                c["mode"] = "dm"
            m = sum(1 for o in ops[:u] if "m" in o)
            c["mres"] = [rng.randint(0, 1) for _ in range(m)] if c["mode"] == "run" else None
            c["orc"] = [rng.randint(0, 1) for _ in range(m)] if c["mode"] == "rand" else []
        return h
    raise RuntimeError("gen_edit_history")


def gen_history(rng, nmax=3):
    """a circuit (preferably with impossible records) and 2-4 calls in mixed order with their own states/cbits"""
    for _ in range(40):
        base = gen_input(rng, mode="stats", nmax=nmax)
        m = n_meas(base)
        if m == 0:
            continue
        if rng.random() < 0.6:
            # make some records impossible: a basis state and/or a repeated measurement of one qubit
            base["ket"] = rand_ket(rng, base["n"], "basis") if rng.random() < 0.5 else base["ket"]
            q = rng.randrange(base["n"])
            st = lambda: (rng.randrange(base["ncb"]) if base["ncb"] and rng.random() < 0.8 else None)
            extra = [{"m": q, "store": st()}, {"g": "X", "q": [q], "cc": None, "cv": None}, {"m": q, "store": st()}]
            if rng.random() < 0.5:
                del extra[1]
            base["ops"] = (base["ops"] + extra) if rng.random() < 0.5 else (extra + base["ops"])
            while n_meas(base) > 4:
                for i, o in enumerate(base["ops"]):
                    if "m" in o and o not in extra:
                        del base["ops"][i]
                        break
                else:
                    break
        if n_meas(base) > 4:
            continue
        m = n_meas(base)
        calls = []
        ncalls = rng.randint(2, 4)
        modes = [rng.choice(["stats", "run", "rand", "rand", "dm"]) for _ in range(ncalls)]
        if "rand" not in modes[1:]:
            modes[-1] = "rand"
        if modes[0] == "rand" and rng.random() < 0.7:
            modes[0] = rng.choice(["stats", "run"])
        for md in modes:
            c = {"mode": md, "mres": None, "orc": [], "dm_from_ket": rng.random() < 0.5}
            c["ket"] = base["ket"] if rng.random() < 0.6 else rand_ket(rng, base["n"], rng.choice(["basis", "rand"]))
            r = rng.random()
            c["cbits"] = None if (r < 0.4 or base["ncb"] == 0) else [rng.randint(0, 1) for _ in range(base["ncb"])]
            if md == "run":
                c["mres"] = [rng.randint(0, 1) for _ in range(m)]
            elif md == "rand":
                c["orc"] = [rng.randint(0, 1) for _ in range(m)]
            calls.append(c)
        return {"n": base["n"], "ncb": base["ncb"], "ops": base["ops"], "calls": calls}
    raise RuntimeError("gen_history")


def samples_deterministic(top, k, runs=16):
    """re-run the history `runs` times with the REAL random generator for call k (fresh objects each time);
    -> (all outcomes identical, probability of that happening if the call sampled the branches)"""
    subs = sub_inputs(top) if "calls" in top else [top]
    outs = []
    from qutip_qip.circuit import CircuitSimulator
    for t in range(runs):
        np.random.seed(1000 + t)
        try:
            live = LiveHistory(top) if "calls" in top else None
            qc = live.qc if live else build(subs[0])[0]
            shared = live.shared if live else None
            for i, x in enumerate(subs):
                if live and i <= k:
                    live.advance(i)
                if i < k:
                    call_real(x, qc=qc, shared=shared)
                elif i == k:
                    _, ket = build(x)
                    sim = shared["sv"] if shared else CircuitSimulator(qc)
                    res = sim.run(ket, cbits=None if x["cbits"] is None else list(x["cbits"]))
                    outs.append(json.dumps([str(_vec(res.get_final_states(0))), float(res.get_probabilities(0))]))
        except Exception as e:
            outs.append("exc:" + type(e).__name__)
    ps = [b[1] for b in branches(subs[k])]
    return len(set(outs)) == 1, sum(p ** runs for p in ps)


# --------------------------------------------------------------------------------------------------
# the Coq model
# --------------------------------------------------------------------------------------------------
def _cz(a, b):
    return f"(zc ({a}) ({b}))"


def coq_header():
    lines = ["From Coq Require Import List Arith NArith Bool QArith Qcanon ZArith.",
             "From QV Require Import Model.Sim Model.SimInst.", "Import ListNotations.", "Open Scope nat_scope."]
    for name, (M, d, nc, nt) in GATES.items():
        rows = clist([clist([_cz(a, b) for (a, b) in r]) for r in M])
        lines.append(f"Definition g_{name} (ts : list nat) : igate := mkIgate (qc {d} 1) {rows} ts.")
    return "\n".join(lines) + "\n"


def cops(inp):
    n = inp["n"]
    out = []
    for o in inp["ops"]:
        if "m" in o:
            st = "None" if o["store"] is None else f"(Some {cnat(o['store'])})"
            out.append(f"om {n} {cnat(o['m'])} {st}")
        else:
            if o.get("cc") is None:
                cc = "None"
            else:
                v = o["cv"] if o.get("cv") is not None else 2 ** len(o["cc"]) - 1
                cc = f"(Some ({clist([cnat(x) for x in o['cc']])}, {int(v)}%N))"
            out.append(f"og {n} (g_{o['g']} {clist([cnat(x) for x in o['q']])}) {cc}")
    return clist(out)


def coq_case(inp, alias=False):
    n = inp["n"]
    nsq = sum(a * a + b * b for a, b in inp["ket"])
    ket = f"(qc 1 {nsq}, {clist([_cz(a, b) for a, b in inp['ket']])})"
    cb = "None" if inp["cbits"] is None else f"(Some {clist([cnat(x) for x in inp['cbits']])})"
    args = f"{n} {cbool(alias)} {cops(inp)} {cnat(inp['ncb'])} {ket} {cb}"
    mode = inp["mode"]
    if mode == "stats":
        return f"Eval vm_compute in (case_stats {args})."
    if mode == "run":
        return f"Eval vm_compute in (case_run {args} (Some {clist([cbool(b) for b in inp['mres']])}) {clist([cbool(b) for b in inp['orc']])})."
    if mode == "rand":
        return f"Eval vm_compute in (case_run {args} None {clist([cbool(b) for b in inp['orc']])})."
    return f"Eval vm_compute in (case_dm {args})."


def _opt(x):
    return None if x is None else x[1]


def _q(x):
    return Fraction(x[0], x[1])


def _c(z):
    return complex(float(Fraction(z[0], z[1])), float(Fraction(z[2], z[3])))


def _ketvec(k):
    w, v = k
    s = math.sqrt(float(_q(w)))
    return [_c(z) * s for z in v]


def canon_model(inp, val):
    """parsed Coq value -> same shape as run_real"""
    if val is None:
        return {"rejected": True}
    val = val[1]
    has_arg = inp["cbits"] is not None

    def label(ref, refs):
        if ref is None:
            return None
        if has_arg and ref == 0:
            return "caller"
        return refs.index(ref)

    if inp["mode"] == "stats":
        es, caller = val
        refs = [_opt(e[2]) for e in es]
        out = []
        for e in es:
            st, p, ref, cbv = e
            out.append([None if st is None else _ketvec(st[1]), float(_q(p)), _opt(cbv), label(_opt(ref), refs)])
        return {"entries": out, "caller": _opt(caller) if has_arg else None}
    if inp["mode"] in ("run", "rand"):
        st, p, ref, cbv, caller = val
        r = _opt(ref)
        return {"entries": [[None if st is None else _ketvec(st[1]), float(_q(p)), _opt(cbv),
                             None if r is None else ("caller" if has_arg and r == 0 else 0)]],
                "caller": _opt(caller) if has_arg else None}
    rho, p, ref, cbv, caller = val
    r = _opt(ref)
    return {"rho": [_c(z) for z in rho], "prob": float(_q(p)), "cbits": _opt(cbv),
            "label": None if r is None else ("caller" if has_arg and r == 0 else 0),
            "caller": _opt(caller) if has_arg else None}


def run_model_many(tag, inputs, alias=False, chunk=60):
    files = []
    hdr = coq_header()
    for i in range(0, len(inputs), chunk):
        body = hdr + "\n".join(coq_case(x, alias) for x in inputs[i:i + chunk]) + "\n"
        files.append((f"c02_{tag}_{i // chunk}", body))
    outs = coq_eval_many(files)
    vals = []
    for name, _ in files:
        vals += parse_evals(outs[name])
    if len(vals) != len(inputs):
        raise Broken("coq-eval:c02", f"{len(vals)} values for {len(inputs)} cases")
    return [canon_model(x, v) for x, v in zip(inputs, vals)]


def _close(a, b, tol=1e-9):
    if a is None or b is None:
        return a is None and b is None
    return len(a) == len(b) and all(abs(x - y) <= tol for x, y in zip(a, b))


def same_output(inp, real, model):
    """None if equal else a description of the first difference"""
    if real.get("rejected") or model.get("rejected"):
        return None if bool(real.get("rejected")) == bool(model.get("rejected")) else "rejected vs accepted"
    if inp["mode"] == "dm":
        if not _close(real["rho"], model["rho"]):
            return "density matrix"
        if abs(real["prob"] - model["prob"]) > 1e-9:
            return "probability"
        if real["cbits"] != model["cbits"]:
            return "cbits"
        if real["label"] != model["label"]:
            return "alias graph"
        if real["caller"] != model["caller"]:
            return "caller's list"
        return None
    if len(real["entries"]) != len(model["entries"]):
        return "number of results"
    for er, em in zip(real["entries"], model["entries"]):
        if not _close(er[0], em[0]):
            return "state"
        if abs(er[1] - em[1]) > 1e-9:
            return "probability"
        if er[2] != em[2]:
            return "cbits"
        if er[3] != em[3]:
            return "alias graph"
    if real["caller"] != model["caller"]:
        return "caller's list"
    return None


# --------------------------------------------------------------------------------------------------
# independent oracle, written from the property text (numpy only)
# --------------------------------------------------------------------------------------------------
def embed(U, qubits, n):
    """matrix of U acting on the listed qubits (first listed = most significant index of U) of n qubits"""
    k = len(qubits)
    dim = 2 ** n
    out = np.zeros((dim, dim), dtype=complex)
    for col in range(dim):
        bits = [(col >> (n - 1 - j)) & 1 for j in range(n)]
        sub = 0
        for q in qubits:
            sub = 2 * sub + bits[q]
        for row_sub in range(2 ** k):
            a = U[row_sub, sub]
            if a == 0:
                continue
            nb = list(bits)
            for j, q in enumerate(qubits):
                nb[q] = (row_sub >> (k - 1 - j)) & 1
            row = 0
            for b in nb:
                row = 2 * row + b
            out[row, col] += a
    return out


def cond_holds(cc, cv, cb):
    """bits equal the condition: the listed bits, first listed most significant, spell the control value"""
    if cv is None:
        cv = 2 ** len(cc) - 1
    val = 0
    for i in cc:
        if cb[i] not in (0, 1):
            return False
        val = 2 * val + cb[i]
    return val == cv


def branches(inp):
    """[(record, P(r), normalised state or None, cbits)] for all 2^m records, product order"""
    n = inp["n"]
    v0 = np.array([complex(a, b) for a, b in inp["ket"]])
    v0 = v0 / np.linalg.norm(v0)
    out = []
    for r in itertools.product([0, 1], repeat=n_meas(inp)):
        u = v0.copy()
        cb = eff_cbits(inp)
        k = 0
        for o in inp["ops"]:
            if "m" in o:
                b = r[k]
                k += 1
                mask = np.array([((i >> (n - 1 - o["m"])) & 1) == b for i in range(2 ** n)])
                u = np.where(mask, u, 0)
                if o["store"] is not None:
                    cb[o["store"]] = b
            else:
                if o.get("cc") is None or cond_holds(o["cc"], o.get("cv"), cb):
                    nc = GATES[o["g"]][2]
                    u = embed(gate_matrix(o["g"]), list(o["q"]), n) @ u
        P = float(np.vdot(u, u).real)
        out.append((list(r), P, (u / math.sqrt(P)) if P > 1e-12 else None, cb))
    return out


def oracle(inp, real):
    """-> None or (what, observed, expected)"""
    if real.get("rejected"):
        return ("a well-formed circuit is rejected", real.get("exc"), "a result")
    br = branches(inp)
    live = [b for b in br if b[1] > 1e-12]
    ncb = inp["ncb"]
    given = inp["cbits"]
    mode = inp["mode"]

    def cb_exp(c):
        return None if ncb == 0 else [int(x) for x in c]

    if mode != "dm" and given is not None and real["caller"] != given:
        return ("the caller's classical-bit list was modified", real["caller"], given)
    if mode == "stats":
        es = real["entries"]
        if abs(sum(e[1] for e in es) - 1) > 1e-9:
            return ("branch probabilities do not sum to one", [e[1] for e in es], [b[1] for b in live])
        if len(es) != len(live):
            return ("number of branches", len(es), len(live))
        for e, b in zip(es, live):
            if abs(e[1] - b[1]) > 1e-9:
                return ("branch probability is not the Born probability of its record", e[1], [b[0], b[1]])
            if not _close(e[0], list(b[2]), 1e-8):
                return ("branch state is not the normalised post-measurement state", str(e[0]), [b[0], str(list(b[2]))])
            if e[2] != cb_exp(b[3]):
                return ("branch classical bits are not the bits its record produced", [x[2] for x in es], [cb_exp(x[3]) for x in live])
        return None
    if mode == "run":
        e = real["entries"][0]
        b = br[int("".join(map(str, inp["mres"])) or "0", 2)] if inp["mres"] else br[0]
        if b[1] <= 1e-12:
            if e[0] is not None or e[1] != 0:
                return ("prescribed record of probability zero not reported as such", [str(e[0]), e[1]], [None, 0.0])
            return None
        if abs(e[1] - b[1]) > 1e-9 or not _close(e[0], list(b[2]), 1e-8) or e[2] != cb_exp(b[3]):
            return ("run with prescribed outcomes differs from the branch", [str(e[0]), e[1], e[2]], [str(list(b[2])), b[1], cb_exp(b[3])])
        if not _close(real.get("wrapper_state"), e[0]):
            return ("QubitCircuit.run differs from CircuitSimulator.run", str(real.get("wrapper_state")), str(e[0]))
        return None
    if mode == "rand":
        e = real["entries"][0]
        for b in live:
            if _close(e[0], list(b[2]), 1e-8) and e[2] == cb_exp(b[3]) and abs(e[1] - b[1]) <= 1e-9:
                return None
        return ("unconstrained run is none of the branches", [str(e[0]), e[1], e[2]], [[b[0], b[1], cb_exp(b[3])] for b in live])
    # dm
    dim = 2 ** inp["n"]
    rho = np.zeros((dim, dim), dtype=complex)
    for b in live:
        rho += b[1] * np.outer(b[2], np.conj(b[2]))
    if not _close(real["rho"], list(rho.ravel()), 1e-8):
        return ("density-matrix evolution is not the probability-weighted mixture of the branches",
                str(np.round(np.array(real["rho"]).reshape(dim, dim), 6).tolist()), str(np.round(rho, 6).tolist()))
    return None


def well_formed(inp):
    ncb = inp["ncb"]
    for o in inp["ops"]:
        if "m" in o:
            if o["store"] is not None and not (0 <= o["store"] < ncb):
                return False
        elif o.get("cc") is not None:
            if any(not (0 <= i < ncb) for i in o["cc"]):
                return False
            if o.get("cv") is not None and not (0 <= o["cv"] < 2 ** len(o["cc"])):
                return False
    if inp["mode"] == "run" and len(inp["mres"] or []) < n_meas(inp):
        return False
    return True


# --------------------------------------------------------------------------------------------------
# driver interface
# --------------------------------------------------------------------------------------------------
def load_corpus():
    d = os.path.join(VERIF, "corpus", ID)
    out = []
    if os.path.isdir(d):
        for f in sorted(os.listdir(d)):
            if f.endswith(".json"):
                rec = json.load(open(os.path.join(d, f)))
                out.append(rec.get("input", rec))
    return out


def exhaustive_inputs():
    """all 3-op circuits over a small alphabet on 2 qubits / 2 classical bits, all initial registers"""
    alpha = [{"g": "SNOT", "q": [0], "cc": None, "cv": None},
             {"g": "X", "q": [1], "cc": [0], "cv": 1},
             {"g": "X", "q": [0], "cc": [1, 0], "cv": 1},
             {"g": "CNOT", "q": [0, 1], "cc": [0, 1], "cv": 2},
             {"g": "R345", "q": [1], "cc": [1], "cv": 0},
             {"m": 0, "store": 0}, {"m": 1, "store": 0}, {"m": 0, "store": 1}, {"m": 1, "store": None}]
    out = []
    for ops in itertools.product(alpha, repeat=3):
        if not any("m" in o for o in ops):
            continue
        for cb in (None, [0, 1], [1, 0], [1, 1]):
            for mode in ("stats", "dm"):
                out.append({"n": 2, "ncb": 2, "ops": [dict(o) for o in ops], "ket": [[1, 0], [0, 0], [0, 1], [0, 0]] if cb else [[2, 0], [1, 1], [0, 0], [-1, 0]],
                            "cbits": cb, "mode": mode, "mres": None, "orc": [], "dm_from_ket": True})
    return out


def _clean(x):
    if "calls" in x:
        out = {"n": x["n"], "ncb": x["ncb"], "ops": x["ops"],
               "calls": [dict({k: c.get(k, {"mres": None, "orc": [], "dm_from_ket": True}.get(k)) for k in CALL_KEYS},
                              **({"upto": c["upto"]} if c.get("upto") is not None else {})) for c in x["calls"]]}
        if x.get("built") is not None:
            out["built"] = x["built"]
        return out
    return {k: x[k] for k in IN_KEYS}


def check_call(top, k, inp, real, model, notes=None):
    """compare one call with the model and with the property oracle.
    -> list of ("dis"|"oracle", failure-input, observed, expected, what)"""
    out = []
    fin = _clean(top)
    if "calls" in top:
        fin["call"] = k
    hist = " (call %d of a history on one simulator object)" % k if "calls" in top else ""
    if hist and top.get("built") is not None:
        hist = " (call %d of a history on one simulator object constructed when the circuit held %d of its operations; %d at this call)" % (
            k, top["built"], len(inp["ops"]))
    diff = same_output(inp, real, model)
    unconsumed = inp["mode"] == "rand" and not real.get("rejected") and real.get("rand_calls") != n_meas(inp)
    if diff and unconsumed:
        # the code did not ask numpy.random.choice once per measurement: either it draws its randomness
        # elsewhere (harmless) or it does not sample at all -- decide by looking at real samples
        same, pr = samples_deterministic(top, k)
        if same and pr < 1e-3:
            out.append(("oracle", fin, "16 unconstrained runs all returned the same result; np.random.choice called %s times for %d measurements"
                        % (real.get("rand_calls"), n_meas(inp)), "samples from the branch distribution %s" % [round(b[1], 4) for b in branches(inp)],
                        "unconstrained run does not sample the branches" + hist))
        elif notes is not None:
            notes.append("np.random.choice patch not consumed as expected; random-mode tie skipped for one case")
        diff = None
    if diff:
        out.append(("dis", fin, _show(real), _show(model), "Sim model vs circuitsimulator: " + diff + hist))
    if well_formed(inp):
        bad = oracle(inp, real)
        if bad:
            out.append(("oracle", fin, bad[1], bad[2], bad[0] + hist))
    return out


def correspond(ctx):
    corr = Corr(rule="nontrivial = at least one measurement and (a second measurement or a classically controlled gate); "
                     "a history counts once per call")
    rng = ctx.rng
    tops = load_corpus()
    ncorpus = len(tops)
    for _ in range(ctx.n(420, 4000)):
        tops.append(gen_input(rng, nmax=4 if (ctx.thorough or rng.random() < 0.15) else 3, big=ctx.thorough))
    tops += [gen_malformed(rng) for _ in range(ctx.n(60, 400))]
    # every special-cased gate kind x every mode x every place relative to the measurements
    for name in sorted(set(SPECIAL)):
        for md in ("stats", "run", "rand", "dm"):
            for where in (("before", "between", "after") if (ctx.thorough or name.startswith("GP_")) else (rng.choice(["before", "between", "after"]),)):
                tops.append(gen_special(rng, name, md, where))
    tops += [gen_history(rng, nmax=4 if ctx.thorough else 3) for _ in range(ctx.n(140, 1200))]
    # the circuit object is edited after the simulator objects were made / between two runs of one simulator
    tops += [gen_edit_history(rng, nmax=4 if ctx.thorough else 3) for _ in range(ctx.n(90, 800))]
    if ctx.thorough:
        ex = exhaustive_inputs()
        rng.shuffle(ex)
        tops += ex[:3000]
    subs, owner = [], []
    reals = []
    for t, x in enumerate(tops):
        if "calls" in x:
            ss = sub_inputs(x)
            rr = run_history(x)
        else:
            x.setdefault("orc", [])
            x.setdefault("mres", None)
            x.setdefault("dm_from_ket", True)
            ss = [x]
            rr = [run_real(x)]
        for k, (a, b) in enumerate(zip(ss, rr)):
            subs.append(a)
            reals.append(b)
            owner.append((t, k))
    models = run_model_many(ctx.tier[0], subs, alias=os.environ.get("VERIF_C02_ALIAS") == "1")
    for (t, k), inp, real, model in zip(owner, subs, reals, models):
        top = tops[t]
        corr.tally("mode:" + inp["mode"])
        corr.tally("edited-circuit-call" if top.get("built") is not None else "history-call" if "calls" in top else
                   "corpus" if t < ncorpus else ("malformed:" + top["kind"] if "kind" in top else "valid"))
        corr.tally("rejected" if real.get("rejected") else "accepted")
        for kind, fin, obs, exp, what in check_call(top, k, inp, real, model, ctx.notes):
            if kind == "dis":
                corr.disagree(fin, obs, exp, what)
            else:
                corr.oracle_fail(fin, obs, exp, what)
        corr.count(key_of(inp) + ("#%d" % k if "calls" in top else ""),
                   nontrivial=nontrivial(inp) and not real.get("rejected"), sample=_clean(top))
        if "calls" in top and k > 0 and inp["mode"] == "rand" and any(c["mode"] in ("stats", "run") for c in top["calls"][:k]):
            corr.tally("history:unconstrained-after-prescribed")
        if inp["mode"] == "dm" and reads_written_bit(inp):
            corr.tally("dm:reads-written-bit")
        if top.get("built") is not None and len(inp["ops"]) > top["built"]:
            corr.tally("edited:run-after-edit" + ("/dm" if inp["mode"] == "dm" else "/sv"))
            if inp["mode"] == "dm" and reads_written_bit(inp) and not reads_written_bit(dict(inp, ops=top["ops"][:top["built"]])):
                corr.tally("edited:dm-feedback-added-after-construction")
        if any(o.get("cc") for o in inp["ops"] if "g" in o):
            corr.tally("has-classical-control")
        for kind in sorted({("GLOBALPHASE" if o["g"].startswith("GP_") else "user-gate" if o["g"] in ("R345", "UF0") or o["g"].startswith("UF1") else
                             "multi-controlled" if GATES[o["g"]][2] >= 2 or o["g"] == "FREDKIN" else "parameterised" if o["g"] in PYGATE else None)
                            for o in inp["ops"] if "g" in o} - {None}):
            corr.tally("gate:" + kind + ("/dm" if inp["mode"] == "dm" else ""))
        if len({o["m"] for o in inp["ops"] if "m" in o}) < n_meas(inp):
            corr.tally("repeated-measurement")
        st = [o["store"] for o in inp["ops"] if "m" in o and o["store"] is not None]
        if len(set(st)) < len(st):
            corr.tally("overwritten-bit")
        if well_formed(inp) and n_meas(inp) and any(b[1] <= 1e-12 for b in branches(inp)):
            corr.tally("has-impossible-record")
    return corr


def _show(out):
    return json.loads(json.dumps(out, default=str))


def _failing_sub(inp):
    """the single-call input a failure is about"""
    if "calls" in inp:
        return sub_inputs(inp)[inp.get("call", len(inp["calls"]) - 1)]
    return inp


def classify(failure):
    inp = failure.get("input") or {}
    try:
        sub = _failing_sub(inp)
    except Exception:
        return None
    if sub.get("mode") == "dm" and reads_written_bit(sub) and "mixture" in (failure.get("what") or ""):
        return "dm-classical-control"
    return None


def _oracle_top(top):
    """property oracle on a single-call input or on every call of a history -> list of failures"""
    out = []
    if "calls" in top:
        subs, reals = sub_inputs(top), run_history(top)
    else:
        top.setdefault("orc", [])
        top.setdefault("mres", None)
        top.setdefault("dm_from_ket", True)
        subs, reals = [top], [run_real(top)]
    for k, (inp, real) in enumerate(zip(subs, reals)):
        if not well_formed(inp):
            continue
        fin = _clean(top)
        if "calls" in top:
            fin["call"] = k
        bad = oracle(inp, real)
        if bad:
            out.append(dict(input=fin, observed=bad[1], expected=bad[2], what=bad[0]))
        elif inp["mode"] == "rand" and not real.get("rejected") and real.get("rand_calls") != n_meas(inp):
            same, pr = samples_deterministic(top, k)
            if same and pr < 1e-3:
                out.append(dict(input=fin, observed="16 unconstrained runs all returned the same result",
                                expected="samples from the branch distribution", what="unconstrained run does not sample the branches"))
    return out


def replay(ctx, rec):
    top = json.loads(json.dumps(rec["input"]))
    want = top.pop("call", None) if "calls" in top else None
    fails = _oracle_top(top)
    if want is not None:
        return any(f["input"].get("call") == want for f in fails) or bool(fails)
    return bool(fails)


def search(ctx, broken):
    """hunt for a failing input on the real code with the property oracle"""
    out = []
    cands = load_corpus()
    for b in broken:
        if isinstance(b[1], dict) and "input" in b[1]:
            c = json.loads(json.dumps(b[1]["input"]))
            c.pop("call", None)
            cands.append(c)
    cands += exhaustive_inputs()[:600]
    for _ in range(400):
        cands.append(gen_input(ctx.rng))
    for _ in range(200):
        cands.append(gen_history(ctx.rng))
    for _ in range(200):
        cands.append(gen_edit_history(ctx.rng))
    for top in cands:
        for f in _oracle_top(top):
            if classify(f) is None:
                out.append(f)
                break
        if len(out) >= 3:
            break
    return out
