"""C16 -- queries, transformations and simulations are pure and repeatable.

Real side: histories (<= 8 calls) of public operations applied to SHARED circuit / gate / cbits-list /
simulator / processor / compiler objects.  Around every call: deep structural snapshots of every caller
object, id()-sets of the mutable objects reachable from arguments and results (alias classes), an immediate
repeat of the same call, and a replay of the call on freshly constructed service objects.
Model side: Model/Heap.v executes the same history on an object-granularity heap under the FLAGS extracted
from the current sources by tools/translate/purity_tr.py (Gen/Purity.v) and predicts, per call, which caller
objects may be written, which the result aliases, whether results alias earlier results and whether the call is
guaranteed to behave as on fresh objects.
"""
import copy
import io
import contextlib
import json
import os
import warnings

import numpy as np

from common import Corr, Broken, coq_eval_many, parse_evals, cnat, cbool, clist, REPO, SRC, VERIF, COQ, write_if_changed

warnings.filterwarnings("ignore")

ID = "C16"
TARGETS = ["Props/C16.vo"]

# ------------------------------------------------------------------------------------------------------
# structural snapshots, alias sets, canonical results
# ------------------------------------------------------------------------------------------------------
_PRIM = (int, float, complex, str, bool, type(None), bytes)


def _r(x):
    """round floats so that snapshots compare exactly up to 1e-9"""
    if isinstance(x, (bool, np.bool_)):
        return bool(x)
    if isinstance(x, (int, np.integer)):
        return int(x)
    if isinstance(x, (float, np.floating)):
        x = float(x)
        if x != x:
            return "nan"
        return round(x, 9) + 0.0
    if isinstance(x, (complex, np.complexfloating)):
        return [round(float(x.real), 9) + 0.0, round(float(x.imag), 9) + 0.0]
    return x


def _arr(a):
    a = np.asarray(a)
    if a.dtype == object:
        return [dump(x) for x in a.tolist()]
    if np.iscomplexobj(a):
        return ["c", list(a.shape), np.round(a.real, 9).ravel().tolist(), np.round(a.imag, 9).ravel().tolist()]
    return ["a", list(a.shape), (np.round(a.astype(float), 9) + 0.0).ravel().tolist()]


SAMPLE_FRACS = [0.013, 0.061, 0.11, 0.19, 0.27, 0.33, 0.41, 0.47, 0.52, 0.59, 0.66, 0.71, 0.78, 0.83, 0.89, 0.94, 0.987]


def sample_fn(tlist, coeff, spline_kind, T):
    """An independent evaluation of a pulse coefficient as a function of time at fixed fractions of T."""
    if coeff is None:
        return "none"
    if isinstance(coeff, (bool, np.bool_)):
        return ["const", bool(coeff)]
    if tlist is None:
        return ["no-tlist", _arr(coeff)]
    tl = np.asarray(tlist, dtype=float)
    co = np.asarray(coeff, dtype=float)
    if tl.ndim == 0:
        tl = np.array([0.0, float(tl)])
    out = []
    if spline_kind == "cubic" and len(co) == len(tl) and len(tl) >= 2:
        from scipy.interpolate import CubicSpline
        sp = CubicSpline(tl, co)
    else:
        sp = None
    for f in SAMPLE_FRACS:
        t = f * T
        if t < tl[0] or t > tl[-1]:
            out.append(0.0)
        elif sp is not None:
            out.append(round(float(sp(t)), 7) + 0.0)
        else:
            k = int(np.searchsorted(tl, t, side="right")) - 1
            out.append(round(float(co[k]), 9) + 0.0 if 0 <= k < len(co) else 0.0)
    return out


def _evo_el(el, spline, T):
    q = getattr(el, "qobj", None)
    return [dump(q), dump(getattr(el, "targets", None)), sample_fn(getattr(el, "tlist", None), getattr(el, "coeff", None), spline, T)]


def pulse_snapshot(p, T):
    """A pulse as a function of time (ideal part and every noise element), not as stored arrays."""
    from qutip_qip.pulse import Pulse, Drift
    if isinstance(p, Drift):
        return ["Drift", [[dump(e.qobj), dump(e.targets)] for e in p.drift_hamiltonians if e.qobj is not None]]
    sk = p.spline_kind
    return ["Pulse", dump(p.label), sk, _evo_el(p.ideal_pulse, sk, T),
            [_evo_el(e, sk, T) for e in p.coherent_noise], [_evo_el(e, sk, T) for e in p.lindblad_noise]]


def pulses_T(pulses):
    T = 0.0
    for p in pulses:
        tl = getattr(p, "tlist", None)
        if tl is not None and np.ndim(tl) > 0 and len(tl):
            T = max(T, float(np.asarray(tl)[-1]))
    return T or 1.0


def dump(o, depth=0, seen=None):
    """Structural deep snapshot (values only, no identities)."""
    import qutip
    if seen is None:
        seen = {}
    if isinstance(o, (np.generic,)) or isinstance(o, _PRIM):
        return _r(o)
    if isinstance(o, qutip.Qobj):
        return ["Qobj", dump(o.dims), _arr(o.full())]
    if isinstance(o, np.ndarray):
        return _arr(o)
    if isinstance(o, (list, tuple)):
        return [dump(x, depth + 1, seen) for x in o]
    if isinstance(o, range):
        return ["range", o.start, o.stop, o.step]
    if isinstance(o, (set, frozenset)):
        return ["set", sorted((dump(x, depth + 1, seen) for x in o), key=repr)]
    if isinstance(o, dict):
        return ["dict", sorted(([dump(k, depth + 1, seen), dump(v, depth + 1, seen)] for k, v in o.items()), key=repr)]
    if callable(o) and not hasattr(o, "__dict__"):
        return "<fn %s>" % getattr(o, "__qualname__", type(o).__name__)
    if callable(o) and hasattr(o, "__qualname__"):
        return "<fn %s>" % o.__qualname__
    if isinstance(o, qutip.QobjEvo):
        return ["QobjEvo", [_arr(o(t).full()) for t in (0.07, 0.61, 1.37, 2.9, 6.1, 11.3)]]
    if id(o) in seen or depth > 12:
        return "<rec>"
    seen[id(o)] = 1
    from qutip_qip.pulse import Pulse, Drift
    if isinstance(o, (Pulse, Drift)):
        return pulse_snapshot(o, 10.0)
    if hasattr(o, "__dict__"):
        return [type(o).__name__, sorted(([k, dump(v, depth + 1, seen)] for k, v in vars(o).items()), key=lambda kv: kv[0])]
    return "<%s>" % type(o).__name__


def mutable_ids(o, acc=None, depth=0, keep=None):
    """ids of the mutable objects (lists, dicts, sets, arrays, instances) reachable from o.
    Qobj / QobjEvo / functions are values here.  `keep` collects the objects so that ids stay unique."""
    import qutip
    if acc is None:
        acc = {}
    if isinstance(o, _PRIM) or isinstance(o, (np.generic, qutip.Qobj, qutip.QobjEvo, range)) or depth > 14:
        return acc
    if isinstance(o, tuple):
        for x in o:
            mutable_ids(x, acc, depth + 1)
        return acc
    import types
    if isinstance(o, (type, types.ModuleType, types.FunctionType, types.MethodType, types.BuiltinFunctionType)):
        return acc
    if id(o) in acc:
        return acc
    if isinstance(o, np.ndarray):
        acc[id(o)] = type(o).__name__
        if o.base is not None and isinstance(o.base, np.ndarray):
            acc[id(o.base)] = "ndarray-base"
        return acc
    if isinstance(o, (list, set, frozenset)):
        acc[id(o)] = type(o).__name__
        for x in o:
            mutable_ids(x, acc, depth + 1)
        return acc
    if isinstance(o, dict):
        acc[id(o)] = "dict"
        for k, v in o.items():
            mutable_ids(v, acc, depth + 1)
        return acc
    if hasattr(o, "__dict__"):
        acc[id(o)] = type(o).__name__
        for k, v in vars(o).items():
            mutable_ids(v, acc, depth + 1)
        return acc
    return acc


def canon(x):
    """canonical value of a result (for repeat / fresh comparison)"""
    return dump(x)


# ------------------------------------------------------------------------------------------------------
# worlds
# ------------------------------------------------------------------------------------------------------
PI = float(np.pi)


def mk_gate_obj(g):
    from qutip_qip.operations import Gate, Measurement
    from qutip_qip.circuit import QubitCircuit
    if "M" in g:
        return Measurement("M%d" % g["M"], targets=[g["M"]], classical_store=g.get("store"))
    a = g.get("a")
    if isinstance(a, list):
        arg = [x * PI for x in a]
    elif a is None:
        arg = None
    else:
        arg = a * PI
    kw = {}
    if g.get("cc") is not None:
        kw["classical_controls"] = list(g["cc"])
        if g.get("ccv") is not None:
            kw["classical_control_value"] = g["ccv"]
    tmp = QubitCircuit(8, num_cbits=8)
    tmp.add_gate(g["name"], targets=None if g.get("t") is None else list(g["t"]),
                 controls=None if g.get("c") is None else list(g["c"]), arg_value=arg, **kw)
    return tmp.gates[0]


def mk_circuit(c):
    from qutip_qip.circuit import QubitCircuit
    qc = QubitCircuit(c["N"], num_cbits=c.get("ncb", 0))
    for g in c["gates"]:
        qc.gates.append(mk_gate_obj(g))
    return qc


def mk_state(kind, N, dm=False):
    from qutip import basis, tensor, ket2dm
    if kind == "plus":
        one = (basis(2, 0) + basis(2, 1)).unit()
        psi = tensor([one] * N)
    elif isinstance(kind, int):
        bits = [(kind >> (N - 1 - i)) & 1 for i in range(N)]
        psi = tensor([basis(2, b) for b in bits])
    else:
        a = (basis(2, 0) + (0.6 + 0.3j) * basis(2, 1)).unit()
        b = (basis(2, 0) - 0.4j * basis(2, 1)).unit()
        psi = tensor([a if i % 2 == 0 else b for i in range(N)])
    return ket2dm(psi) if dm else psi


class World:
    """The shared objects of one history."""

    def __init__(self, inp, circs=None, cbits=None):
        self.inp = inp
        self.circs = [mk_circuit(c) for c in inp["circs"]] if circs is None else circs
        self.cbits = [list(b) for b in inp["cbits"]] if cbits is None else cbits
        self.gate_lists = {}
        self.instr_lists = {}
        self.sims = {}
        self.procs = {}
        self.comps = {}
        self.scheds = {}
        self.noise_objs = {}

    # caller data = everything the caller passes in as circuit / gate / cbits argument
    def roots(self):
        r = {}
        for i, c in enumerate(self.circs):
            r["circ%d" % i] = c
        for i, b in enumerate(self.cbits):
            r["cbits%d" % i] = b
        for k, v in self.gate_lists.items():
            r["gatelist%d" % k] = v
        for k, v in self.instr_lists.items():
            r["instrlist%d" % k] = v
        return r

    def gate_list(self, ci):
        if ci not in self.gate_lists:
            self.gate_lists[ci] = [copy.deepcopy(g) for g in self.circs[ci].gates]
        return self.gate_lists[ci]

    def instr_list(self, ci):
        from qutip_qip.compiler import Instruction
        if ci not in self.instr_lists:
            self.instr_lists[ci] = [Instruction(g, duration=1.0 + 0.5 * (k % 3)) for k, g in enumerate(self.circs[ci].gates)]
        return self.instr_lists[ci]

    def sim(self, si):
        from qutip_qip.circuit import CircuitSimulator
        if si not in self.sims:
            s = self.inp["sims"][si]
            self.sims[si] = CircuitSimulator(self.circs[s["circ"]], mode="density_matrix_simulator" if s.get("dm") else "state_vector_simulator")
        return self.sims[si]

    def proc(self, pi):
        if pi not in self.procs:
            self.procs[pi] = mk_proc(self.inp["procs"][pi], self, pi)
        return self.procs[pi]

    def comp(self, ki):
        if ki not in self.comps:
            self.comps[ki] = mk_comp(self.inp["comps"][ki])
        return self.comps[ki]

    def sched(self, method):
        from qutip_qip.compiler import Scheduler
        if method not in self.scheds:
            self.scheds[method] = Scheduler(method)
        return self.scheds[method]


def mk_proc(p, world=None, pi=0):
    from qutip_qip.device import LinearSpinChain, CircularSpinChain, DispersiveCavityQED, SCQubits
    from qutip_qip.noise import RelaxationNoise, RandomNoise, ControlAmpNoise
    kw = {}
    if p.get("t1") is not None:
        kw["t1"] = p["t1"]
    if p.get("t2") is not None:
        kw["t2"] = p["t2"]
    k = p["kind"]
    if k == "linear":
        proc = LinearSpinChain(p["N"], **kw)
    elif k == "circular":
        proc = CircularSpinChain(p["N"], **kw)
    elif k == "cqed":
        proc = DispersiveCavityQED(p["N"], num_levels=2, **kw)
    else:
        proc = SCQubits(p["N"], **kw)
    for j, n in enumerate(p.get("noise", [])):
        if n["kind"] == "relax":
            no = RelaxationNoise(t1=n["t1"], t2=n["t2"])
        elif n["kind"] == "amp":
            no = ControlAmpNoise(coeff=np.array([0.25, 0.5, 0.25]), tlist=np.array([0.0, 1.0, 2.0]), indices=[0])
        else:
            no = RandomNoise(dt=0.5, rand_gen=_const_gen, indices=[0])
        if world is not None:
            world.noise_objs[(pi, j)] = no
        proc.add_noise(no)
    return proc


def _const_gen(size=None, **kw):
    return np.full(size, 0.125)


def mk_comp(k):
    from qutip_qip.compiler import SpinChainCompiler, CavityQEDCompiler
    from qutip_qip.device import LinearSpinChain, CircularSpinChain, DispersiveCavityQED
    if k["kind"] == "spinchain":
        params = (LinearSpinChain if k.get("setup", "linear") == "linear" else CircularSpinChain)(k["N"]).params
        return SpinChainCompiler(k["N"], params, setup=k.get("setup", "linear"))
    params = DispersiveCavityQED(k["N"], num_levels=2).params
    return CavityQEDCompiler(k["N"], params)


# ------------------------------------------------------------------------------------------------------
# operations
# ------------------------------------------------------------------------------------------------------
SIM_OPS = ("sim_run", "sim_stats")
PROC_QUERIES = ("qobjevo", "noisy_pulses", "run_analytically", "proc_pulses")
SERVICE_OPS = SIM_OPS + ("compile", "load") + PROC_QUERIES


def do_call(W, call):
    """Execute one public operation on the shared objects of W; returns the raw result."""
    from qutip_qip.transpiler import to_chain_structure
    from qutip_qip.compiler import Instruction
    from qutip_qip.qasm import circuit_to_qasm_str
    from qutip_qip.circuit import QubitCircuit
    np.random.seed(16016)
    op = call["op"]
    qc = W.circs[call["circ"]] if call.get("circ") is not None else None
    cb = W.cbits[call["cbits"]] if call.get("cbits") is not None else None
    mr = tuple(call["mr"]) if call.get("mr") is not None else None
    if op == "sim_run":
        sim = W.sim(call["sim"])
        qc = sim.qc
        return sim.run(mk_state(call.get("state", "gen"), qc.N, call.get("dmstate", False)), cbits=cb, measure_results=mr)
    if op == "sim_stats":
        sim = W.sim(call["sim"])
        qc = sim.qc
        return sim.run_statistics(mk_state(call.get("state", "gen"), qc.N, call.get("dmstate", False)), cbits=cb)
    if op == "qc_run":
        return qc.run(mk_state(call.get("state", "gen"), qc.N, call.get("dmstate", False)), cbits=cb, measure_results=mr)
    if op == "qc_stats":
        return qc.run_statistics(mk_state(call.get("state", "gen"), qc.N, call.get("dmstate", False)), cbits=cb)
    if op == "resolve":
        return qc.resolve_gates(call["basis"])
    if op == "adjacent":
        return qc.adjacent_gates()
    if op == "chain":
        return to_chain_structure(qc, call.get("setup", "linear"))
    if op == "reverse":
        return qc.reverse_circuit()
    if op == "add_circuit":
        dst = QubitCircuit(qc.N + call.get("start", 0), num_cbits=qc.num_cbits)
        dst.add_circuit(qc, start=call.get("start", 0))
        return dst
    if op == "propagators":
        return qc.propagators(expand=call.get("expand", True), ignore_measurement=True)
    if op == "unitary":
        return qc.compute_unitary()
    if op == "schedule":
        sch = W.sched(call.get("method", "ASAP"))
        what = call.get("what", "circ")
        if what == "circ":
            return sch.schedule(qc)
        if what == "gates":
            return sch.schedule(W.gate_list(call["circ"]), gates_schedule=True)
        return sch.schedule(W.instr_list(call["circ"]), gates_schedule=call.get("gs", False))
    if op == "instr":
        gl = W.gate_list(call["circ"])
        if not gl:
            return None
        return Instruction(gl[call.get("k", 0) % len(gl)], duration=2.0)
    if op == "qasm":
        return circuit_to_qasm_str(qc)
    if op == "draw":
        buf = io.StringIO()
        with contextlib.redirect_stdout(buf):
            qc.draw("text")
        return buf.getvalue()
    if op == "compile":
        comp = W.comp(call["comp"])
        arg = qc if call.get("as", "circ") == "circ" else W.gate_list(call["circ"])
        return comp.compile(arg, schedule_mode=call.get("sm"), args=copy.deepcopy(call.get("args")))
    if op == "load":
        proc = W.proc(call["proc"])
        kw = {}
        if call.get("comp") is not None:
            kw["compiler"] = W.comp(call["comp"])
        if call.get("sm", "ASAP") != "ASAP":
            kw["schedule_mode"] = call["sm"]
        res = proc.load_circuit(qc, **kw)
        return [res, getattr(proc, "global_phase", None)]
    if op == "qobjevo":
        return W.proc(call["proc"]).get_qobjevo(noisy=call.get("noisy", False))
    if op == "noisy_pulses":
        ps = W.proc(call["proc"]).get_noisy_pulses(device_noise=call.get("dn", False), drift=call.get("drift", False))
        T = pulses_T(ps)
        return ["noisy-pulses", [pulse_snapshot(p, T) for p in ps]]
    if op == "run_analytically":
        proc = W.proc(call["proc"])
        st = None
        if call.get("state") is not None:
            st = proc.generate_init_processor_state(mk_state(call["state"], proc.num_qubits)) if hasattr(proc, "generate_init_processor_state") else None
        return proc.run_analytically(init_state=st)
    if op == "proc_pulses":
        proc = W.proc(call["proc"])
        proc.get_full_tlist()
        proc.get_full_coeffs()
        return ["held", proc_state(proc)]
    raise ValueError("unknown op " + op)


def proc_state(proc):
    """what a processor holds: pulses as functions of time, global phase, noise list."""
    T = pulses_T(proc.pulses)
    return [[pulse_snapshot(p, T) for p in proc.pulses], dump(getattr(proc, "global_phase", None)),
            [noise_snapshot(n) for n in proc.noise]]


def noise_snapshot(n):
    d = {}
    for k, v in vars(n).items():
        if k in ("t1", "t2"):
            # a scalar T and a constant list mean the same relaxation times
            if isinstance(v, (list, tuple, np.ndarray)) and len(v) and all(x == v[0] for x in v):
                v = v[0]
        d[k] = v
    return [type(n).__name__, dump(d)]


def service_snapshots(W):
    """state held by service objects that the property protects (processor pulses as functions of time)."""
    return {"proc%d" % k: proc_state(p) for k, p in W.procs.items()}


# ------------------------------------------------------------------------------------------------------
# running a history on the real code
# ------------------------------------------------------------------------------------------------------
def safe_call(W, call):
    try:
        return True, do_call(W, call)
    except Exception as e:  # any exception = rejected
        return False, "%s: %s" % (type(e).__name__, str(e)[:80])


def fresh_replay(inp, W, hist_so_far, call):
    """The same call on freshly constructed service objects, with caller data equal to the CURRENT contents
    of the shared caller objects (argument mutation is reported separately).  Processor queries need the
    program the processor holds: the last load on that processor is replayed first (with a fresh compiler)."""
    W2 = World(inp, circs=copy.deepcopy(W.circs), cbits=copy.deepcopy(W.cbits))
    for k, v in W.gate_lists.items():
        W2.gate_lists[k] = copy.deepcopy(v)
    for k, v in W.instr_lists.items():
        W2.instr_lists[k] = copy.deepcopy(v)
    if call["op"] in PROC_QUERIES:
        last = None
        for c in hist_so_far:
            if c["op"] == "load" and c["proc"] == call["proc"] and c.get("_ok"):
                last = c
        if last is not None:
            ok, _ = safe_call(W2, {k: v for k, v in last.items() if not k.startswith("_")})
    return safe_call(W2, call)


def run_history(inp, repeat=True, fresh=True):
    """Returns (observations per call, failures).  Observation of a call:
       ok, mutated roots, roots aliased by the result, aliases an earlier result, repeat-equal, fresh-equal,
       processor state changed by a query."""
    W = World(inp)
    obs = []
    fails = []
    kept = []       # (call index, result, ids)
    prev = None
    done = []
    for ci, call in enumerate(inp["calls"]):
        call = dict(call)
        # make lazily created argument objects exist before the snapshot
        if call["op"] in ("schedule", "instr", "compile") and call.get("circ") is not None:
            if call.get("what") == "gates" or call["op"] == "instr" or call.get("as") == "gates":
                W.gate_list(call["circ"])
            if call.get("what") == "instrs":
                W.instr_list(call["circ"])
        if call.get("proc") is not None:
            W.proc(call["proc"])
        roots = W.roots()
        before = {k: dump(v) for k, v in roots.items()}
        svc_before = service_snapshots(W)
        root_ids = {k: mutable_ids(v) for k, v in roots.items()}
        ok, res = safe_call(W, call)
        after = {k: dump(v) for k, v in roots.items()}
        svc_after = service_snapshots(W)
        mutated = sorted(k for k in before if before[k] != after[k])
        o = dict(ok=ok, mutated=mutated, alias=[], alias_prev=[], repeat_equal=None, fresh_equal=None, held_changed=[])
        call["_ok"] = ok
        what_call = {k: v for k, v in call.items() if not k.startswith("_")}
        for k in mutated:
            fails.append(dict(kind="arg-mutated", call_index=ci, call=what_call, root=k, before=before[k], after=after[k]))
        if call["op"] in PROC_QUERIES:
            for k in svc_before:
                if svc_before[k] != svc_after.get(k):
                    o["held_changed"].append(k)
                    fails.append(dict(kind="held-pulses-changed", call_index=ci, call=what_call, root=k,
                                      before=svc_before[k], after=svc_after.get(k)))
        if ok:
            rids = mutable_ids(res)
            for k, ids in root_ids.items():
                shared = sorted(set(rids) & set(ids))
                if shared:
                    o["alias"].append(k)
                    fails.append(dict(kind="result-aliases-arg", call_index=ci, call=what_call, root=k,
                                      shared=sorted(set(rids[s] for s in shared))))
            for (cj, rj, idj) in kept:
                shared = sorted(set(rids) & set(idj))
                if shared:
                    o["alias_prev"].append(cj)
                    fails.append(dict(kind="results-alias", call_index=ci, call=what_call, other_call_index=cj,
                                      other_call={k: v for k, v in inp["calls"][cj].items()},
                                      shared=sorted(set(rids[s] for s in shared)),
                                      via_roots=sorted(k for k, ids in root_ids.items() if set(shared) & set(ids))))
            kept.append((ci, res, rids))
            c1 = canon(res)
            if fresh:
                ok2, res2 = fresh_replay(inp, W, done, what_call)
                o["fresh_equal"] = bool(ok2 and canon(res2) == c1)
                if not o["fresh_equal"]:
                    fails.append(dict(kind="used-differs-from-fresh", call_index=ci, call=what_call,
                                      observed=_short(c1), fresh=_short(canon(res2)) if ok2 else res2))
            if repeat and prev is not None and prev[0] == what_call:
                o["repeat_equal"] = bool(prev[1] == c1)
                if not o["repeat_equal"]:
                    fails.append(dict(kind="not-repeatable", call_index=ci, call=what_call, first=_short(prev[1]),
                                      second=_short(c1)))
            prev = (what_call, c1)
        else:
            o["error"] = res
            prev = None
        done.append(call)
        obs.append(o)
    return obs, fails


def _short(x, n=400):
    s = json.dumps(x, default=str)
    return s if len(s) <= n else s[:n] + "..."
