"""C16 -- queries, transformations and simulations are pure and repeatable.

Real side: histories (<= 8 calls) of public operations applied to SHARED circuit / gate / cbits-list /
simulator / processor / compiler objects.  Around every call: deep structural snapshots of every caller
object, id()-sets of the mutable objects reachable from arguments and results (alias classes), an immediate
repeat of the same call, and a replay of the call on freshly constructed service objects.
Model side: Model/Heap.v executes the same history on an object-granularity heap under the FLAGS extracted
from the current sources by tools/translate/purity_tr.py (Gen/Purity.v) and predicts, per call, which caller
objects may be written, which the result aliases, whether results alias earlier results and whether the call is
guaranteed to behave as on fresh objects.
"""
import copy
import io
import contextlib
import json
import os
import warnings

import numpy as np

from common import Corr, Broken, coq_eval_many, parse_evals, cnat, cbool, clist, REPO, SRC, VERIF, COQ, write_if_changed

warnings.filterwarnings("ignore")

ID = "C16"
TARGETS = ["Props/C16.vo"]

# ------------------------------------------------------------------------------------------------------
# structural snapshots, alias sets, canonical results
# ------------------------------------------------------------------------------------------------------
_PRIM = (int, float, complex, str, bool, type(None), bytes)


def _r(x):
    """round floats so that snapshots compare exactly up to 1e-9"""
    if isinstance(x, (bool, np.bool_)):
        return bool(x)
    if isinstance(x, (int, np.integer)):
        return int(x)
    if isinstance(x, (float, np.floating)):
        x = float(x)
        if x != x:
            return "nan"
        return round(x, 9) + 0.0
    if isinstance(x, (complex, np.complexfloating)):
        return [round(float(x.real), 9) + 0.0, round(float(x.imag), 9) + 0.0]
    return x


def _arr(a):
    a = np.asarray(a)
    if a.dtype == object:
        return [dump(x) for x in a.tolist()]
    if a.dtype.kind in "fc" and not np.all(np.isfinite(a)):
        # NaN != NaN would make every snapshot differ from itself: use sentinels
        a = np.where(np.isnan(a), 9.99e99, a)
        a = np.where(np.isinf(a), 8.88e99, a)
    if np.iscomplexobj(a):
        return ["c", list(a.shape), np.round(a.real, 9).ravel().tolist(), np.round(a.imag, 9).ravel().tolist()]
    return ["a", list(a.shape), (np.round(a.astype(float), 9) + 0.0).ravel().tolist()]


SAMPLE_FRACS = [0.013, 0.061, 0.11, 0.19, 0.27, 0.33, 0.41, 0.47, 0.52, 0.59, 0.66, 0.71, 0.78, 0.83, 0.89, 0.94, 0.987]


def sample_fn(tlist, coeff, spline_kind, T):
    """An independent evaluation of a pulse coefficient as a function of time at fixed fractions of T."""
    if coeff is None:
        return "none"
    if isinstance(coeff, (bool, np.bool_)):
        return ["const", bool(coeff)]
    if tlist is None:
        return ["no-tlist", _arr(coeff)]
    tl = np.asarray(tlist, dtype=float)
    co = np.asarray(coeff, dtype=float)
    if tl.ndim == 0:
        tl = np.array([0.0, float(tl)])
    out = []
    if not (np.all(np.isfinite(tl)) and np.all(np.isfinite(co))):
        return ["irregular", _arr(tl), _arr(co)]      # degenerate pulse (e.g. zero duration): compared as stored
    sp = None
    if spline_kind == "cubic" and len(co) == len(tl) and len(tl) >= 2:
        from scipy.interpolate import CubicSpline
        try:
            sp = CubicSpline(tl, co)
        except ValueError:
            return ["irregular", _arr(tl), _arr(co)]
    for f in SAMPLE_FRACS:
        t = f * T
        if t < tl[0] or t > tl[-1]:
            out.append(0.0)
        elif sp is not None:
            out.append(round(float(sp(t)), 7) + 0.0)
        else:
            k = int(np.searchsorted(tl, t, side="right")) - 1
            out.append(round(float(co[k]), 9) + 0.0 if 0 <= k < len(co) else 0.0)
    return out


def _evo_el(el, spline, T):
    q = getattr(el, "qobj", None)
    return [dump(q), dump(getattr(el, "targets", None)), sample_fn(getattr(el, "tlist", None), getattr(el, "coeff", None), spline, T)]


def pulse_snapshot(p, T):
    """A pulse as a function of time (ideal part and every noise element), not as stored arrays."""
    from qutip_qip.pulse import Pulse, Drift
    if isinstance(p, Drift):
        return ["Drift", [[dump(e.qobj), dump(e.targets)] for e in p.drift_hamiltonians if e.qobj is not None]]
    sk = p.spline_kind
    return ["Pulse", dump(p.label), sk, _evo_el(p.ideal_pulse, sk, T),
            [_evo_el(e, sk, T) for e in p.coherent_noise], [_evo_el(e, sk, T) for e in p.lindblad_noise]]


def pulses_T(pulses):
    T = 0.0
    for p in pulses:
        tl = getattr(p, "tlist", None)
        if tl is not None and np.ndim(tl) > 0 and len(tl) and np.isfinite(np.asarray(tl, dtype=float)[-1]):
            T = max(T, float(np.asarray(tl)[-1]))
    return T or 1.0


def dump(o, depth=0, seen=None):
    """Structural deep snapshot (values only, no identities)."""
    import qutip
    if seen is None:
        seen = {}
    if isinstance(o, (np.generic,)) or isinstance(o, _PRIM):
        return _r(o)
    if isinstance(o, qutip.Qobj):
        return ["Qobj", dump(o.dims), _arr(o.full())]
    if isinstance(o, np.ndarray):
        return _arr(o)
    if isinstance(o, (list, tuple)):
        return [dump(x, depth + 1, seen) for x in o]
    if isinstance(o, range):
        return ["range", o.start, o.stop, o.step]
    if isinstance(o, (set, frozenset)):
        return ["set", sorted((dump(x, depth + 1, seen) for x in o), key=repr)]
    if isinstance(o, dict):
        return ["dict", sorted(([dump(k, depth + 1, seen), dump(v, depth + 1, seen)] for k, v in o.items()), key=repr)]
    if callable(o) and not hasattr(o, "__dict__"):
        return "<fn %s>" % getattr(o, "__qualname__", type(o).__name__)
    if callable(o) and hasattr(o, "__qualname__"):
        return "<fn %s>" % o.__qualname__
    if isinstance(o, qutip.QobjEvo):
        return ["QobjEvo", [_arr(o(t).full()) for t in (0.07, 0.61, 1.37, 2.9, 6.1, 11.3)]]
    if id(o) in seen or depth > 12:
        return "<rec>"
    seen[id(o)] = 1
    from qutip_qip.pulse import Pulse, Drift
    if isinstance(o, (Pulse, Drift)):
        return pulse_snapshot(o, 10.0)
    if hasattr(o, "__dict__"):
        return [type(o).__name__, sorted(([k, dump(v, depth + 1, seen)] for k, v in vars(o).items()), key=lambda kv: kv[0])]
    return "<%s>" % type(o).__name__


def mutable_ids(o, acc=None, depth=0, keep=None):
    """ids of the mutable objects (lists, dicts, sets, arrays, instances) reachable from o.
    Qobj / QobjEvo / functions are values here.  `keep` collects the objects so that ids stay unique."""
    import qutip
    if acc is None:
        acc = {}
    if isinstance(o, _PRIM) or isinstance(o, (np.generic, qutip.Qobj, qutip.QobjEvo, range)) or depth > 14:
        return acc
    if isinstance(o, tuple):
        for x in o:
            mutable_ids(x, acc, depth + 1)
        return acc
    import types
    if isinstance(o, (type, types.ModuleType, types.FunctionType, types.MethodType, types.BuiltinFunctionType)):
        return acc
    if id(o) in acc:
        return acc
    if isinstance(o, np.ndarray):
        acc[id(o)] = type(o).__name__
        if o.base is not None and isinstance(o.base, np.ndarray):
            acc[id(o.base)] = "ndarray-base"
        return acc
    if isinstance(o, (list, set, frozenset)):
        acc[id(o)] = type(o).__name__
        for x in o:
            mutable_ids(x, acc, depth + 1)
        return acc
    if isinstance(o, dict):
        acc[id(o)] = "dict"
        for k, v in o.items():
            mutable_ids(v, acc, depth + 1)
        return acc
    if hasattr(o, "__dict__"):
        acc[id(o)] = type(o).__name__
        for k, v in vars(o).items():
            mutable_ids(v, acc, depth + 1)
        return acc
    return acc


def canon(x):
    """canonical value of a result (for repeat / fresh comparison)"""
    return dump(x)


# ------------------------------------------------------------------------------------------------------
# worlds
# ------------------------------------------------------------------------------------------------------
PI = float(np.pi)


def mk_gate_obj(g):
    from qutip_qip.operations import Gate, Measurement
    from qutip_qip.circuit import QubitCircuit
    if "M" in g:
        return Measurement("M%d" % g["M"], targets=[g["M"]], classical_store=g.get("store"))
    a = g.get("a")
    if isinstance(a, list):
        arg = [x * PI for x in a]
    elif a is None:
        arg = None
    else:
        arg = a * PI
    kw = {}
    if g.get("cc") is not None:
        kw["classical_controls"] = list(g["cc"])
        if g.get("ccv") is not None:
            kw["classical_control_value"] = g["ccv"]
    tmp = QubitCircuit(8, num_cbits=8)
    tmp.add_gate(g["name"], targets=None if g.get("t") is None else list(g["t"]),
                 controls=None if g.get("c") is None else list(g["c"]), arg_value=arg, **kw)
    return tmp.gates[0]


def mk_circuit(c):
    from qutip_qip.circuit import QubitCircuit
    qc = QubitCircuit(c["N"], num_cbits=c.get("ncb", 0))
    for g in c["gates"]:
        qc.gates.append(mk_gate_obj(g))
    return qc


def mk_state(kind, N, dm=False):
    from qutip import basis, tensor, ket2dm
    if kind == "plus":
        one = (basis(2, 0) + basis(2, 1)).unit()
        psi = tensor([one] * N)
    elif isinstance(kind, int):
        bits = [(kind >> (N - 1 - i)) & 1 for i in range(N)]
        psi = tensor([basis(2, b) for b in bits])
    else:
        a = (basis(2, 0) + (0.6 + 0.3j) * basis(2, 1)).unit()
        b = (basis(2, 0) - 0.4j * basis(2, 1)).unit()
        psi = tensor([a if i % 2 == 0 else b for i in range(N)])
    return ket2dm(psi) if dm else psi


def needed_lists(inp, which):
    out = set()
    for c in inp["calls"]:
        if c.get("circ") is None:
            continue
        if which == "gates" and (c["op"] == "instr" or (c["op"] == "schedule" and c.get("what") == "gates") or (c["op"] == "compile" and c.get("as") == "gates")):
            out.add(c["circ"])
        if which == "instrs" and c["op"] == "schedule" and c.get("what") == "instrs":
            out.add(c["circ"])
    return sorted(out)


class World:
    """The shared objects of one history."""

    def __init__(self, inp, circs=None, cbits=None):
        self.inp = inp
        self.circs = [mk_circuit(c) for c in inp["circs"]] if circs is None else circs
        self.cbits = [list(b) for b in inp["cbits"]] if cbits is None else cbits
        self.gate_lists = {}
        self.instr_lists = {}
        self.sims = {}
        self.procs = {}
        self.comps = {}
        self.scheds = {}
        self.noise_objs = {}
        if circs is None:
            for ci in needed_lists(inp, "gates"):
                self.gate_list(ci)
            for ci in needed_lists(inp, "instrs"):
                self.instr_list(ci)

    # caller data = everything the caller passes in as circuit / gate / cbits argument
    def roots(self):
        r = {}
        for i, c in enumerate(self.circs):
            r["circ%d" % i] = c
        for i, b in enumerate(self.cbits):
            r["cbits%d" % i] = b
        for k, v in self.gate_lists.items():
            r["gatelist%d" % k] = v
        for k, v in self.instr_lists.items():
            r["instrlist%d" % k] = v
        return r

    def gate_list(self, ci):
        if ci not in self.gate_lists:
            self.gate_lists[ci] = [copy.deepcopy(g) for g in self.circs[ci].gates]
        return self.gate_lists[ci]

    def instr_list(self, ci):
        from qutip_qip.compiler import Instruction
        if ci not in self.instr_lists:
            self.instr_lists[ci] = [Instruction(g, duration=1.0 + 0.5 * (k % 3)) for k, g in enumerate(self.circs[ci].gates)]
        return self.instr_lists[ci]

    def sim(self, si):
        from qutip_qip.circuit import CircuitSimulator
        if si not in self.sims:
            s = self.inp["sims"][si]
            self.sims[si] = CircuitSimulator(self.circs[s["circ"]], mode="density_matrix_simulator" if s.get("dm") else "state_vector_simulator")
        return self.sims[si]

    def proc(self, pi):
        if pi not in self.procs:
            self.procs[pi] = mk_proc(self.inp["procs"][pi], self, pi)
        return self.procs[pi]

    def comp(self, ki):
        if ki not in self.comps:
            self.comps[ki] = mk_comp(self.inp["comps"][ki])
        return self.comps[ki]

    def sched(self, method):
        from qutip_qip.compiler import Scheduler
        if method not in self.scheds:
            self.scheds[method] = Scheduler(method)
        return self.scheds[method]


def mk_proc(p, world=None, pi=0):
    from qutip_qip.device import LinearSpinChain, CircularSpinChain, DispersiveCavityQED, SCQubits
    from qutip_qip.noise import RelaxationNoise, RandomNoise, ControlAmpNoise
    kw = {}
    if p.get("t1") is not None:
        kw["t1"] = p["t1"]
    if p.get("t2") is not None:
        kw["t2"] = p["t2"]
    k = p["kind"]
    if k == "linear":
        proc = LinearSpinChain(p["N"], **kw)
    elif k == "circular":
        proc = CircularSpinChain(p["N"], **kw)
    elif k == "cqed":
        proc = DispersiveCavityQED(p["N"], num_levels=2, **kw)
    else:
        proc = SCQubits(p["N"], **kw)
    if p.get("pm"):
        proc.pulse_mode = p["pm"]
    for j, n in enumerate(p.get("noise", [])):
        if n["kind"] == "relax":
            no = RelaxationNoise(t1=n["t1"], t2=n["t2"])
        elif n["kind"] == "amp":
            no = ControlAmpNoise(coeff=np.array([0.25, 0.5, 0.25]), tlist=np.array([0.0, 1.0, 2.0]), indices=[0])
        elif n["kind"] == "ampall":
            # deterministic amplitude noise on EVERY pulse (indices=None: the range is that of the pulses held at the time)
            no = ControlAmpNoise(coeff=np.array([0.25, 0.5, 0.25, 0.125]), tlist=np.array([0.0, 1.0, 2.0, 3.5]))
        elif n["kind"] == "ampscalar":
            no = ControlAmpNoise(coeff=0.25)
        elif n["kind"] == "randall":
            no = RandomNoise(dt=0.5, rand_gen=_const_gen)
        else:
            no = RandomNoise(dt=0.5, rand_gen=_const_gen, indices=[0])
        if world is not None:
            world.noise_objs[(pi, j)] = no
        proc.add_noise(no)
    return proc


def _const_gen(size=None, **kw):
    return np.full(size, 0.125)


def mk_comp(k):
    from qutip_qip.compiler import SpinChainCompiler, CavityQEDCompiler, SCQubitsCompiler
    from qutip_qip.device import LinearSpinChain, CircularSpinChain, DispersiveCavityQED, SCQubits
    if k["kind"] == "spinchain":
        params = (LinearSpinChain if k.get("setup", "linear") == "linear" else CircularSpinChain)(k["N"]).params
        comp = SpinChainCompiler(k["N"], params, setup=k.get("setup", "linear"))
    elif k["kind"] == "scq":
        comp = SCQubitsCompiler(k["N"], SCQubits(k["N"]).params)
    else:
        params = DispersiveCavityQED(k["N"], num_levels=2).params
        comp = CavityQEDCompiler(k["N"], params)
    if k.get("args"):
        comp.args.update(copy.deepcopy(ARGS_MENU[k["args"]]))      # the documented way to configure the pulse shape
    return comp


# ------------------------------------------------------------------------------------------------------
# operations
# ------------------------------------------------------------------------------------------------------
SIM_OPS = ("sim_run", "sim_stats")
# legal edits of a caller's circuit between two uses of a simulator / processor that was built on it (declared
# mutators: their change of the circuit is the point, not a violation); histories with edits are checked by the
# used-equals-fresh / repeat oracles only (Model/Heap.v has no edit operation)
EDIT_OPS = ("add_meas", "add_gate", "pop_gate")
PROC_QUERIES = ("qobjevo", "noisy_pulses", "run_analytically", "proc_pulses")
SERVICE_OPS = SIM_OPS + ("compile", "load") + PROC_QUERIES


def do_call(W, call):
    """Execute one public operation on the shared objects of W; returns the raw result."""
    from qutip_qip.transpiler import to_chain_structure
    from qutip_qip.compiler import Instruction
    from qutip_qip.qasm import circuit_to_qasm_str
    from qutip_qip.circuit import QubitCircuit
    np.random.seed(16016)
    op = call["op"]
    qc = W.circs[call["circ"]] if call.get("circ") is not None else None
    cb = W.cbits[call["cbits"]] if call.get("cbits") is not None else None
    mr = tuple(call["mr"]) if call.get("mr") is not None else None
    if op == "sim_run":
        sim = W.sim(call["sim"])
        qc = sim.qc
        return sim.run(mk_state(call.get("state", "gen"), qc.N, call.get("dmstate", False)), cbits=cb, measure_results=mr)
    if op == "sim_make":
        sim = W.sim(call["sim"])
        return ["simulator", sim.mode]
    if op == "add_meas":
        qc.add_measurement("M%d" % call["t"], targets=[call["t"]], classical_store=call.get("store"))
        return None
    if op == "add_gate":
        qc.add_gate(call["name"], targets=[call["t"]])
        return None
    if op == "pop_gate":
        qc.remove_gate_or_measurement(index=call["k"] % len(qc.gates))
        return None
    if op == "sim_stats":
        sim = W.sim(call["sim"])
        qc = sim.qc
        return sim.run_statistics(mk_state(call.get("state", "gen"), qc.N, call.get("dmstate", False)), cbits=cb)
    if op == "qc_run":
        return qc.run(mk_state(call.get("state", "gen"), qc.N, call.get("dmstate", False)), cbits=cb, measure_results=mr)
    if op == "qc_stats":
        return qc.run_statistics(mk_state(call.get("state", "gen"), qc.N, call.get("dmstate", False)), cbits=cb)
    if op == "resolve":
        return qc.resolve_gates(call["basis"])
    if op == "adjacent":
        return qc.adjacent_gates()
    if op == "chain":
        return to_chain_structure(qc, call.get("setup", "linear"))
    if op == "reverse":
        return qc.reverse_circuit()
    if op == "add_circuit":
        dst = QubitCircuit(qc.N + call.get("start", 0), num_cbits=qc.num_cbits)
        dst.add_circuit(qc, start=call.get("start", 0))
        return dst
    if op == "propagators":
        return qc.propagators(expand=call.get("expand", True), ignore_measurement=True)
    if op == "unitary":
        return qc.compute_unitary()
    if op == "schedule":
        sch = W.sched(call.get("method", "ASAP"))
        what = call.get("what", "circ")
        if what == "circ":
            return sch.schedule(qc)
        if what == "gates":
            return sch.schedule(W.gate_list(call["circ"]), gates_schedule=True)
        return sch.schedule(W.instr_list(call["circ"]), gates_schedule=call.get("gs", False))
    if op == "instr":
        gl = W.gate_list(call["circ"])
        if not gl:
            return None
        return Instruction(gl[call.get("k", 0) % len(gl)], duration=2.0)
    if op == "qasm":
        return circuit_to_qasm_str(qc)
    if op == "draw":
        buf = io.StringIO()
        with contextlib.redirect_stdout(buf):
            qc.draw("text")
        return buf.getvalue()
    if op == "compile":
        comp = W.comp(call["comp"])
        arg = qc if call.get("as", "circ") == "circ" else W.gate_list(call["circ"])
        res = comp.compile(arg, schedule_mode=call.get("sm"), args=copy.deepcopy(call.get("args")))
        return [res, comp.global_phase]
    if op == "load":
        proc = W.proc(call["proc"])
        kw = {}
        if call.get("comp") is not None:
            kw["compiler"] = W.comp(call["comp"])
        if call.get("sm", "ASAP") != "ASAP":
            kw["schedule_mode"] = call["sm"]
        res = proc.load_circuit(qc, **kw)
        # ... and what the processor holds afterwards (pulses as functions of time, phase, noise)
        return [res, getattr(proc, "global_phase", None), ["held", proc_state(proc)]]
    if op == "qobjevo":
        return W.proc(call["proc"]).get_qobjevo(noisy=call.get("noisy", False))
    if op == "noisy_pulses":
        ps = W.proc(call["proc"]).get_noisy_pulses(device_noise=call.get("dn", False), drift=call.get("drift", False))
        T = pulses_T(ps)
        return ["noisy-pulses", [pulse_snapshot(p, T) for p in ps]]
    if op == "run_analytically":
        proc = W.proc(call["proc"])
        st = None
        if call.get("state") is not None:
            st = proc.generate_init_processor_state(mk_state(call["state"], proc.num_qubits)) if hasattr(proc, "generate_init_processor_state") else None
        return proc.run_analytically(init_state=st)
    if op == "proc_pulses":
        proc = W.proc(call["proc"])
        proc.get_full_tlist()
        proc.get_full_coeffs()
        return ["held", proc_state(proc)]
    raise ValueError("unknown op " + op)


def proc_state(proc):
    """what a processor holds: pulses as functions of time, global phase, noise list."""
    T = pulses_T(proc.pulses)
    return [[pulse_snapshot(p, T) for p in proc.pulses], dump(getattr(proc, "global_phase", None)),
            [noise_snapshot(n) for n in proc.noise]]


def noise_snapshot(n):
    d = {}
    for k, v in vars(n).items():
        if k in ("t1", "t2"):
            # a scalar T and a constant list mean the same relaxation times
            if isinstance(v, (list, tuple, np.ndarray)) and len(v) and all(x == v[0] for x in v):
                v = v[0]
        d[k] = v
    return [type(n).__name__, dump(d)]


def service_snapshots(W):
    """state held by service objects that the property protects (processor pulses as functions of time)."""
    return {"proc%d" % k: proc_state(p) for k, p in W.procs.items()}


# ------------------------------------------------------------------------------------------------------
# running a history on the real code
# ------------------------------------------------------------------------------------------------------
def safe_call(W, call):
    try:
        return True, do_call(W, call)
    except Exception as e:  # any exception = rejected
        return False, "%s: %s" % (type(e).__name__, str(e)[:80])


def caller_copy(W):
    return (copy.deepcopy(W.circs), copy.deepcopy(W.cbits), copy.deepcopy(W.gate_lists), copy.deepcopy(W.instr_lists))


def fresh_replay(inp, saved, hist_so_far, call):
    """The same call on freshly constructed service objects, with caller data equal to the contents the shared
    caller objects had just BEFORE the call (argument mutation is reported separately).  Processor queries need
    the program the processor holds: the last load on that processor is replayed first (with a fresh compiler)."""
    circs, cbits, gls, ils = saved
    W2 = World(inp, circs=circs, cbits=cbits)
    W2.gate_lists.update(gls)
    W2.instr_lists.update(ils)
    if call["op"] in PROC_QUERIES:
        # every earlier load on that processor, in order (also those that raised: a load may store part of
        # the program before raising; a later successful load replaces everything)
        loads = [c for c in hist_so_far if c["op"] == "load" and c["proc"] == call["proc"]]
        oks = [i for i, c in enumerate(loads) if c.get("_ok")]
        loads = loads[(oks[-1] if oks else 0):]
        for c in loads:
            safe_call(W2, {k: v for k, v in c.items() if not k.startswith("_")})
    return safe_call(W2, call)


def run_history(inp, repeat=True, fresh=True):
    """Returns (observations per call, failures).  Observation of a call:
       ok, mutated roots, roots aliased by the result, aliases an earlier result, repeat-equal, fresh-equal,
       processor state changed by a query."""
    W = World(inp)
    obs = []
    fails = []
    # state outside the objects (module level, caches): a fresh compiler / processor created BEFORE the history must
    # behave like a fresh one created late in it
    early = {}
    if fresh:
        W0 = World(inp)
        saved0 = caller_copy(W0)
        for ci, call in enumerate(inp["calls"]):
            if call["op"] in ("compile", "load"):
                key = json.dumps(call, sort_keys=True)
                if key not in early:
                    ok0, res0 = fresh_replay(inp, copy.deepcopy(saved0), [], call)
                    early[key] = (ok0, canon(res0) if ok0 else res0)
    kept = []       # (call index, result, ids)
    dirty = set()   # caller roots changed so far in this history
    prev = None
    done = []
    for ci, call in enumerate(inp["calls"]):
        call = dict(call)
        if call.get("proc") is not None:
            W.proc(call["proc"])
        roots = W.roots()
        before = {k: dump(v) for k, v in roots.items()}
        svc_before = service_snapshots(W)
        root_ids = {k: mutable_ids(v) for k, v in roots.items()}
        saved = caller_copy(W) if fresh else None
        ok, res = safe_call(W, call)
        after = {k: dump(v) for k, v in roots.items()}
        svc_after = service_snapshots(W)
        mutated = sorted(k for k in before if before[k] != after[k])
        o = dict(ok=ok, mutated=mutated, alias=[], alias_prev=[], repeat_equal=None, fresh_equal=None, held_changed=[])
        call["_ok"] = ok
        what_call = {k: v for k, v in call.items() if not k.startswith("_")}
        for k in mutated:
            if call["op"] in EDIT_OPS and k == "circ%d" % call["circ"]:
                continue
            fails.append(dict(kind="arg-mutated", call_index=ci, call=what_call, root=k, before=before[k], after=after[k]))
        dirty_before = sorted(dirty)
        dirty.update(mutated)
        if call["op"] in PROC_QUERIES:
            for k in svc_before:
                if svc_before[k] != svc_after.get(k):
                    o["held_changed"].append(k)
                    fails.append(dict(kind="held-pulses-changed", call_index=ci, call=what_call, root=k,
                                      before=svc_before[k], after=svc_after.get(k)))
        if ok:
            rids = mutable_ids(res)
            for k, ids in root_ids.items():
                shared = sorted(set(rids) & set(ids))
                if shared:
                    o["alias"].append(k)
                    fails.append(dict(kind="result-aliases-arg", call_index=ci, call=what_call, root=k,
                                      shared=sorted(set(rids[s] for s in shared))))
            for (cj, rj, idj) in kept:
                shared = sorted(set(rids) & set(idj))
                if shared:
                    o["alias_prev"].append(cj)
                    fails.append(dict(kind="results-alias", call_index=ci, call=what_call, other_call_index=cj,
                                      other_call={k: v for k, v in inp["calls"][cj].items()},
                                      shared=sorted(set(rids[s] for s in shared)),
                                      via_roots=sorted(k for k, ids in root_ids.items() if set(shared) & set(ids))))
            kept.append((ci, res, rids))
            c1 = canon(res)
            if fresh:
                ok2, res2 = fresh_replay(inp, saved, done, what_call)
                c2 = canon(res2) if ok2 else None
                o["fresh_equal"] = bool(ok2 and c2 == c1)
                ekey = json.dumps(what_call, sort_keys=True)
                if ekey in early and not dirty and early[ekey][0] and ok2 and early[ekey][1] != c2:
                    fails.append(dict(kind="fresh-objects-differ", call_index=ci, call=what_call,
                                      early=_short(early[ekey][1]), late=_short(c2)))
                if not o["fresh_equal"]:
                    fails.append(dict(kind="used-differs-from-fresh", call_index=ci, call=what_call,
                                      observed=_short(c1), fresh=_short(c2) if ok2 else res2))
            if repeat and prev is not None and prev[0] == what_call:
                o["repeat_equal"] = bool(prev[1] == c1)
                if not o["repeat_equal"]:
                    fails.append(dict(kind="not-repeatable", call_index=ci, call=what_call, first=_short(prev[1]),
                                      second=_short(c1), dirty_roots=dirty_before))
            prev = (what_call, c1)
        else:
            o["error"] = res
            prev = None
            if fresh and call["op"] in SIM_OPS + PROC_QUERIES:
                # the used simulator / processor raised: a freshly constructed one (same circuit contents, same
                # program loaded) must raise as well
                ok2, res2 = fresh_replay(inp, saved, done, what_call)
                if ok2:
                    o["fresh_equal"] = False
                    fails.append(dict(kind="used-differs-from-fresh", call_index=ci, call=what_call,
                                      observed="raised " + str(res), fresh=_short(canon(res2))))
        done.append(call)
        obs.append(o)
    return obs, fails


def _short(x, n=400):
    s = json.dumps(x, default=str)
    return s if len(s) <= n else s[:n] + "..."


# ------------------------------------------------------------------------------------------------------
# model side: encoding of the world / history for Model/Heap.v
# ------------------------------------------------------------------------------------------------------
SWAP_LIKE = ("SWAP", "ISWAP", "SQRTISWAP", "SQRTSWAP", "BERKELEY", "SWAPalpha")


class HeapBuilder:
    def __init__(self):
        self.objs = []

    def alloc(self, fields):
        self.objs.append(fields)
        return "(Ref %d)" % (len(self.objs) - 1)

    @staticmethod
    def tok(n):
        return "(Tok %d)" % n

    def ints(self, lst):
        return self.alloc([self.tok(int(x)) for x in lst])

    def gate(self, g):
        T = self.tok
        if "M" in g:
            t = self.ints([g["M"]])
            return self.alloc([T(0), t, T(0), T(0), T(0), T(0 if g.get("store") is None else g["store"] + 1)])
        t = T(0) if g.get("t") is None else self.ints(g["t"])
        c = T(0) if g.get("c") is None else self.ints(g["c"])
        a = g.get("a")
        av = self.alloc([T(3), T(4)][:len(a)] + [T(5)] * max(0, len(a) - 2)) if isinstance(a, list) else T(0 if a is None else 6)
        cc = T(0) if g.get("cc") is None else self.ints(g["cc"])
        return self.alloc([T(1), t, c, av, cc, T(0)])

    def circuit(self, c):
        gl = self.alloc([self.gate(g) for g in c["gates"]])
        n = c["N"] + c.get("ncb", 0)
        ins = self.alloc([self.tok(0)] * n)
        outs = self.alloc([self.tok(0)] * n)
        return self.alloc([gl, self.tok(c["N"]), self.tok(c.get("ncb", 0)), ins, outs])

    def coq(self):
        return "[" + "; ".join("[" + "; ".join(o) + "]" for o in self.objs) + "]"


def chain_modes(circ, setup):
    """How to_chain_structure carries each gate into its output (read off chain.py): two-qubit gates it routes are
    rebuilt from fresh literals (0); with the circular layout a CNOT/CSIGN whose ends are the two ends of the register is
    re-added with the SAME targets / controls lists (2); every other gate object is appended as it is (1)."""
    N = circ["N"]
    out = []
    for g in circ["gates"]:
        name = g.get("name")
        if name in ("CNOT", "CSIGN"):
            s, e = sorted([g["t"][0], g["c"][0]])
            if setup == "circular" and (e - s) > N // 2 and (e - s) == N - 1:
                out.append(2)
            else:
                out.append(0)
        elif name in SWAP_LIKE:
            out.append(0)
        else:
            out.append(1)
    return out


# the documented alphabet of pulse shapes (GateCompiler.generate_pulse_shape): hann / hamming are evaluated
# analytically, the others are sampled scipy.signal windows; every shape keeps ONE num_samples so that the same
# (shape, num_samples) pair is used by several gates / calls / objects of a process
SHAPES = ["hann", "hamming", "boxcar", "triang", "blackman", "bartlett", "flattop", "parzen", "bohman",
          "blackmanharris", "nuttall", "barthann", "cosine"]
ARGS_MENU = [None] + [{"shape": sh, "num_samples": [8, 6, 5, 7, 11, 9, 13, 10, 12, 15, 14, 16, 17][i]} for i, sh in enumerate(SHAPES)]
STATE_IDS = {"gen": 1, "plus": 2}


def state_id(call):
    k = call.get("state", "gen")
    return (STATE_IDS[k] if k in STATE_IDS else 3 + int(k)) * 2 + (1 if call.get("dmstate") else 0)


def compiled_phase(inp, call):
    """value oracle for the model: does a FRESH compiler record a non-zero global phase for this circuit"""
    try:
        comp = mk_comp(inp["comps"][call["comp"]])
        comp.compile(mk_circuit(inp["circs"][call["circ"]]))
        return 1 if abs(comp.global_phase) > 1e-12 else 0
    except Exception:
        return 0


def transpiled_phase(inp, call):
    """value oracle for the model: does a FRESH processor (and compiler) record a non-zero global phase"""
    try:
        proc = mk_proc(dict(inp["procs"][call["proc"]], noise=[]))
        kw = {}
        if call.get("comp") is not None:
            kw["compiler"] = mk_comp(inp["comps"][call["comp"]])
        proc.load_circuit(mk_circuit(inp["circs"][call["circ"]]), **kw)
        gp = kw["compiler"].global_phase if kw else getattr(proc, "global_phase", 0.0)
        return 1 if abs(gp) > 1e-12 else 0
    except Exception:
        return 0


def encode(inp, oks):
    """-> (coq text of heap, roots, sims, comps, procs, calls, root names)"""
    hb = HeapBuilder()
    names, roots = [], []
    circ_ref = []
    for i, c in enumerate(inp["circs"]):
        r = hb.circuit(c)
        circ_ref.append(r)
        names.append("circ%d" % i)
        roots.append(r)
    cb_ref = []
    for i, b in enumerate(inp["cbits"]):
        r = hb.ints(b)
        cb_ref.append(r)
        names.append("cbits%d" % i)
        roots.append(r)
    gl_ref, gl_gates, il_ref = {}, {}, {}
    for ci in needed_lists(inp, "gates"):
        gs = [hb.gate(g) for g in inp["circs"][ci]["gates"]]
        gl_gates[ci] = gs
        gl_ref[ci] = hb.alloc(gs)
        names.append("gatelist%d" % ci)
        roots.append(gl_ref[ci])
    for ci in needed_lists(inp, "instrs"):
        ins = [hb.alloc([hb.gate(g), hb.tok(1), hb.tok(0)]) for g in inp["circs"][ci]["gates"]]
        il_ref[ci] = hb.alloc(ins)
        names.append("instrlist%d" % ci)
        roots.append(il_ref[ci])
    sims = ["mkSim %s %s (Tok 0) 0" % (circ_ref[s["circ"]], cbool(bool(s.get("dm")))) for s in inp.get("sims", [])]
    comps = ["mkComp 0 0 %d %d" % (k.get("args") or 0, k.get("args") or 0) for k in inp.get("comps", [])]
    procs = ["mkProc [] 0 %d %s [] 0" % (len(p.get("noise", [])), cbool(p.get("t1") is not None or p.get("t2") is not None))
             for p in inp.get("procs", [])]
    calls = []
    for call, ok in zip(inp["calls"], oks):
        op = call["op"]
        if not ok:
            calls.append("CRaise")
            continue
        qc = circ_ref[call["circ"]] if call.get("circ") is not None else None
        cb = cb_ref[call["cbits"]] if call.get("cbits") is not None else "(Tok 0)"
        mr = clist([str(int(x)) for x in call["mr"]]) if call.get("mr") is not None else "[]"
        if op == "sim_run":
            calls.append("CSimRun %d %s %d %s" % (call["sim"], cb, state_id(call), mr))
        elif op == "sim_stats":
            calls.append("CSimStats %d %s %d" % (call["sim"], cb, state_id(call)))
        elif op == "qc_run":
            calls.append("CQcRun %s %s %s %d %s" % (qc, cb, cbool(bool(call.get("dmstate"))), state_id(call), mr))
        elif op == "qc_stats":
            calls.append("CQcStats %s %s %s %d" % (qc, cb, cbool(bool(call.get("dmstate"))), state_id(call)))
        elif op == "resolve":
            calls.append("CResolve %s" % qc)
        elif op == "adjacent":
            calls.append("CAdjacent %s" % qc)
        elif op == "chain":
            calls.append("CChain %s %s" % (qc, clist([str(m) for m in chain_modes(inp["circs"][call["circ"]], call.get("setup", "linear"))])))
        elif op == "reverse":
            calls.append("CReverse %s" % qc)
        elif op == "add_circuit":
            calls.append("CAddCircuit %s" % qc)
        elif op in ("propagators", "unitary", "qasm", "draw"):
            calls.append("CReadOnly %s %d" % (qc, ["propagators", "unitary", "qasm", "draw"].index(op) + 1))
        elif op == "schedule":
            what = call.get("what", "circ")
            if what == "circ":
                calls.append("CSchedule %s true" % qc)
            elif what == "gates":
                calls.append("CSchedule %s false" % gl_ref[call["circ"]])
            else:
                calls.append("CSchedule %s false" % il_ref[call["circ"]])
        elif op == "instr":
            gs = gl_gates[call["circ"]]
            calls.append("CInstr %s" % gs[call.get("k", 0) % len(gs)] if gs else "CRaise")
        elif op == "compile":
            a = call.get("args")
            aid = 0 if a is None else 1 + ARGS_MENU.index(a)
            if call.get("as", "circ") == "circ":
                calls.append("CCompile %d %s true %d %d" % (call["comp"], qc, aid, compiled_phase(inp, call)))
            else:
                calls.append("CCompile %d %s false %d %d" % (call["comp"], gl_ref[call["circ"]], aid, compiled_phase(inp, call)))
        elif op == "load":
            p = inp["procs"][call["proc"]]
            ko = "None" if call.get("comp") is None else "(Some %d)" % call["comp"]
            if p["kind"] in ("linear", "circular"):
                ch = "(Some %s)" % clist([str(m) for m in chain_modes(inp["circs"][call["circ"]], p["kind"])])
            else:
                ch = "None"
            calls.append("CLoad %d %s %s %s %s %d" % (call["proc"], qc, ko, ch, cbool(p["kind"] in ("linear", "circular", "cqed")),
                                                     transpiled_phase(inp, call)))
        elif op == "qobjevo":
            calls.append("CQobjevo %d %s" % (call["proc"], cbool(bool(call.get("noisy")))))
        elif op == "noisy_pulses":
            calls.append("CNoisyPulses %d %s" % (call["proc"], cbool(bool(call.get("dn")))))
        elif op == "run_analytically":
            calls.append("CRunAnalytic %d" % call["proc"])
        elif op == "proc_pulses":
            calls.append("CHeld %d" % call["proc"])
        else:
            raise ValueError(op)
    return hb.coq(), roots, sims, comps, procs, calls, names


def coq_case(inp, oks):
    heap, roots, sims, comps, procs, calls, names = encode(inp, oks)
    w = "(mkWorld %s %s %s %s)" % (heap, clist(["(%s)" % s for s in sims]), clist(["(%s)" % s for s in comps]), clist(["(%s)" % s for s in procs]))
    return "Eval vm_compute in (observe_hist src_flags %s %s [] %s).\n" % (clist(roots), w, clist(["(%s)" % c if " " in c else c for c in calls])), names


def run_model_many(tag, items, chunk=60):
    """items: list of (inp, oks) -> list of per-call model observations (or None)"""
    files = []
    meta = []
    for k in range(0, len(items), chunk):
        body = "From Coq Require Import List.\nImport ListNotations.\nFrom QV Require Import Model.Heap Gen.Purity.\n"
        ns = []
        for inp, oks in items[k:k + chunk]:
            txt, names = coq_case(inp, oks)
            body += txt
            ns.append(names)
        files.append(("C16_%s_%d" % (tag, k // chunk), body))
        meta.append(ns)
    outs = coq_eval_many(files)
    res = []
    for (name, _), ns in zip(files, meta):
        vals = parse_evals(outs[name])
        if len(vals) != len(ns):
            raise Broken("coq-eval:" + name, "expected %d values, got %d" % (len(ns), len(vals)))
        for v, names in zip(vals, ns):
            per = []
            for o in v:
                if o is None:
                    per.append(None)
                    continue
                o = o[1] if isinstance(o, tuple) and o[0] == "Some" else o
                mut, al, aprev, fresh, held = o
                per.append(dict(mutated=sorted(names[i] for i in mut), alias=sorted(names[i] for i in al),
                                alias_prev=bool(aprev), fresh_equal=bool(fresh), held_changed=bool(held)))
            res.append(per)
    return res


# ------------------------------------------------------------------------------------------------------
# generators
# ------------------------------------------------------------------------------------------------------
def G(n, t=None, c=None, a=None, **k):
    d = dict(name=n, t=t, c=c, a=a)
    d.update(k)
    return d


ANG = [0.25, 0.5, 0.75, 1.25, -0.5, 1.0]


def gen_unitary_circ(rng, N, n):
    gs = []
    for _ in range(n):
        k = rng.choice(["SNOT", "X", "Y", "Z", "RX", "RY", "RZ", "CNOT", "CNOT", "CSIGN", "ISWAP", "SWAP", "SQRTISWAP", "S", "T"]
                       + (["TOFFOLI"] if N >= 3 else []))
        q = rng.sample(range(N), min(N, 3))
        if k in ("RX", "RY", "RZ"):
            gs.append(G(k, [q[0]], a=rng.choice(ANG)))
        elif k in ("CNOT", "CSIGN"):
            gs.append(G(k, [q[0]], [q[1]]))
        elif k in ("ISWAP", "SWAP", "SQRTISWAP"):
            gs.append(G(k, [q[0], q[1]]))
        elif k == "TOFFOLI":
            gs.append(G(k, [q[0]], [q[1], q[2]]))
        else:
            gs.append(G(k, [q[0]]))
    return dict(N=N, ncb=0, gates=gs, kind="unitary")


def gen_meas_circ(rng, N, n, ncb):
    gs = []
    for _ in range(n):
        r = rng.random()
        q = rng.sample(range(N), 2)
        if r < 0.35:
            gs.append({"M": q[0], "store": rng.choice(list(range(ncb)) + [None])})
        elif r < 0.55:
            cc = rng.sample(range(ncb), rng.choice([1, min(2, ncb)]))
            gs.append(G(rng.choice(["X", "Z", "SNOT"]), [q[0]], cc=cc, ccv=rng.choice([None, 0, 1])))
        elif r < 0.8:
            gs.append(G(rng.choice(["SNOT", "X", "RX"]), [q[0]], a=None) if rng.random() < 0.6 else G("RY", [q[0]], a=rng.choice(ANG)))
            if gs[-1]["name"] == "RX":
                gs[-1]["a"] = rng.choice(ANG)
        else:
            gs.append(G("CNOT", [q[0]], [q[1]]))
    if not any("M" in g for g in gs):
        gs.append({"M": 0, "store": 0})
    return dict(N=N, ncb=ncb, gates=gs, kind="meas")


def gen_native_circ(rng, N, n):
    gs = []
    for _ in range(n):
        k = rng.choice(["RX", "RZ", "ISWAP", "SQRTISWAP", "GLOBALPHASE", "RX", "RZ"])
        if k in ("RX", "RZ"):
            gs.append(G(k, [rng.randrange(N)], a=rng.choice(ANG)))
        elif k == "GLOBALPHASE":
            gs.append(G(k, a=rng.choice([0.25, 0.5])))
        else:
            i = rng.randrange(N - 1)
            gs.append(G(k, rng.choice([[i, i + 1], [i + 1, i]])))
    return dict(N=N, ncb=0, gates=gs, kind="native")


def gen_2q_circ(rng, N, n):
    gs = []
    for _ in range(n):
        k = rng.choice(["CNOT", "CSIGN", "SWAP", "ISWAP", "SQRTSWAP", "BERKELEY"])
        q = rng.sample(range(N), 2)
        gs.append(G(k, [q[0]], [q[1]]) if k in ("CNOT", "CSIGN") else G(k, [q[0], q[1]]))
    return dict(N=N, ncb=0, gates=gs, kind="2q")


def gen_listarg_circ(rng, N, n):
    gs = []
    for _ in range(n):
        k = rng.choice(["R", "QASMU", "CNOT", "RX", "SWAP"])
        q = rng.sample(range(N), 2)
        if k == "R":
            gs.append(G("R", [q[0]], a=[rng.choice(ANG), rng.choice(ANG)]))
        elif k == "QASMU":
            gs.append(G("QASMU", [q[0]], a=[rng.choice(ANG), rng.choice(ANG), rng.choice(ANG)]))
        elif k == "CNOT":
            gs.append(G(k, [q[0]], [q[1]]))
        elif k == "RX":
            gs.append(G(k, [q[0]], a=rng.choice(ANG)))
        else:
            gs.append(G(k, [q[1], q[0]]))
    if not any(isinstance(g.get("a"), list) for g in gs):
        gs.append(G("R", [0], a=[0.25, 0.5]))
    return dict(N=N, ncb=0, gates=gs, kind="listarg")


def gen_qasm_circ(rng, N, n):
    gs = []
    for _ in range(n):
        k = rng.choice(["X", "Y", "Z", "SNOT", "S", "T", "RX", "RY", "RZ", "CNOT", "SWAP", "CRZ", "M"] + (["TOFFOLI"] if N >= 3 else []))
        q = rng.sample(range(N), min(N, 3))
        if k == "M":
            gs.append({"M": q[0], "store": rng.randrange(2)})
        elif k in ("RX", "RY", "RZ"):
            gs.append(G(k, [q[0]], a=rng.choice(ANG)))
        elif k == "CNOT":
            gs.append(G(k, [q[0]], [q[1]]))
        elif k == "CRZ":
            gs.append(G(k, [q[0]], [q[1]], a=rng.choice(ANG)))
        elif k == "SWAP":
            gs.append(G(k, [q[0], q[1]]))
        elif k == "TOFFOLI":
            gs.append(G(k, [q[0]], [q[1], q[2]]))
        else:
            gs.append(G(k, [q[0]]))
    return dict(N=N, ncb=2, gates=gs, kind="qasm")


def gen_quiet_circ(rng, N):
    """a circuit that drives no pulse (empty / GLOBALPHASE only) or an identity-like one (zero-angle rotations)"""
    k = rng.choice(["empty", "phase", "phase", "phase2", "zero", "idle"])
    if k == "empty":
        gs = []
    elif k == "phase":
        gs = [G("GLOBALPHASE", a=rng.choice([0.25, 0.5, 1.0]))]
    elif k == "phase2":
        gs = [G("GLOBALPHASE", a=0.25), G("GLOBALPHASE", a=0.5)]
    elif k == "zero":
        gs = [G(rng.choice(["RX", "RZ"]), [rng.randrange(N)], a=0.0) for _ in range(rng.randint(1, 2))]
    else:
        gs = [G("GLOBALPHASE", a=0.5), G("RZ", [rng.randrange(N)], a=0.0)]
    return dict(N=N, ncb=0, gates=gs, kind="quiet")


def gen_bad_native_circ(rng, N):
    """native gates with one gate the compilers reject somewhere in the middle (or at an end): compile / load_circuit
    raise after part of the work has been done"""
    pre = gen_native_circ(rng, N, rng.randint(0, 3))["gates"]
    post = gen_native_circ(rng, N, rng.randint(0, 2))["gates"]
    q = rng.sample(range(N), 2)
    bad = rng.choice([G("CNOT", [q[0]], [q[1]]), G("SNOT", [q[0]]), G("CSIGN", [q[0]], [q[1]]), G("RY", [q[0]], a=0.5), G("SWAP", [q[0], q[1]])])
    return dict(N=N, ncb=0, gates=pre + [bad] + post, kind="bad-native")


CIRC_U, CIRC_M, CIRC_N, CIRC_2, CIRC_L, CIRC_Q, CIRC_E, CIRC_B = 0, 1, 2, 3, 4, 5, 6, 7


def gen_world(rng, procs_ok=True):
    N = rng.choice([2, 3, 3])
    ncb = 2
    circs = [gen_unitary_circ(rng, N, rng.randint(1, 5)), gen_meas_circ(rng, N, rng.randint(2, 5), ncb),
             gen_native_circ(rng, N, rng.randint(1, 5)), gen_2q_circ(rng, N, rng.randint(1, 3)),
             gen_listarg_circ(rng, N, rng.randint(1, 3)), gen_qasm_circ(rng, N, rng.randint(1, 5)), gen_quiet_circ(rng, N), gen_bad_native_circ(rng, N)]
    cbits = [[rng.randint(0, 1) for _ in range(ncb)], [rng.randint(0, 1) for _ in range(ncb)], [1], []]
    sims = [dict(circ=CIRC_M), dict(circ=CIRC_M, dm=True), dict(circ=CIRC_U)]
    procs = [dict(kind="linear", N=N), dict(kind="circular", N=N, t1=50.0, t2=30.0), dict(kind="cqed", N=N),
             dict(kind="linear", N=N, noise=[dict(kind="relax", t1=40.0, t2=20.0), dict(kind="amp")]),
             dict(kind="sc", N=N),
             # processors whose noise acts on "all pulses" (indices=None): the range depends on the program held
             dict(kind="linear", N=N, noise=[dict(kind="ampall")]),
             dict(kind="circular", N=N, noise=[dict(kind="randall"), dict(kind="relax", t1=40.0, t2=20.0), dict(kind="ampscalar")]),
             dict(kind="cqed", N=N, noise=[dict(kind="ampall"), dict(kind="randall")])]
    for p in procs[:3]:
        if rng.random() < 0.4:
            p["pm"] = "continuous"
    ns = len(SHAPES)
    comps = [dict(kind="spinchain", N=N), dict(kind="cqed", N=N),
             dict(kind="spinchain", N=N, args=1 + rng.randrange(ns)), dict(kind="cqed", N=N, args=1 + rng.randrange(ns)),
             dict(kind="scq", N=N, args=1 + rng.randrange(ns)), dict(kind="spinchain", N=N, setup="circular", args=1 + rng.randrange(ns))]
    return dict(circs=circs, cbits=cbits, sims=sims, procs=procs, comps=comps, calls=[])


def gen_call(rng, inp, family):
    r = rng.random
    if family == "sim":
        op = rng.choice(["sim_run", "sim_run", "sim_stats", "qc_run", "qc_stats"])
        cb = rng.choice([None, 0, 0, 1, 1, 2, 3])
        nm = sum(1 for g in inp["circs"][CIRC_M]["gates"] if "M" in g)
        mr = [rng.randint(0, 1) for _ in range(nm)] if r() < 0.8 else None
        st = rng.choice(["gen", "plus", 0, 1])
        if op == "sim_run":
            return dict(op=op, sim=rng.choice([0, 0, 1]), cbits=cb, mr=mr, state=st)
        if op == "sim_stats":
            return dict(op=op, sim=rng.choice([0, 0, 1]), cbits=cb, state=st)
        if op == "qc_run":
            return dict(op=op, circ=CIRC_M, cbits=cb, mr=mr, state=st, dmstate=r() < 0.25)
        return dict(op=op, circ=CIRC_M, cbits=cb, state=st, dmstate=r() < 0.25)
    if family == "pass":
        op = rng.choice(["resolve", "resolve", "adjacent", "chain", "chain", "reverse", "reverse", "add_circuit", "add_circuit",
                         "propagators", "unitary", "qasm", "draw", "sim_u"])
        if op == "resolve":
            return dict(op=op, circ=rng.choice([CIRC_U, CIRC_U, CIRC_2, CIRC_N]),
                        basis=rng.choice([["CNOT", "RX", "RY", "RZ"], "ISWAP", "CSIGN", "SQRTSWAP", ["ISWAP", "RX", "RZ"], ["CSIGN", "RY", "RX"], ["SQRTISWAP", "RZ", "RX"]]))
        if op == "adjacent":
            return dict(op=op, circ=CIRC_2)
        if op == "chain":
            return dict(op=op, circ=rng.choice([CIRC_U, CIRC_2, CIRC_N, CIRC_L]), setup=rng.choice(["linear", "circular"]))
        if op == "reverse":
            return dict(op=op, circ=rng.choice([CIRC_U, CIRC_M, CIRC_L, CIRC_2]))
        if op == "add_circuit":
            return dict(op=op, circ=rng.choice([CIRC_U, CIRC_M, CIRC_L, CIRC_L]), start=rng.choice([0, 0, 1]))
        if op == "propagators":
            return dict(op=op, circ=rng.choice([CIRC_U, CIRC_M, CIRC_L]), expand=r() < 0.6)
        if op == "unitary":
            return dict(op=op, circ=rng.choice([CIRC_U, CIRC_2, CIRC_L]))
        if op == "qasm":
            return dict(op=op, circ=rng.choice([CIRC_Q, CIRC_Q, CIRC_Q, CIRC_U, CIRC_M]))
        if op == "draw":
            return dict(op=op, circ=rng.choice([CIRC_U, CIRC_M, CIRC_2, CIRC_L, CIRC_Q]))
        return dict(op="sim_run", sim=2, cbits=None, mr=None, state=rng.choice(["gen", "plus"]))
    if family == "sched":
        op = rng.choice(["schedule", "schedule", "schedule", "instr", "compile", "compile"])
        if op == "schedule":
            return dict(op=op, circ=rng.choice([CIRC_U, CIRC_2, CIRC_N]), what=rng.choice(["circ", "gates", "instrs", "instrs"]),
                        method=rng.choice(["ASAP", "ALAP"]), gs=r() < 0.3)
        if op == "instr":
            return dict(op=op, circ=rng.choice([CIRC_U, CIRC_2, CIRC_L]), k=rng.randrange(5))
        comp = rng.choice([0, 0, 1, 2, 2, 2, 5, 5, 3])
        # (the cavity-QED compiler raises TypeError for shaped two-qubit gates: shapes are mostly given to the spin-chain compilers)
        args = rng.choice([None, None, None] + ARGS_MENU[1:]) if (comp not in (1, 3) or r() < 0.2) else None
        if r() < 0.2:
            # a call the compiler rejects part-way (unsupported gate), with per-call args: it must leave the compiler as it was
            return dict(op="compile", comp=comp, circ=CIRC_B, sm=rng.choice([None, "ASAP"]),
                        args=rng.choice([None] + ARGS_MENU[1:] * 2), **{"as": rng.choice(["circ", "gates"])})
        return dict(op="compile", comp=comp, circ=CIRC_N, sm=rng.choice([None, "ASAP", "ALAP"]), args=args, **{"as": rng.choice(["circ", "gates"])})
    # processors
    p = rng.choice(inp["_procs"])
    kind = inp["procs"][p]["kind"]
    op = rng.choice(["load", "load", "qobjevo", "qobjevo", "noisy_pulses", "run_analytically", "proc_pulses"])
    if op == "load":
        comp = None
        if r() < 0.6:
            comp = rng.choice({"linear": [0, 2, 2], "circular": [5], "cqed": [1, 3, 3], "sc": [4]}[kind])
        return dict(op=op, proc=p, circ=rng.choice([CIRC_U, CIRC_N, CIRC_U, CIRC_N, CIRC_2, CIRC_E, CIRC_E]), comp=comp, sm=rng.choice(["ASAP", "ASAP", "ALAP", None]))
    if op == "qobjevo":
        return dict(op=op, proc=p, noisy=r() < 0.6)
    if op == "noisy_pulses":
        return dict(op=op, proc=p, dn=r() < 0.6, drift=r() < 0.5)
    if op == "run_analytically":
        if kind == "sc":
            return dict(op="proc_pulses", proc=p)
        return dict(op=op, proc=p, state=rng.choice([None, 0, "plus"]))
    return dict(op=op, proc=p)


def gen_history(rng, maxlen=8, family=None):
    inp = gen_world(rng)
    family = family or rng.choice(["sim", "sim", "pass", "pass", "sched", "proc", "proc", "mixed"])
    inp["_procs"] = [rng.choice([0, 1, 2, 3, 3, 4])] if family != "mixed" else [rng.choice([0, 3])]
    n = rng.randint(2, maxlen)
    calls = []
    if family in ("proc",):
        kind0 = inp["procs"][inp["_procs"][0]]["kind"]
        calls.append(dict(op="load", proc=inp["_procs"][0], circ=rng.choice([CIRC_U, CIRC_N]),
                          comp=(rng.choice({"linear": [0, 2], "circular": [5], "cqed": [1, 3], "sc": [4]}[kind0]) if rng.random() < 0.5 else None), sm="ASAP"))
    if family == "pass" and len(inp["circs"][CIRC_Q]["gates"]) % 2 == 0:
        calls += [dict(op="qasm", circ=CIRC_Q), dict(op="qasm", circ=CIRC_Q)]      # (no random draw: keeps the stream of the other histories)
        n = max(n, len(calls) + 1)
    if family == "sched" and rng.random() < 0.5:
        # ordinary call, REJECTED call with per-call args (caught), the same ordinary call again
        c0 = rng.choice([0, 1, 2, 3, 5])
        good = dict(op="compile", comp=c0, circ=CIRC_N, sm=rng.choice([None, "ASAP"]), args=None, **{"as": "circ"})
        bad = dict(op="compile", comp=c0, circ=rng.choice([CIRC_B, CIRC_B, CIRC_U]), sm=good["sm"], args=rng.choice(ARGS_MENU[1:]), **{"as": rng.choice(["circ", "gates"])})
        calls += [dict(good), bad, dict(good)]
        n = max(n, len(calls) + 1)
    if family == "proc" and rng.random() < 0.3:
        # a load the processor rejects, between two ordinary loads
        p0 = inp["_procs"][0]
        calls += [dict(op="load", proc=p0, circ=rng.choice([CIRC_B, CIRC_L]), comp=None, sm="ASAP"), dict(op="load", proc=p0, circ=CIRC_N, comp=None, sm="ASAP"),
                  dict(op="proc_pulses", proc=p0)]
        n = max(n, len(calls))
    if family == "proc" and rng.random() < 0.6:
        # reuse of the processor for a circuit that drives no pulse, then inspection of what it holds
        p0 = inp["_procs"][0]
        kind0 = inp["procs"][p0]["kind"]
        if rng.random() < 0.3:
            calls.append(dict(op="load", proc=p0, circ=rng.choice([CIRC_U, CIRC_N]), comp=None, sm=rng.choice(["ASAP", "ALAP"])))
        calls.append(dict(op="load", proc=p0, circ=CIRC_E, comp=(0 if kind0 == "linear" and rng.random() < 0.3 else None), sm="ASAP"))
        q = rng.choice(["run_analytically", "proc_pulses", "qobjevo", "noisy_pulses"])
        if q == "run_analytically" and kind0 == "sc":
            q = "proc_pulses"
        calls.append(dict(op="qobjevo", proc=p0, noisy=rng.random() < 0.5) if q == "qobjevo" else
                     dict(op="noisy_pulses", proc=p0, dn=True, drift=False) if q == "noisy_pulses" else dict(op=q, proc=p0))
        n = max(n, len(calls))
    while len(calls) < n:
        fam = family if family != "mixed" else rng.choice(["sim", "pass", "sched", "proc"])
        c = gen_call(rng, inp, fam)
        calls.append(c)
        if rng.random() < 0.4 and len(calls) < n:
            calls.append(dict(c))
    inp["calls"] = calls[:maxlen]
    inp["family"] = family
    del inp["_procs"]
    return inp


NOISY_PROCS = (5, 6, 7, 3)


def gen_reuse_history(rng, maxlen=8):
    """One processor that carries Noise objects, observed WITH noise, re-loaded with circuits that drive a different
    number of pulses, observed again (used-equals-fresh, repeat and held-state oracles of run_history)."""
    inp = gen_world(rng)
    p = rng.choice(NOISY_PROCS)
    kind = inp["procs"][p]["kind"]

    def obs():
        k = rng.random()
        if k < 0.5:
            return dict(op="qobjevo", proc=p, noisy=True)
        if k < 0.9:
            return dict(op="noisy_pulses", proc=p, dn=rng.random() < 0.5, drift=rng.random() < 0.3)
        return dict(op="qobjevo", proc=p, noisy=False)
    order = [CIRC_U, CIRC_N, CIRC_2, CIRC_E, CIRC_N, CIRC_U]
    rng.shuffle(order)
    calls = []
    last = None
    for ci in order:
        if ci == last:
            continue
        last = ci
        comp = None
        if rng.random() < 0.25:
            comp = rng.choice({"linear": [0, 2], "circular": [5], "cqed": [1], "sc": [4]}[kind])
        calls.append(dict(op="load", proc=p, circ=ci, comp=comp, sm=rng.choice(["ASAP", "ASAP", "ALAP"])))
        calls.append(obs())
        if rng.random() < 0.3:
            calls.append(dict(calls[-1]))
    inp["calls"] = calls[:maxlen]
    inp["family"] = "reuse"
    return inp


def gen_edit_history(rng, maxlen=8):
    """A CircuitSimulator kept while the circuit it was built on is edited (measurement / gate added or removed)
    between its construction (or an earlier use) and run / run_statistics: it must answer like a fresh simulator
    built on the circuit as it is now."""
    inp = gen_world(rng)
    si = rng.choice([0, 1, 2, 2])
    ci = inp["sims"][si]["circ"]
    N = inp["circs"][ci]["N"]
    ncb = inp["circs"][ci].get("ncb", 0)
    if ncb == 0 and rng.random() < 0.7:
        inp["circs"][ci]["ncb"] = ncb = 2
    nm = sum(1 for g in inp["circs"][ci]["gates"] if "M" in g)
    ng = len(inp["circs"][ci]["gates"])
    kinds = ["M" if "M" in g else "G" for g in inp["circs"][ci]["gates"]]

    def use():
        st = rng.choice(["gen", "plus", 0, 1])
        k = rng.random()
        if k < 0.55:
            return dict(op="sim_stats", sim=si, cbits=None, state=st)
        if k < 0.85:
            return dict(op="sim_run", sim=si, cbits=None, state=st, mr=[rng.randint(0, 1) for _ in range(nm)])
        return dict(op="qc_stats", circ=ci, cbits=None, state=st, dmstate=False)
    calls = [dict(op="sim_make", sim=si)] if rng.random() < 0.5 else [use()]
    while len(calls) < maxlen - 1:
        k = rng.random()
        if k < 0.5:
            calls.append(dict(op="add_meas", circ=ci, t=rng.randrange(N), store=(rng.randrange(ncb) if ncb and rng.random() < 0.8 else None)))
            nm += 1
            ng += 1
            kinds.append("M")
        elif k < 0.7:
            calls.append(dict(op="add_gate", circ=ci, name=rng.choice(["SNOT", "X", "Y"]), t=rng.randrange(N)))
            ng += 1
            kinds.append("G")
        elif k < 0.8 and ng > 1:
            j = rng.randrange(ng)
            calls.append(dict(op="pop_gate", circ=ci, k=j))
            if kinds.pop(j) == "M":
                nm -= 1
            ng -= 1
        else:
            continue
        calls.append(use())
        if rng.random() < 0.35:
            calls.append(dict(calls[-1]))
    inp["calls"] = calls[:maxlen]
    inp["family"] = "edit"
    return inp


def has_edit(inp):
    return any(c["op"] in EDIT_OPS or c["op"] == "sim_make" for c in inp["calls"])


def key_of(inp):
    return json.dumps([inp["circs"], inp["cbits"], inp["calls"]], sort_keys=True)


def load_corpus():
    d = os.path.join(VERIF, "corpus", "C16")
    out = []
    if os.path.isdir(d):
        for f in sorted(os.listdir(d)):
            if f.endswith(".json"):
                rec = json.load(open(os.path.join(d, f)))
                out.append(rec.get("input", rec))
    return out


# ------------------------------------------------------------------------------------------------------
# generate / correspond
# ------------------------------------------------------------------------------------------------------
def generate(ctx):
    sys_path = os.path.join(VERIF, "tools", "translate")
    import importlib.util
    spec = importlib.util.spec_from_file_location("purity_tr", os.path.join(sys_path, "purity_tr.py"))
    mod = importlib.util.module_from_spec(spec)
    spec.loader.exec_module(mod)
    F = mod.generate()
    ctx.notes.append("flags extracted from the sources: " + ", ".join("%s=%d" % (k, F[k]) for k in mod.ORDER))
    ctx.notes.append("obligations outside the flags record: " + "; ".join("%s=%d <- %s" % (k, v, mod.WHERE.get(k, "?")) for k, v in mod.EXTRA.items()))
    ctx.notes.append("source line each flag was read from: " + "; ".join("%s <- %s" % (k, mod.WHERE.get(k, "?")) for k in mod.ORDER))
    ctx.flags = F


def _work(inp):
    try:
        obs, fails = run_history(inp)
        return obs, fails, None
    except Exception as e:  # harness problem, reported as such
        import traceback
        return None, None, traceback.format_exc()[-1500:]


def run_many(inps):
    import multiprocessing as mp
    from common import NCPU
    if len(inps) <= 2:
        return [_work(i) for i in inps]
    ctxm = mp.get_context("fork")
    with ctxm.Pool(min(NCPU, 14)) as pool:
        return pool.map(_work, inps, chunksize=2)


WHAT = {
    "arg-mutated": "an operation changed an object passed in by the caller",
    "result-aliases-arg": "a returned result shares a mutable object with the caller's data",
    "results-alias": "results of different calls share a mutable object",
    "not-repeatable": "repeating the same call on the same objects returned a different result",
    "used-differs-from-fresh": "a used simulator / compiler / processor behaves differently from a freshly constructed one",
    "held-pulses-changed": "a query changed the control pulses a processor holds (as functions of time)",
    "fresh-objects-differ": "a freshly constructed compiler / processor created late in the history behaves differently from one created first (state outside the objects)",
}


def fail_record(inp, f):
    return dict(input=dict(inp, focus=f.get("call_index")), observed=jsonable_fail(f), expected="pure, repeatable, unaliased",
                what=WHAT[f["kind"]] + " [" + f["call"]["op"] + "]")


def jsonable_fail(f):
    out = {}
    for k, v in f.items():
        if k in ("before", "after"):
            out[k] = _short(v, 300)
        else:
            out[k] = v
    return out


def compare(inp, obs, model, corr):
    """model prediction vs observation, per call"""
    n_dis = 0
    for ci, (o, m) in enumerate(zip(obs, model)):
        if m is None:
            corr.disagree(inp, o, None, "model history stopped (error value) at call %d" % ci)
            return
        if not o["ok"]:
            continue
        # whether a classical-bit list passed to a run changes is value dependent (outcomes, zero-probability
        # branches stop a run early): not compared; the oracle reports every such change
        c = inp["calls"][ci]
        skip = {"cbits%d" % c["cbits"]} if (c["op"] in RUN_OPS and c.get("cbits") is not None) else set()
        bad = []
        if set(o["mutated"]) - skip != set(m["mutated"]) - skip:
            bad.append("mutated")
        # a result holds the classical-bit lists of the SURVIVING branches only (zero-probability branches are
        # dropped): for the list passed by the caller the model's "aliased" is an upper bound
        if set(o["alias"]) - skip != set(m["alias"]) - skip or not (set(o["alias"]) & skip) <= set(m["alias"]):
            bad.append("alias")
        if (bool(o["alias_prev"]) != m["alias_prev"]) if not skip else (bool(o["alias_prev"]) and not m["alias_prev"]):
            bad.append("alias_prev")
        if m["fresh_equal"] and o["fresh_equal"] is False:
            bad.append("fresh_equal")
        if bool(o["held_changed"]) != m["held_changed"]:
            bad.append("held")
        if not m["fresh_equal"] and o["fresh_equal"]:
            corr.tally("model-may-differ-but-equal")
        if bad:
            corr.disagree(dict(inp, focus=ci), dict(o, call=inp["calls"][ci]), m,
                          "Heap model vs observed sharing/mutation (%s) [%s]" % (",".join(bad), inp["calls"][ci]["op"]))
            return


def nontrivial(inp, obs):
    """a history is non-trivial when at least two successful calls touch the same shared object"""
    seen = {}
    for c, o in zip(inp["calls"], obs):
        if not o["ok"]:
            continue
        for k in ("circ", "sim", "proc", "comp", "cbits"):
            if c.get(k) is not None:
                seen[(k, c[k])] = seen.get((k, c[k]), 0) + 1
    return any(v >= 2 for v in seen.values())


TARGETED = None


def targeted_histories():
    """small fixed histories that exercise every flag-dependent branch of the model"""
    cu = dict(N=3, ncb=0, kind="unitary", gates=[G("SNOT", [0]), G("CNOT", [2], [0]), G("RZ", [1], a=0.25), G("X", [1]), G("ISWAP", [2, 0])])
    cm = dict(N=3, ncb=2, kind="meas", gates=[G("SNOT", [0]), {"M": 0, "store": 0}, G("X", [1], cc=[0]), {"M": 1, "store": 1}, G("RX", [2], a=0.5)])
    cn = dict(N=3, ncb=0, kind="native", gates=[G("RX", [0], a=0.5), G("GLOBALPHASE", a=0.25), G("RZ", [2], a=0.25), G("ISWAP", [2, 1]), G("SQRTISWAP", [0, 1])])
    c2 = dict(N=3, ncb=0, kind="2q", gates=[G("CNOT", [2], [0]), G("ISWAP", [2, 0]), G("SWAP", [2, 0])])
    cl = dict(N=3, ncb=0, kind="listarg", gates=[G("R", [1], a=[0.25, 0.5]), G("CNOT", [1], [0]), G("SWAP", [1, 0])])
    cq = dict(N=3, ncb=2, kind="qasm", gates=[G("X", [0]), G("CNOT", [1], [0]), G("CRZ", [1], [0], a=0.25), G("SWAP", [0, 2]), G("TOFFOLI", [2], [0, 1]),
                                              G("S", [1]), G("T", [2]), G("RX", [0], a=0.5), {"M": 0, "store": 0}])
    ce = dict(N=3, ncb=0, kind="quiet", gates=[G("GLOBALPHASE", a=0.25)])
    cz = dict(N=3, ncb=0, kind="quiet", gates=[])
    c0 = dict(N=3, ncb=0, kind="quiet", gates=[G("RX", [0], a=0.0), G("RZ", [1], a=0.0)])
    cb = dict(N=3, ncb=0, kind="bad-native", gates=[G("RX", [0], a=0.5), G("GLOBALPHASE", a=0.25), G("CNOT", [1], [0]), G("RZ", [2], a=0.25)])
    base = dict(circs=[cu, cm, cn, c2, cl, cq, ce, cz, c0, cb], cbits=[[0, 0], [1, 0], [1], []],
                sims=[dict(circ=1), dict(circ=1, dm=True), dict(circ=0)],
                procs=[dict(kind="linear", N=3), dict(kind="circular", N=3, t1=50.0, t2=30.0), dict(kind="cqed", N=3),
                       dict(kind="linear", N=3, noise=[dict(kind="relax", t1=40.0, t2=20.0), dict(kind="amp")]), dict(kind="sc", N=3),
                       dict(kind="linear", N=3, noise=[dict(kind="ampall")]),
                       dict(kind="circular", N=3, noise=[dict(kind="randall"), dict(kind="relax", t1=40.0, t2=20.0), dict(kind="ampscalar")]),
                       dict(kind="cqed", N=3, noise=[dict(kind="ampall"), dict(kind="randall")])],
                comps=[dict(kind="spinchain", N=3), dict(kind="cqed", N=3),
                       dict(kind="spinchain", N=3, args=1 + SHAPES.index("blackman")), dict(kind="cqed", N=3, args=1 + SHAPES.index("triang")),
                       dict(kind="scq", N=3, args=1 + SHAPES.index("parzen")), dict(kind="spinchain", N=3, setup="circular", args=1 + SHAPES.index("flattop"))])

    def H(fam, *calls):
        d = dict(base)
        d["calls"] = [dict(c) for c in calls]
        d["family"] = fam
        return d
    A1, A2 = ARGS_MENU[1], ARGS_MENU[2]
    return [
        H("sim", dict(op="sim_run", sim=0, cbits=0, mr=[1, 1]), dict(op="sim_run", sim=0, cbits=0, mr=[1, 1]), dict(op="sim_run", sim=0, cbits=None, mr=[0, 1]),
          dict(op="sim_run", sim=0, cbits=None, mr=[0, 1]), dict(op="sim_stats", sim=0, cbits=1), dict(op="sim_stats", sim=0), dict(op="sim_stats", sim=0), dict(op="sim_run", sim=0, cbits=2)),
        H("sim", dict(op="qc_run", circ=1, cbits=0, mr=[1, 1]), dict(op="qc_stats", circ=1, cbits=1), dict(op="qc_stats", circ=1), dict(op="qc_run", circ=1, state="plus", dmstate=True),
          dict(op="sim_stats", sim=1, cbits=1), dict(op="unitary", circ=0), dict(op="propagators", circ=0), dict(op="sim_run", sim=0, cbits=3, mr=[1, 0])),
        H("pass", dict(op="resolve", circ=0, basis=["CNOT", "RX", "RY", "RZ"]), dict(op="resolve", circ=0, basis="ISWAP"), dict(op="resolve", circ=0, basis="ISWAP"), dict(op="adjacent", circ=3),
          dict(op="chain", circ=0), dict(op="chain", circ=3, setup="circular"), dict(op="reverse", circ=0), dict(op="reverse", circ=1)),
        H("pass", dict(op="add_circuit", circ=0, start=1), dict(op="add_circuit", circ=4), dict(op="add_circuit", circ=4), dict(op="draw", circ=1), dict(op="draw", circ=0),
          dict(op="chain", circ=4, setup="circular"), dict(op="reverse", circ=4), dict(op="propagators", circ=4, expand=False)),
        H("sched", dict(op="schedule", circ=0, what="circ"), dict(op="schedule", circ=0, what="gates", method="ALAP"), dict(op="schedule", circ=0, what="instrs"),
          dict(op="schedule", circ=0, what="instrs", method="ALAP"), dict(op="schedule", circ=0, what="instrs", gs=True), dict(op="instr", circ=3, k=1), dict(op="instr", circ=3, k=1), dict(op="instr", circ=0, k=4)),
        H("sched", dict(op="compile", comp=0, circ=2), dict(op="compile", comp=0, circ=2), dict(op="compile", comp=0, circ=2, sm="ASAP", args=A1), dict(op="compile", comp=0, circ=2, sm="ASAP"),
          dict(op="compile", comp=1, circ=2, **{"as": "gates"}), dict(op="compile", comp=1, circ=2, **{"as": "gates"}), dict(op="compile", comp=1, circ=2, args=A2), dict(op="compile", comp=1, circ=2)),
        H("proc", dict(op="load", proc=0, circ=0), dict(op="load", proc=0, circ=0), dict(op="run_analytically", proc=0), dict(op="qobjevo", proc=0), dict(op="proc_pulses", proc=0),
          dict(op="qobjevo", proc=0, noisy=True), dict(op="run_analytically", proc=0), dict(op="load", proc=0, circ=2)),
        H("proc", dict(op="load", proc=0, circ=0, comp=0), dict(op="load", proc=0, circ=0, comp=0), dict(op="run_analytically", proc=0), dict(op="load", proc=0, circ=2, comp=0),
          dict(op="load", proc=2, circ=0, comp=1), dict(op="load", proc=2, circ=0, comp=1), dict(op="run_analytically", proc=2, state=0)),
        H("proc", dict(op="load", proc=1, circ=0), dict(op="noisy_pulses", proc=1, dn=True, drift=True), dict(op="noisy_pulses", proc=1, dn=True, drift=True), dict(op="qobjevo", proc=1, noisy=True),
          dict(op="qobjevo", proc=1, noisy=True), dict(op="proc_pulses", proc=1), dict(op="run_analytically", proc=1, state=0), dict(op="load", proc=1, circ=3)),
        H("proc", dict(op="load", proc=3, circ=0), dict(op="noisy_pulses", proc=3, dn=True), dict(op="noisy_pulses", proc=3, dn=True), dict(op="qobjevo", proc=3, noisy=True),
          dict(op="qobjevo", proc=3, noisy=True), dict(op="noisy_pulses", proc=3), dict(op="proc_pulses", proc=3), dict(op="qobjevo", proc=3)),
        H("proc", dict(op="load", proc=4, circ=3), dict(op="qobjevo", proc=4, noisy=True), dict(op="qobjevo", proc=4, noisy=True), dict(op="proc_pulses", proc=4), dict(op="load", proc=4, circ=3)),
    ] + [
        # compilers configured with scipy-window pulse shapes: compile/compile, then compile(args=) with further shapes
        H("sched", dict(op="compile", comp=c, circ=2), dict(op="compile", comp=c, circ=2), dict(op="compile", comp=c, circ=2, sm="ASAP"),
          dict(op="compile", comp=c, circ=2, sm="ASAP"), dict(op="compile", comp=0, circ=2, args=ARGS_MENU[a]), dict(op="compile", comp=0, circ=2, args=ARGS_MENU[a]),
          dict(op="compile", comp=1, circ=2, args=ARGS_MENU[a + 1]), dict(op="compile", comp=1, circ=2, args=ARGS_MENU[a + 1]))
        for c, a in ((2, 3), (3, 5), (5, 7), (2, 9), (3, 11), (2, 12))
    ] + [
        # exports and drawings repeated (module-level tables must not be changed by an export)
        H("pass", dict(op="qasm", circ=5), dict(op="qasm", circ=5), dict(op="draw", circ=5), dict(op="draw", circ=5), dict(op="qasm", circ=5),
          dict(op="propagators", circ=5), dict(op="qasm", circ=5), dict(op="reverse", circ=5)),
    ] + [
        # a REJECTED compile (unsupported gate in the middle, per-call args) between identical ordinary calls, then a rejected load
        H("sched", dict(op="compile", comp=c, circ=2), dict(op="compile", comp=c, circ=9, args=ARGS_MENU[a]), dict(op="compile", comp=c, circ=2),
          dict(op="compile", comp=c, circ=0, args=ARGS_MENU[a + 1], **{"as": "gates"}), dict(op="compile", comp=c, circ=2), dict(op="compile", comp=c, circ=2, sm="ASAP"),
          dict(op="compile", comp=c, circ=9, sm="ASAP", args=ARGS_MENU[a + 2]), dict(op="compile", comp=c, circ=2, sm="ASAP"))
        for c, a in ((0, 1), (1, 4), (2, 6), (5, 9))
    ] + [
        H("proc", dict(op="load", proc=p, circ=2, comp=c), dict(op="load", proc=p, circ=9, comp=c), dict(op="load", proc=p, circ=2, comp=c), dict(op="proc_pulses", proc=p),
          dict(op="load", proc=p, circ=4), dict(op="load", proc=p, circ=2), dict(op="proc_pulses", proc=p))
        for p, c in ((0, 2), (0, 0), (1, 5), (2, 3), (2, 1))
    ] + [
        # load/load with a shaped user compiler on every model processor, then inspection
        H("proc", dict(op="load", proc=p, circ=ci, comp=c), dict(op="load", proc=p, circ=ci, comp=c), dict(op="proc_pulses", proc=p),
          dict(op="load", proc=p, circ=2 if p != 4 else ci, comp=c), dict(op="qobjevo", proc=p), dict(op="load", proc=p, circ=ci, comp=c), dict(op="proc_pulses", proc=p))
        for p, c, ci in ((0, 2, 0), (1, 5, 0), (2, 3, 0), (3, 2, 2), (4, 4, 0))
    ] + [
        # a processor reused for a circuit that drives no pulse (GLOBALPHASE only / empty / zero-angle rotations)
        H("proc", dict(op="load", proc=p, circ=0), dict(op="load", proc=p, circ=6), dict(op=q1, proc=p), dict(op="proc_pulses", proc=p),
          dict(op="load", proc=p, circ=2), dict(op="load", proc=p, circ=7), dict(op="proc_pulses", proc=p), dict(op="qobjevo", proc=p))
        for p, q1 in ((0, "run_analytically"), (1, "run_analytically"), (2, "run_analytically"), (3, "run_analytically"), (4, "proc_pulses"))
    ] + [
        H("proc", dict(op="load", proc=p, circ=2), dict(op="load", proc=p, circ=8), dict(op="proc_pulses", proc=p), dict(op="load", proc=p, circ=6, **kw),
          dict(op="load", proc=p, circ=6, **kw), dict(op="proc_pulses", proc=p), dict(op="noisy_pulses", proc=p, dn=True))
        for p, kw in ((0, dict(comp=0)), (1, {}), (2, dict(comp=1)), (4, {}))
    ] + [
        # a processor with "all pulses" noise observed with noise, re-loaded with more / fewer pulses, observed again
        H("reuse", dict(op="load", proc=p, circ=6), dict(op=q, proc=p, **kw), dict(op="load", proc=p, circ=2), dict(op=q, proc=p, **kw),
          dict(op="load", proc=p, circ=8), dict(op=q, proc=p, **kw), dict(op="load", proc=p, circ=0), dict(op=q, proc=p, **kw))
        for p, q, kw in ((5, "qobjevo", dict(noisy=True)), (5, "noisy_pulses", dict(dn=True)), (6, "qobjevo", dict(noisy=True)), (7, "noisy_pulses", dict(dn=True)))
    ] + [
        # a simulator kept across edits of its circuit
        H("edit", dict(op="sim_make", sim=2), dict(op="add_meas", circ=0, t=0, store=None), dict(op="sim_stats", sim=2), dict(op="sim_stats", sim=2),
          dict(op="add_meas", circ=0, t=1, store=None), dict(op="sim_stats", sim=2), dict(op="sim_run", sim=2, mr=[1, 0]), dict(op="qc_stats", circ=0)),
        H("edit", dict(op="sim_stats", sim=0), dict(op="add_meas", circ=1, t=2, store=1), dict(op="sim_stats", sim=0), dict(op="sim_run", sim=0, mr=[0, 1, 1]),
          dict(op="pop_gate", circ=1, k=5), dict(op="sim_stats", sim=0), dict(op="add_gate", circ=1, name="SNOT", t=2), dict(op="sim_stats", sim=0)),
        H("edit", dict(op="sim_stats", sim=1, state="plus"), dict(op="add_gate", circ=1, name="X", t=0), dict(op="add_meas", circ=1, t=0, store=0),
          dict(op="sim_stats", sim=1, state="plus"), dict(op="sim_stats", sim=1, state="plus")),
    ]


def correspond(ctx):
    corr = Corr(rule="at least two successful calls of the history use the same shared circuit / cbits list / simulator / compiler / processor")
    rng = ctx.rng
    inps = []
    for inp in load_corpus():
        inps.append(("corpus", inp))
    for inp in targeted_histories():
        inps.append(("targeted", inp))
    fams = ["sim"] * 3 + ["pass"] * 3 + ["sched"] * 2 + ["proc"] * 2 + ["mixed"] * 2
    for i in range(ctx.n(180, 1500)):
        inps.append(("random", gen_history(rng, 8, family=fams[i % len(fams)])))
    for i in range(ctx.n(10, 150)):
        inps.append(("random", gen_reuse_history(rng, 8)))
    for i in range(ctx.n(16, 200)):
        inps.append(("random", gen_edit_history(rng, 8)))
    reals = run_many([i for _, i in inps])
    items = []
    for (kind, inp), (obs, fails, err) in zip(inps, reals):
        if err is not None:
            raise Broken("correspondence-harness:C16", err)
        if not has_edit(inp):
            items.append((inp, [o["ok"] for o in obs]))
    models_it = iter(run_model_many(ctx.tier, items))
    n_calls = 0
    for (kind, inp), (obs, fails, err) in zip(inps, reals):
        model = None if has_edit(inp) else next(models_it)
        corr.tally(kind)
        corr.tally("family=" + inp.get("family", "?"))
        corr.tally("len=%d" % len(inp["calls"]))
        for c, o in zip(inp["calls"], obs):
            corr.tally("op=" + c["op"] + ("" if o["ok"] else " (rejected)"))
            n_calls += 1
        corr.count(key_of(inp), nontrivial=nontrivial(inp, obs), sample=dict(circs=inp["circs"][:1], calls=inp["calls"]))
        if model is None:
            corr.tally("oracle-only (circuit edited between uses: no edit operation in Model/Heap.v)")
        else:
            compare(inp, obs, model, corr)
        for f in fails:
            fr = fail_record(inp, f)
            corr.oracle_fail(fr["input"], fr["observed"], fr["expected"], fr["what"])
    corr.extra["calls_executed"] = n_calls
    return corr


# ------------------------------------------------------------------------------------------------------
# known findings / search / replay
# ------------------------------------------------------------------------------------------------------
RUN_OPS = ("sim_run", "sim_stats", "qc_run", "qc_stats")


def classify(failure):
    f = failure.get("observed") or {}
    if not isinstance(f, dict):
        return None
    kind, call = f.get("kind"), f.get("call") or {}
    if call.get("op") in RUN_OPS and call.get("cbits") is not None:
        root = "cbits%d" % call["cbits"]
        if kind in ("arg-mutated", "result-aliases-arg") and f.get("root") == root:
            return "cbits-by-reference"
        if kind == "not-repeatable" and root in (f.get("dirty_roots") or []):
            return "cbits-by-reference"     # the first of the two calls changed the list the second one starts from
        if kind == "results-alias" and f.get("via_roots") == [root] and (f.get("other_call") or {}).get("cbits") == call["cbits"] \
                and f.get("shared") == ["list"]:
            return "cbits-by-reference"
    return None


def replay(ctx, rec):
    inp = rec["input"]
    inp = {k: v for k, v in inp.items() if k != "focus"}
    obs, fails = run_history(inp)
    want = (rec.get("observed") or {}).get("kind") if isinstance(rec.get("observed"), dict) else None
    if want:
        return any(f["kind"] == want for f in fails)
    return bool(fails)


def search(ctx, broken):
    out = []
    cands = load_corpus() + targeted_histories()
    rng = ctx.rng
    cands += [gen_history(rng, 8) for _ in range(ctx.n(150, 600))]
    cands += [gen_reuse_history(rng, 8) for _ in range(ctx.n(20, 100))] + [gen_edit_history(rng, 8) for _ in range(ctx.n(20, 100))]
    for (obs, fails, err), inp in zip(run_many(cands), cands):
        if err is not None:
            continue
        for f in fails:
            out.append(fail_record(inp, f))
        if len(out) >= 40:
            break
    return out


TRUSTED = [
    "Model/Heap.v is a hand-written object-granularity model of the sharing / mutation behaviour of the public operations "
    "(values are abstract tokens; copy.deepcopy is a tree copy; allocation order is abstract); it is tied to the code by (a) the "
    "fail-closed ast translator tools/translate/purity_tr.py, which re-extracts on every run the presence and position of each "
    "defensive copy / reset (Gen/Purity.v: src_flags), and (b) exact comparison, per call of generated histories, of the predicted "
    "and observed sets of mutated caller objects, aliased caller objects, aliasing with earlier results, held-pulse changes, and "
    "one-sided comparison of 'behaves as on fresh service objects'",
    "read-only operations (propagators, compute_unitary, QASM export, text drawing, run_analytically, get_full_tlist/coeffs) are "
    "modelled as not writing anything: this is checked dynamically by the snapshots, not derived from the source",
    "value-dependent facts handed to the model by the harness: which calls raised, forced measurement outcomes, whether the compiled "
    "circuit records a non-zero global phase, and per gate how to_chain_structure carries it over (rebuilt / same object / same lists)",
    "Qobj, QobjEvo, numbers, strings, tuples and functions are treated as immutable values; mutable = list, dict, set, ndarray, "
    "instances with __dict__",
    "Processor.run_state with a solver is not exercised: `qutip.Options` does not exist in the installed QuTiP 5.3.1 (AttributeError); "
    "get_qobjevo / get_noisy_pulses / run_analytically / load_circuit / compile are used instead",
]
ASSUMES = [
    "the model describes /repo with fixes/C16-compiler-state.diff, fixes/C16-pass-copies.diff and fixes/C02-copy-cbits.diff applied; "
    "the shipped code is the flag record `shipped_flags`, refuted in Props/C16.v (six *_refuted theorems, replayed from corpus/C16)",
    "decisions on the design-phase observations: RelaxationNoise rewriting its own t1/t2 from a scalar to a constant list is idempotent "
    "on the processor it is attached to and noise objects are not among the objects the property protects -> not a violation (compared "
    "up to that normalisation); get_qobjevo(noisy=False) lengthening the stored coefficient arrays leaves the pulses unchanged as "
    "functions of time -> not a violation; get_noisy_pulses(drift=True) returning a Drift without `label` is an interface "
    "inconsistency, not a purity/repeatability matter",
    "a load_circuit that raises after set_coeffs (e.g. the C13/C06 routing defect, KeyError on a non-adjacent coupling) leaves a "
    "half-loaded processor; the fresh replay repeats such a load too, so only state carried ACROSS successful loads is reported",
    "histories of at most 8 calls on 2-3 qubit circuits (the theorems are for every length and every heap without dangling references)",
    "repeatability is proved for every modelled operation as structural equality of the two results (history_repeatable) and clause 4 "
    "as one disjointness theorem over histories (results_unaliased); both need the heap to be free of dangling references (world_ok) "
    "and the operands of every call to exist (call_ok / hist_ok), which holds for every world the harness builds",
    "pulses are compared as functions of time sampled at 17 interior points plus their noise elements, not as stored arrays "
    "(get_qobjevo lengthening the coefficient arrays is not a change)",
    "a noise object's t1/t2 given as a scalar or as a constant list are the same value (RelaxationNoise normalises them in place)",
    "results of QubitCircuit / CircuitSimulator / Scheduler / GateCompiler / Processor calls must not share mutable objects with the "
    "caller's circuits, gates, cbits lists, gate lists or instruction lists, nor with results of other calls; state held by the "
    "service object itself (e.g. the pulses a processor keeps after load_circuit) may be exposed by its own results",
]
