"""C07 - nearest-neighbour routing preserves the unitary and yields adjacent gates only.

Implementation under check: qutip_qip.transpiler.chain.to_chain_structure (linear / circular) and
QubitCircuit.adjacent_gates.  Model: coq/Model/Route.v (`route fixed`, `adjacent_gates fixed`).

An input is  {"fn": "tcs"|"adj", "setup": "linear"|"circular", "N": n,
              "gates": [[name, targets, controls, k], ...]}            (k: arg_value = k/8, or null)
or the model-free  {"fn": "tcs", ..., "measurement": true}  (one routed gate followed by a measurement),
or  {"fn": "dev", "device": "LinearSpinChain"|"CircularSpinChain"|"SCQubits", "D": device size, "N": circuit width, "gates": ...}:
the device's own topology_map(qc) on a circuit narrower than / as wide as the device (a circuit narrower than a ring occupies an
open segment of it: routed like a linear chain of N qubits); a circuit WIDER than the device must be refused by transpile.
"""
import glob
import json
import os

import numpy as np

from common import Corr, Broken, coq_eval_many, parse_evals, VERIF

ID = "C07"
TARGETS = ["Props/C07.vo"]
TRUSTED = [
    "gate-semantics laws are PROVED (Proofs/RouteReal.v) for the matrices of Gen/Gates.v (translator tools/translate/gates_tr.py, see C09) in every phase ring; qubit labels coded injectively into nat",
    "hand-written model coq/Model/Route.v of chain.py:to_chain_structure and circuit.py:adjacent_gates, tied to the "
    "code by exact comparison of emitted gate lists (name, targets, controls, arg_value) on every run",
    "gate semantics is ABSTRACT in the theorems: a state type S and act : gate -> S -> S with three hypotheses "
    "(conjugation of CNOT/CSIGN and of the swap-type gates by SWAP(p,q) relabels their qubits by the transposition (p q); "
    "swap-type gates are symmetric in their two targets); these are facts about the documented gate matrices and are "
    "NOT discharged here (the harness checks the resulting statement numerically by dense unitaries up to 6/7 qubits)",
    "Python ints modelled as Z, `%` by Z.modulo (positive modulus), `//` by Z.div; the while loops by fuel = distance "
    "(exhaustion proved impossible)",
    "LinearSpinChain / SCQubits / CircularSpinChain .topology_map are tied to to_chain_structure(linear/linear/circular) by "
    "comparing their outputs on a sample of the same inputs (N <= 7); as entry points of their own (fn = dev) they are compared "
    "with the router model on the coupling the circuit's qubits have on the device (circuit narrower than / as wide as the device)",
    "only the gate attributes name/targets/controls/arg_value are modelled; classical controls, arg_label and style of "
    "a routed gate are dropped by the code and are outside the property",
]
ASSUMES = [
    "input gates handled by the router are well formed: CNOT/CSIGN with one control and one target, swap-type gates "
    "with two targets, on two different qubits inside the register",
    "theorems about cfg `fixed` and the correspondence describe the tree WITH fixes/C07-circular-backward-control, "
    "C07-circular-index-mod, C07-swapalpha-arg, C07-measurement-passthrough and C07-adjacent-gates-passthrough applied; "
    "on earlier trees the `_refuted` theorems (cfg orig / stage2) apply",
    "a Measurement is modelled as an opaque operation (name, targets, classical_store) that to_chain_structure passes "
    "through and that makes adjacent_gates refuse the circuit (explicit, documented refusal, outside the oracle); "
    "it has no unitary meaning in the theorems; classically controlled gates are not modelled",
]

CTRL = ["CNOT", "CSIGN"]
# "SWAPALPHA" (default name of an instance of class SWAPALPHA) and "iSWAP" (GATE_CLASS_MAP alias) are the SWAPalpha /
# ISWAP gates under their other library names: routed like them since fixes/C07-alias-names
SWAPK = ["SWAP", "ISWAP", "SQRTISWAP", "SQRTSWAP", "BERKELEY", "SWAPalpha", "SWAPALPHA", "iSWAP"]
HANDLED = CTRL + SWAPK
SYMMETRIC = set(SWAPK) | {"CSIGN"}   # CSIGN = CZ is symmetric in control/target as an operator
KINDS = ["CNOT", "CSIGN", "SWAP", "ISWAP", "SQRTISWAP", "SQRTSWAP", "BERKELEY", "SWAPalpha"]
# other names under which the library itself creates two of the handled gates (GATE_CLASS_MAP aliases; "SWAPALPHA" is
# the default name of an instance of class SWAPALPHA): the routers compare with "SWAPalpha" / "ISWAP" only
ALIASES = {"SWAPALPHA": "SWAPalpha", "iSWAP": "ISWAP"}
ALIAS_KINDS = ["SWAPALPHA", "iSWAP"]


# ------------------------------------------------------------------------------------------------
# running the real code
# ------------------------------------------------------------------------------------------------
def generate(ctx):
    """Props/C07.v instantiates the routing theorems at the real gate matrices of Gen/Gates.v (regenerated here)."""
    from translate import gates_tr
    gates_tr.generate()


def _mk_circuit(inp):
    from qutip_qip.circuit import QubitCircuit
    from qutip_qip.operations import Gate
    from qutip_qip.operations.gateclass import GATE_CLASS_MAP
    users = inp.get("users") or {}
    qc = QubitCircuit(inp["N"], num_cbits=1, user_gates={n: _user_matrix for n in users} or None)
    for idx, (name, targets, controls, k) in enumerate(inp["gates"]):
        if name.startswith("M:"):   # a measurement: ["M:<name>", targets, [], classical_store]
            qc.add_measurement(name[2:], targets=list(targets), classical_store=k)
            continue
        t = list(targets) if targets else None
        c = list(controls) if controls else None
        a = None if k is None else k / 8.0
        form = inp.get("form", "name")
        if form == "mixed":
            form = ("name", "generic", "class")[(idx + len(inp["gates"])) % 3]
        cont = inp.get("cont")
        if cont:   # index containers other than list: only a generic Gate object keeps them as given
            import numpy as np
            if cont == "mixed":
                cont = ("tuple", "ndarray", "npint", "list")[(idx + len(inp["gates"])) % 4]
            conv = {"tuple": tuple, "ndarray": np.array, "npint": lambda l: [np.int64(x) for x in l], "list": list}[cont]
            t = conv(t) if t is not None else None
            c = conv(c) if c is not None else None
            form = "generic"
        if form == "generic":      # a plain Gate object carrying the name (what the library's own passes emit)
            qc.add_gate(Gate(name, targets=t, controls=c, arg_value=a))
        elif form == "class" and name in GATE_CLASS_MAP:   # an instance of the dedicated gate class
            kw = {}
            if c is not None:
                kw["controls"] = c
            if a is not None:
                kw["arg_value"] = a
            qc.add_gate(GATE_CLASS_MAP[name](targets=t, **kw))
        else:
            qc.add_gate(name, targets=t, controls=c, arg_value=a)
    return qc


def _user_matrix():
    """a user-defined two-qubit gate that is NOT symmetric in its two qubits"""
    import numpy as np
    import qutip
    mat = np.diag([1, 1j, -1, 1]).astype(complex)
    mat[[1, 2]] = mat[[2, 1]]
    return qutip.Qobj(mat, dims=[[2, 2], [2, 2]])


# user gates whose names are case variants of names the routers handle: NOT handled (names are compared exactly)
USER_NAMES = ["Swap", "iswap", "Iswap", "swapalpha", "Sqrtswap", "berkeley", "cnot", "Csign", "MYGATE"]


def ring_edge_nonlist(inp):
    """input class of the finding ring-edge-nonlist-containers (fixed: C07-ring-edge-containers; only used to group
    failures and for the input distribution): circular to_chain_structure re-emits a CNOT/CSIGN that lies on the
    closing edge of the ring (|control - target| = N-1 > N//2) with add_gate(name, gate.targets, gate.controls); a
    non-list container (tuple, ndarray) is then wrapped / refused by the gate constructor"""
    if inp.get("fn") != "tcs" or inp.get("setup") != "circular" or inp.get("cont") in (None, "list"):
        return False
    N = inp["N"]
    cont = inp["cont"]
    for idx, g in enumerate(inp["gates"]):
        cg = cont if cont != "mixed" else ("tuple", "ndarray", "npint", "list")[(idx + len(inp["gates"])) % 4]
        if g[0] in CTRL and len(g[1] or []) == 1 and len(g[2] or []) == 1 and cg in ("tuple", "ndarray") \
                and abs(g[1][0] - g[2][0]) == N - 1 and N - 1 > N // 2:
            return True
    return False


PIPE_BASES = {"resolve": None, "resolve-csign": ["CSIGN", "RX", "RY", "RZ"], "resolve-iswap": ["ISWAP", "RX", "RY", "RZ"],
              "resolve-sqrtswap": ["SQRTSWAP", "RX", "RY", "RZ"], "resolve-sqrtiswap": ["SQRTISWAP", "RX", "RY", "RZ"]}


DEVICES = ["LinearSpinChain", "CircularSpinChain", "SCQubits"]
_devs = {}


def _device(name, D):
    import warnings
    if (name, D) not in _devs:
        import qutip_qip.device as dev
        with warnings.catch_warnings():
            warnings.simplefilter("ignore")
            _devs[(name, D)] = getattr(dev, name)(D)
    return _devs[(name, D)]


def dev_setup(inp):
    """coupling of the N qubits a circuit occupies on the device (from the hardware, not from the code): the closing edge of a
    ring couples qubits 0 and D-1, so only a circuit that fills the ring has its first and last qubit coupled"""
    return "circular" if inp["device"] == "CircularSpinChain" and inp["N"] == inp["D"] else "linear"


def prepare(inp):
    """the circuit actually handed to the router and its description as the model sees it.
    `form` selects how gates are constructed (by name / generic Gate object / class instance); `pipe` runs one
    library pass first (resolve_gates in some basis, or adjacent_gates) and routes ITS output.
    -> (effective input, circuit)   (raises when the input cannot be built)"""
    qc = _mk_circuit(inp)
    if inp.get("fn") == "dev":
        return dict(inp, setup=dev_setup(inp)), qc
    pipe = inp.get("pipe")
    if pipe:
        if pipe == "adj":
            qc = qc.adjacent_gates()
        else:
            qc = qc.resolve_gates() if PIPE_BASES[pipe] is None else qc.resolve_gates(basis=PIPE_BASES[pipe])
    if not pipe and "form" not in inp and "cont" not in inp:
        return inp, qc
    eff = {k: v for k, v in inp.items() if k not in ("pipe", "form", "cont")}
    eff["gates"] = _canon_gates(qc.gates)   # the names the objects really carry (SWAPALPHA(...) is named "SWAPALPHA")
    return eff, qc


def has_meas(inp):
    return any(g[0].startswith("M:") for g in inp["gates"])


def _canon_arg(a):
    if a is None:
        return None
    try:
        k = float(a) * 8.0
        if abs(k - round(k)) < 1e-12:
            return int(round(k))
    except Exception:
        pass
    # any other value (angles produced by resolve_gates, tuples): a deterministic integer token
    import zlib
    try:
        r = repr(tuple(round(float(x), 9) for x in a)) if isinstance(a, (tuple, list)) else repr(round(float(a), 9))
    except Exception:
        r = repr(a)
    return 1000000 + zlib.crc32(r.encode()) % 1000000


def _ints(seq):
    """values of an index container (list, tuple, ndarray, numpy ints); anything that is not an integer is kept visible"""
    if seq is None:
        return []
    out = []
    try:
        it = list(seq)
    except TypeError:
        it = [seq]
    for x in it:
        try:
            out.append(int(x))
        except Exception:
            out.append("bad:" + repr(x)[:40])
    return out


def _canon_gates(gates):
    from qutip_qip.operations import Measurement
    out = []
    for g in gates:
        if isinstance(g, Measurement):
            out.append(["M:" + str(g.name), [int(x) for x in (g.targets or [])], [], g.classical_store])
            continue
        name = g.name if isinstance(g.name, str) else "obj:" + type(g.name).__name__
        t = getattr(g, "targets", None)
        c = getattr(g, "controls", None)
        out.append([name, _ints(t), _ints(c), _canon_arg(getattr(g, "arg_value", None))])
    return out


def run_impl(inp, prepared=None):
    """-> ("ok", canonical gate list, circuit) or ("rejected", repr, None)"""
    from qutip_qip.transpiler.chain import to_chain_structure
    try:
        qc = (prepared or prepare(inp))[1]
    except Exception as e:  # the input itself cannot be built
        return ("unbuildable", repr(e), None)
    try:
        if inp["fn"] == "adj":
            out = qc.adjacent_gates()
        elif inp["fn"] == "dev":
            dv = _device(inp["device"], inp["D"])
            out = dv.topology_map(qc) if inp["N"] <= inp["D"] else dv.transpile(qc)
        else:
            out = to_chain_structure(qc, setup=inp["setup"])
    except Exception as e:
        return ("rejected", type(e).__name__, None)
    return ("ok", _canon_gates(out.gates), out)


# ------------------------------------------------------------------------------------------------
# independent oracle, written from the property text
# ------------------------------------------------------------------------------------------------
def _frame(gates, N):
    """Exact evaluation modulo SWAP relabelling: SWAPs only permute which logical qubit sits where.
    Returns (logical gate list, final content-of-position list)."""
    pos = list(range(N))
    logical = []
    for name, t, c, k in gates:
        if any((q < 0 or q >= N) for q in t + c):
            return None
        if name == "SWAP" and len(t) == 2 and not c:
            a, b = t
            pos[a], pos[b] = pos[b], pos[a]
            continue
        lt = [pos[q] for q in t]
        lc = [pos[q] for q in c]
        if name in SWAPK:
            lt = sorted(lt)
        if name == "CSIGN" and len(lt) == 1 and len(lc) == 1:
            lt, lc = [min(lt[0], lc[0])], [max(lt[0], lc[0])]
        logical.append([name, lt, lc, k])
    return logical, pos


def _ring_adjacent(setup, N, a, b):
    if abs(a - b) == 1:
        return True
    return setup == "circular" and {a, b} == {0, N - 1}


def oracle(inp, status, out_gates, out_circ, dense_max, in_circ=None):
    """list of (what, observed, expected); empty = property holds on this input.
    `inp` describes the circuit handed to the router (effective input); in_circ is that circuit when it cannot be
    rebuilt from inp (pipelines)."""
    N = inp["N"]
    setup = "linear" if inp["fn"] == "adj" else inp.get("setup")
    fails = []
    alias_fails = []
    if inp["fn"] == "dev":
        setup = dev_setup(inp)
        if N > inp["D"]:
            if status == "ok":
                return [("device: a circuit wider than the device is not refused", out_gates[:6], "an error")]
            return []
    if status != "ok":
        return [("router raised %s instead of routing / passing the gates through" % out_gates, status, "a routed circuit")]
    # (iii) index range and adjacency of every gate kind the router produces
    for g in out_gates:
        name, t, c, k = g
        qs = t + c
        if any(not isinstance(q, int) for q in qs):
            return [("range: a qubit index of the routed circuit is not an integer", g, "integer indices in [0,%d)" % N)]
        if any((q < 0 or q >= N) for q in qs):
            fails.append(("range: qubit index outside the register", g, "all indices in [0,%d)" % N))
        elif name in HANDLED and len(qs) == 2 and not _ring_adjacent(setup, N, qs[0], qs[1]):
            fails.append(("adjacency: routed two-qubit gate on non-neighbouring qubits", g, "neighbours on " + setup))
    # pass-through: unhandled gates unchanged and in order
    un_in = [g for g in inp["gates"] if g[0] not in HANDLED]
    un_out = [g for g in out_gates if g[0] not in HANDLED]
    if [[g[0], list(g[1] or []), list(g[2] or []), g[3]] for g in un_in] != un_out:
        fails.append(("passthrough: unhandled gates changed", un_out, un_in))
    if fails:
        return fails + alias_fails
    # (ii) exact evaluation modulo SWAP relabelling
    fin = _frame([[g[0], list(g[1] or []), list(g[2] or []), g[3]] for g in inp["gates"]], N)
    fout = _frame(out_gates, N)
    if fin is not None and fout != fin:
        fails.append(("unitary (permutation tracking): routed circuit is a different operator",
                      {"logical_gates": fout[0], "residual_permutation": fout[1]},
                      {"logical_gates": fin[0], "residual_permutation": fin[1]}))
    # (i) dense unitaries
    if N <= dense_max and not has_meas(inp):   # a circuit with measurements has no unitary
        try:
            u_in = (in_circ if in_circ is not None else _mk_circuit(inp)).compute_unitary().full()
        except Exception:
            u_in = None   # the input itself has no unitary (not a routing failure)
        if u_in is not None:
            try:
                u_out = out_circ.compute_unitary().full()
                err = float(np.max(np.abs(u_out - u_in)))
                if not err < 1e-9:
                    fails.append(("unitary (dense): routed circuit differs from the input", "max abs diff %.3g" % err, "< 1e-9"))
            except Exception as e:
                fails.append(("unitary (dense): routed circuit cannot be evaluated: " + type(e).__name__, repr(e)[:200], "a unitary"))
    return fails + alias_fails


def check_measurement(inp):
    """model-free: a measurement after a routed gate must come out as that measurement."""
    from qutip_qip.circuit import QubitCircuit
    from qutip_qip.operations import Measurement
    from qutip_qip.transpiler.chain import to_chain_structure
    qc = QubitCircuit(inp["N"], num_cbits=1)
    for name, targets, controls, k in inp["gates"]:
        qc.add_gate(name, targets=targets or None, controls=controls or None)
    qc.add_measurement("M0", targets=[0], classical_store=0)
    try:
        out = to_chain_structure(qc, setup=inp["setup"])
    except Exception as e:
        return [("measurement: router raised " + type(e).__name__, "exception", "measurement passed through")]
    last = out.gates[-1]
    if not (isinstance(last, Measurement) and last.targets == [0] and last.classical_store == 0):
        return [("measurement: not passed through unchanged", type(last).__name__ + " name=" + repr(last.name)[:60],
                 "Measurement(M0, target=[0], classical_store=0)")]
    return []


# ------------------------------------------------------------------------------------------------
# Coq side
# ------------------------------------------------------------------------------------------------
def _cgate(g):
    name, t, c, k = g
    zl = lambda l: "[" + "; ".join(str(int(x)) for x in (l or [])) + "]"
    return '(mkGate "%s" %s %s %s)' % (name, zl(t), zl(c), "None" if k is None else "(Some (%d))" % k)


def _cexpr(inp):
    if inp["fn"] == "dev":      # the history-free router model on the coupling the circuit's qubits really have
        inp = dict(inp, fn="tcs", setup=dev_setup(inp))
    if has_meas(inp):
        def cop(g):
            if g[0].startswith("M:"):
                zl = "[" + "; ".join(str(int(x)) for x in g[1]) + "]"
                return '(OM "%s" %s %s)' % (g[0][2:], zl, "None" if g[3] is None else "(Some %d)" % g[3])
            return "(OG %s)" % _cgate(g)
        ol = "[" + "; ".join(cop(g) for g in inp["gates"]) + "]"
        if inp["fn"] == "adj":
            return "Eval vm_compute in enc_ops_out (adjacent_ops fixed %s)." % ol
        tp = "Linear" if inp["setup"] == "linear" else "Circular"
        return "Eval vm_compute in enc_ops_out (route_ops fixed %s %d %s)." % (tp, inp["N"], ol)
    gl = "[" + "; ".join(_cgate(g) for g in inp["gates"]) + "]"
    if inp["fn"] == "adj":
        return "Eval vm_compute in enc_out (adjacent_gates fixed %s)." % gl
    tp = "Linear" if inp["setup"] == "linear" else "Circular"
    return "Eval vm_compute in enc_out (route fixed %s %d %s)." % (tp, inp["N"], gl)


HEADER = ("From Coq Require Import ZArith List String.\nImport ListNotations.\nFrom QV Require Import Model.Route.\n"
          "Open Scope string_scope.\nOpen Scope Z_scope.\n")


def run_model(inputs, tag):
    files = []
    per = 400
    for k in range(0, len(inputs), per):
        body = HEADER + "\n".join(_cexpr(i) for i in inputs[k:k + per]) + "\n"
        files.append(("c07_%s_%d" % (tag, k // per), body))
    outs = coq_eval_many(files)
    vals = []
    for name, _ in files:
        vals += parse_evals(outs[name])
    if len(vals) != len(inputs):
        raise Broken("coq-eval:c07", "expected %d values, parsed %d" % (len(inputs), len(vals)))
    res = []
    for v in vals:
        if v is None:
            res.append(("rejected", None))
        else:
            assert v[0] == "Some", v
            gl = []
            for e in v[1]:
                name, t, c, a = e
                gl.append([name, list(t), list(c), None if a is None else a[1]])
            res.append(("ok", gl))
    return res


# ------------------------------------------------------------------------------------------------
# generators
# ------------------------------------------------------------------------------------------------
def one_gate(kind, a, b):
    """gate of `kind` on the ordered pair (a, b): a = control / first target"""
    if kind in CTRL:
        return [kind, [b], [a], None]
    return [kind, [a, b], [], 3 if kind in ("SWAPalpha", "SWAPALPHA") else None]


def branch_of(inp):
    """which branch of the router the (single) handled gate takes"""
    N = inp["N"]
    if inp["fn"] == "dev":
        inp = dict(inp, fn="tcs", setup=dev_setup(inp))
    tags = []
    for g in inp["gates"]:
        if g[0].startswith("M:"):
            tags.append("measurement")
            continue
        if g[0] not in HANDLED:
            tags.append("passthrough")
            continue
        qs = (g[1] or []) + (g[2] or [])
        if len(qs) != 2 or qs[0] == qs[1]:
            tags.append("malformed")
            continue
        s, e = min(qs), max(qs)
        d = e - s
        if inp["fn"] == "adj" or inp["setup"] == "linear" or d <= N // 2:
            tags.append("forward-" + ("odd" if d % 2 else "even") + ("-adjacent" if d == 1 else ""))
        elif d == N - 1 and g[0] in CTRL:
            tags.append("ring-edge-unchanged")
        else:
            tags.append("backward-" + ("odd" if (N - d) % 2 else "even") + ("-edge" if d == N - 1 else ""))
    return tags


UNHANDLED_POOL = ["X", "SNOT", "RX", "RZ", "CPHASE", "TOFFOLI", "FREDKIN", "GLOBALPHASE", "CRX"]


def random_gate(rng, N, handled_only=False):
    if handled_only or rng.random() < 0.65 or N < 2:
        if N < 2:
            return ["X", [0], [], None]
        kind = rng.choice(KINDS)
        a, b = rng.sample(range(N), 2)
        return one_gate(kind, a, b)
    name = rng.choice(UNHANDLED_POOL)
    if name in ("X", "SNOT"):
        return [name, [rng.randrange(N)], [], None]
    if name in ("RX", "RZ"):
        return [name, [rng.randrange(N)], [], rng.randrange(1, 16)]
    if name == "GLOBALPHASE":
        return [name, [], [], rng.randrange(1, 16)]
    if name in ("CPHASE", "CRX"):
        a, b = rng.sample(range(N), 2)
        return [name, [b], [a], rng.randrange(1, 16)]
    if N < 3:
        return ["X", [rng.randrange(N)], [], None]
    a, b, c = rng.sample(range(N), 3)
    if name == "TOFFOLI":
        return [name, [c], [a, b], None]
    return [name, [b, c], [a], None]   # FREDKIN


def reuse_circuits(N, a, b):
    """multi-gate circuits that use the pair (a, b) more than once inside ONE call: both orientations, the same
    orientation again, different gate kinds / arg_values on the same pair, overlapping pairs, other gates in between.
    A router that keeps any state across the gates of a circuit (cache, counter, reused temporary) shows up here."""
    others = [q for q in range(N) if q not in (a, b)]
    c = others[(a + b) % len(others)] if others else None
    mid = ["RX", [(a + b) // 2], [], 5]
    out = [
        [one_gate("CNOT", a, b), one_gate("CNOT", b, a), one_gate("CNOT", a, b)],
        [one_gate("CNOT", a, b), mid, one_gate("CSIGN", a, b), one_gate("CNOT", b, a)],
        [["SWAPalpha", [a, b], [], 3], ["SWAPalpha", [b, a], [], 5], one_gate("ISWAP", a, b), ["SWAPalpha", [a, b], [], 3]],
        [one_gate("SQRTSWAP", a, b), one_gate("CNOT", b, a), one_gate("SWAP", b, a), one_gate("CNOT", a, b)],
    ]
    if c is not None:
        out.append([one_gate("CNOT", a, b), one_gate("CNOT", a, c), one_gate("CNOT", c, b), one_gate("CNOT", b, a)])
        out.append([one_gate("CNOT", c, a), one_gate("BERKELEY", b, c), ["X", [c], [], None], one_gate("CNOT", a, c),
                    one_gate("CSIGN", b, a)])
    return out


def random_reuse_circuit(rng, N):
    """longer random circuit drawn from a small pool of qubit pairs, so that pairs repeat with every orientation"""
    pool = []
    for _ in range(rng.randrange(1, 4)):
        a, b = rng.sample(range(N), 2)
        pool.append((a, b))
    gates = []
    for _ in range(rng.randrange(4, 15)):
        if rng.random() < 0.2:
            gates.append(random_gate(rng, N, False))
            continue
        a, b = rng.choice(pool)
        if rng.random() < 0.5:
            a, b = b, a
        kind = rng.choice(["CNOT", "CNOT", "CNOT", "CSIGN", "SWAP", "ISWAP", "SQRTISWAP", "SQRTSWAP", "BERKELEY", "SWAPalpha"])
        g = one_gate(kind, a, b)
        if kind == "SWAPalpha":
            g[3] = rng.choice([1, 3, 4, 6])
        gates.append(g)
    return gates


FNS = (("tcs", "linear"), ("tcs", "circular"), ("adj", "linear"))


def gen_inputs(ctx):
    inputs = []
    seen = set()

    def add(i, kind):
        key = json.dumps(i, sort_keys=True)
        if key in seen:
            return
        seen.add(key)
        inputs.append((i, kind))

    # corpus first
    for p in sorted(glob.glob(os.path.join(VERIF, "corpus", "C07", "*.json"))):
        try:
            rec = json.load(open(p))
            add(rec["input"] if "input" in rec else rec, "corpus")
        except Exception:
            pass
    # exhaustive single-gate sweep: all N, all ordered pairs, all kinds, both topologies + adjacent_gates
    nmax = ctx.n(9, 12)
    for N in range(2, nmax + 1):
        for a in range(N):
            for b in range(N):
                if a == b:
                    continue
                for kind in KINDS:
                    g = one_gate(kind, a, b)
                    add({"fn": "tcs", "setup": "linear", "N": N, "gates": [g]}, "single")
                    add({"fn": "tcs", "setup": "circular", "N": N, "gates": [g]}, "single")
                    add({"fn": "adj", "setup": "linear", "N": N, "gates": [g]}, "single")
    # systematic cross-gate stream: every ordered pair reused inside one circuit (state kept across gates)
    for N in range(3, ctx.n(6, 7) + 1):
        for a in range(N):
            for b in range(N):
                if a == b:
                    continue
                for gates in reuse_circuits(N, a, b):
                    for fn, setup in FNS:
                        add({"fn": fn, "setup": setup, "N": N, "gates": gates}, "reuse")
    rng = ctx.rng
    for _ in range(ctx.n(300, 2500)):
        N = rng.choice([3, 4, 5, 5, 6, 6, 7, 8] if not ctx.thorough else [3, 4, 5, 6, 6, 7, 7, 8, 9, 10])
        fn, setup = rng.choice(FNS)
        i = {"fn": fn, "setup": setup, "N": N, "gates": random_reuse_circuit(rng, N)}
        f = rng.choice(["name", "generic", "class", "mixed"])
        if f != "name":
            i["form"] = f
        add(i, "reuse-random")
    # construction forms: the routers must recognise a routed gate however the object was built - by name
    # (add_gate("CNOT", ...)), as a generic Gate("CNOT", ...) object (what resolve_gates / adjacent_gates / the
    # decompose helpers emit) or as an instance of the dedicated class.  Same model output for every form.
    for N in range(2, ctx.n(5, 7) + 1):
        for a in range(N):
            for b in range(N):
                if a == b:
                    continue
                for kind in KINDS:
                    for form in ("generic", "class"):
                        for fn, setup in FNS:
                            add({"fn": fn, "setup": setup, "N": N, "gates": [one_gate(kind, a, b)], "form": form}, "forms")
    for N in ((6, 7, 8, 9) if not ctx.thorough else (8, 9, 10, 11, 12)):
        far = [(a, b) for a in range(N) for b in range(N) if abs(a - b) >= 2]
        for a, b in rng.sample(far, min(len(far), ctx.n(12, 40))):
            for kind in KINDS:
                fn, setup = FNS[(a + b + len(kind)) % 3]
                add({"fn": fn, "setup": setup, "N": N, "gates": [one_gate(kind, a, b)],
                     "form": ("generic", "class", "mixed")[(a + b) % 3]}, "forms")
    # the other library names of two routed gates, all ordered pairs, by name and as generic Gate objects
    for N in range(2, ctx.n(6, 8) + 1):
        for a in range(N):
            for b in range(N):
                if a == b:
                    continue
                for kind in ALIAS_KINDS:
                    for fn, setup in FNS:
                        i = {"fn": fn, "setup": setup, "N": N, "gates": [one_gate(kind, a, b)]}
                        if (a + b) % 2:
                            i["form"] = "generic"
                        add(i, "alias")
    for N in (4, 5, 6):
        for fn, setup in FNS:
            add({"fn": fn, "setup": setup, "N": N,
                 "gates": [["SWAPALPHA", [0, N - 1], [], 4], ["iSWAP", [N - 1, 1], [], None], ["SWAPalpha", [N - 1, 0], [], 4],
                           one_gate("CNOT", 0, N - 1), ["iSWAP", [1, N - 1], [], None]]}, "alias")
    # index containers: a generic Gate object keeps targets/controls as given (list, tuple, ndarray, numpy ints);
    # the routers must read the VALUES, whatever the container
    for N in range(2, ctx.n(5, 7) + 1):
        for a in range(N):
            for b in range(N):
                if a == b:
                    continue
                for kind in ("CNOT", "CSIGN", "ISWAP"):
                    for cont in ("tuple", "ndarray", "npint"):
                        for fn, setup in FNS:
                            add({"fn": fn, "setup": setup, "N": N, "gates": [one_gate(kind, a, b)], "cont": cont}, "containers")
    for _ in range(ctx.n(150, 1200)):
        N = rng.choice([3, 4, 5, 5, 6, 6, 7])
        fn, setup = rng.choice(FNS)
        add({"fn": fn, "setup": setup, "N": N, "gates": random_reuse_circuit(rng, N),
             "cont": rng.choice(["tuple", "ndarray", "npint", "mixed"])}, "containers")
    # user gates (own, non-symmetric matrix) whose names are case variants of routed names: names are compared exactly,
    # so they are NOT handled and must come out unchanged, on the same ORDERED targets
    for N in range(3, ctx.n(5, 6) + 1):
        for a in range(N):
            for b in range(N):
                if a == b:
                    continue
                for ui, un in enumerate(USER_NAMES):
                    fn, setup = FNS[(a + b + ui) % 3]
                    add({"fn": fn, "setup": setup, "N": N, "users": {un: "asym"},
                         "gates": [["SNOT", [a], [], None], [un, [a, b], [], None], one_gate("ISWAP", 0, 2),
                                   [un, [b, a], [], None]]}, "user-gates")
    # pipelines: the output of one library pass (generic Gate objects, arbitrary angles) is fed to the router
    pipes = list(PIPE_BASES) + ["adj"]
    for _ in range(ctx.n(250, 1500)):
        N = rng.choice([3, 4, 4, 5, 5, 6] if not ctx.thorough else [3, 4, 5, 5, 6, 6, 7])
        gates = []
        for _g in range(rng.randrange(1, 5)):
            r = rng.random()
            if r < 0.35 and N >= 3:
                a, b, c = rng.sample(range(N), 3)
                gates.append(["TOFFOLI", [c], [a, b], None] if rng.random() < 0.6 else ["FREDKIN", [b, c], [a], None])
            elif r < 0.85:
                a, b = rng.sample(range(N), 2)
                gates.append(one_gate(rng.choice(["CNOT", "CNOT", "CSIGN", "SWAP", "ISWAP", "SQRTSWAP", "SQRTISWAP", "BERKELEY"]), a, b))
            else:
                gates.append([rng.choice(["SNOT", "X"]), [rng.randrange(N)], [], None])
        pipe = rng.choice(pipes)
        if pipe == "adj":
            gates = [g for g in gates if g[0] in HANDLED] or [one_gate("CNOT", 0, N - 1)]
        fn, setup = rng.choice((("tcs", "linear"), ("tcs", "circular"), ("tcs", "circular"), ("adj", "linear")))
        add({"fn": fn, "setup": setup, "N": N, "gates": gates, "pipe": pipe}, "pipeline")
    # random multi-gate circuits with pass-through gates
    for _ in range(ctx.n(500, 4000)):
        N = rng.choice([2, 3, 4, 5, 5, 6, 6, 7, 8, 9, 10, 11, 12] if ctx.thorough else [2, 3, 4, 5, 5, 6, 6, 7, 8, 9, 10])
        fn, setup = rng.choice([("tcs", "linear"), ("tcs", "circular"), ("tcs", "circular"), ("adj", "linear")])
        ng = rng.randrange(1, 9)
        gates = [random_gate(rng, N, False) for _ in range(ng)]
        if rng.random() < (0.2 if fn == "tcs" else 0.05):   # measurements: passed through / adjacent_gates refuses
            for _ in range(rng.randrange(1, 3)):
                gates.insert(rng.randrange(len(gates) + 1),
                             ["M:" + rng.choice(["M0", "M1", "Z"]), [rng.randrange(N)], [], rng.choice([0, None])])
        add({"fn": fn, "setup": setup, "N": N, "gates": gates}, "random")
    # the devices' own topology_map as entry point: circuits narrower than / as wide as the device (every ordered pair), and
    # wider ones (refused by transpile)
    for dn in DEVICES:
        for D in range(2, ctx.n(6, 8) + 1):
            for N in range(2, D + 1):
                for a in range(N):
                    for b in range(N):
                        if a == b:
                            continue
                        for kind in (("CNOT", "ISWAP", "CSIGN", "SWAPalpha") if (N >= D - 1 or ctx.thorough) else ("CNOT", "ISWAP")):
                            add({"fn": "dev", "device": dn, "D": D, "N": N, "gates": [one_gate(kind, a, b)]}, "device-width")
            for N in (D + 1, D + 3):
                add({"fn": "dev", "device": dn, "D": D, "N": N, "gates": [one_gate("CNOT", 0, N - 1)]}, "device-wide")
                add({"fn": "dev", "device": dn, "D": D, "N": N, "gates": [one_gate("ISWAP", N - 1, 1), ["X", [0], [], None]]}, "device-wide")
        for _ in range(ctx.n(40, 300)):
            D = rng.choice([3, 4, 5, 6, 7])
            N = rng.randrange(2, D + 1)
            add({"fn": "dev", "device": dn, "D": D, "N": N, "gates": random_reuse_circuit(rng, N)}, "device-width")
    # malformed / degenerate stream: control == target, out-of-range qubit, empty circuit
    for N in (2, 3, 5):
        add({"fn": "tcs", "setup": "linear", "N": N, "gates": []}, "degenerate")
        add({"fn": "adj", "setup": "linear", "N": N, "gates": []}, "degenerate")
        add({"fn": "tcs", "setup": "circular", "N": N, "gates": [["CNOT", [1], [1], None]]}, "degenerate")
        add({"fn": "tcs", "setup": "linear", "N": N, "gates": [["SWAP", [0, 0], [], None]]}, "degenerate")
        add({"fn": "tcs", "setup": "circular", "N": N, "gates": [["CNOT", [N + 1], [0], None]]}, "degenerate")
        add({"fn": "tcs", "setup": "circular", "N": N, "gates": [["ISWAP", [0, N], [], None]]}, "degenerate")
    return inputs


def in_scope(inp):
    """the property speaks about handled gates on two different qubits inside the register"""
    N = inp["N"]
    if inp["fn"] == "adj" and has_meas(inp):
        return False   # adjacent_gates refuses circuits with measurements explicitly ("must be called before ...")
    for g in inp["gates"]:
        qs = (g[1] or []) + (g[2] or [])
        if any(q < 0 or q >= N for q in qs):
            return False
        if g[0] in HANDLED and (len(qs) != 2 or qs[0] == qs[1]):
            return False
    return True


# ------------------------------------------------------------------------------------------------
# driver interface
# ------------------------------------------------------------------------------------------------
def correspond(ctx):
    corr = Corr(rule="non-trivial = the circuit contains a handled gate that is not already on neighbouring qubits "
                     "(at least one SWAP has to be emitted) or that takes the backward path around the ring")
    gen = gen_inputs(ctx)
    inputs = [i for i, _ in gen]
    dense_max = ctx.n(6, 7)
    prepared = []
    for i in inputs:
        try:
            prepared.append(prepare(i))
        except Exception:
            prepared.append(None)
    impl = [run_impl(i, p) if p is not None else ("unbuildable", "prepare failed", None) for i, p in zip(inputs, prepared)]
    # the model sees only (name, targets, controls, arg) of the circuit handed to the router: the same for every
    # construction form; for a pipeline it is the output of the first pass
    effs = [(p[0] if p is not None else {k: v for k, v in i.items() if k not in ("pipe", "form", "cont")})
            for i, p in zip(inputs, prepared)]
    model = run_model(effs, "q" if not ctx.thorough else "t")
    ndense = 0
    for (orig_inp, kind), eff, prep, (st, out, circ), (mst, mout) in zip(gen, effs, prepared, impl, model):
        inp = eff
        if "form" in orig_inp or "pipe" in orig_inp:
            corr.tally("construction:" + orig_inp.get("form", "name") + ("+" + orig_inp["pipe"] if "pipe" in orig_inp else ""))
        tags = branch_of(inp)
        for t in set(tags):
            corr.tally(kind + ":" + inp["fn"] + ":" + (inp["setup"] if inp["fn"] == "tcs" else "-") + ":" + t)
        nontriv = any(t.startswith("backward") or (t.startswith("forward") and not t.endswith("adjacent")) for t in tags)
        corr.count(json.dumps(orig_inp, sort_keys=True), nontrivial=nontriv, sample=orig_inp)
        if st == "unbuildable":
            corr.tally("unbuildable")
            continue
        # model vs implementation: exact gate lists
        if ring_edge_nonlist(orig_inp):
            corr.tally("class:ring-edge-nonlist-containers")   # repaired by fixes/C07-ring-edge-containers: checked like the rest
        if inp["fn"] == "dev" and inp["N"] > inp["D"]:
            corr.tally("device:wider-circuit:" + st)      # no routing to compare: the oracle demands the refusal
        elif st == "ok":
            if mst != "ok" or mout != out:
                corr.disagree(orig_inp, out, mout if mst == "ok" else "model: rejected", "routed gate list differs from model")
        else:
            if mst == "ok":
                corr.disagree(orig_inp, "rejected: " + str(out), mout, "implementation raised, model routes")
        # property oracle on the implementation's output
        if in_scope(inp):
            if inp["N"] <= dense_max:
                ndense += 1
            for what, obs, exp in oracle(inp, st, out, circ, dense_max, in_circ=prep[1]):
                corr.oracle_fail(orig_inp, obs, exp, what)
    # observation points LinearSpinChain / CircularSpinChain / SCQubits .topology_map are the same router
    ndev = 0
    devs = {}
    for idx, ((inp, kind), (st, out, circ)) in enumerate(zip(gen, impl)):
        if inp["fn"] != "tcs" or st != "ok" or inp["N"] > 7 or inp["N"] < 2 or (kind in ("single", "forms") and idx % 23) \
                or "pipe" in inp:
            continue
        try:
            from qutip_qip.device import LinearSpinChain, CircularSpinChain, SCQubits
            names = ["LinearSpinChain", "SCQubits"] if inp["setup"] == "linear" else ["CircularSpinChain"]
            for dn in names:
                key = (dn, inp["N"])
                if key not in devs:
                    devs[key] = {"LinearSpinChain": LinearSpinChain, "CircularSpinChain": CircularSpinChain,
                                 "SCQubits": SCQubits}[dn](inp["N"])
                got = _canon_gates(devs[key].topology_map(_mk_circuit(inp)).gates)
                ndev += 1
                corr.tally("device:" + dn)
                if got != out:
                    corr.disagree(dict(inp, device=dn), got, out, dn + ".topology_map differs from to_chain_structure")
        except Exception as e:
            corr.disagree(dict(inp, device="?"), "exception " + repr(e)[:200], out, "topology_map raised")
    corr.extra["device_topology_map_cases"] = ndev
    # model-free stream: measurement after a routed gate
    for N, setup in ((3, "linear"), (4, "circular")):
        inp = {"fn": "tcs", "setup": setup, "N": N, "gates": [["CNOT", [N - 1], [0], None]], "measurement": True}
        corr.tally("measurement")
        for what, obs, exp in check_measurement(inp):
            corr.oracle_fail(inp, obs, exp, what)
    # exact permutation-tracking sweep on the real code for larger registers (oracle only, no model)
    big = 0
    for N in (range(13, 41) if ctx.thorough else (16, 23, 40)):
        pairs = [(a, b) for a in range(N) for b in range(N) if a != b]
        if not ctx.thorough:
            pairs = ctx.rng.sample(pairs, 60)
        for a, b in pairs:
            for kind in (("CNOT", "ISWAP") if (a + b + N) % 2 else ("CNOT",)):
                for fn, setup in (("tcs", "circular"), ("tcs", "linear")) if (kind == "CNOT" or a < b) else (("tcs", "circular"),):
                    inp = {"fn": fn, "setup": setup, "N": N, "gates": [one_gate(kind, a, b)]}
                    st, out, circ = run_impl(inp)
                    big += 1
                    for what, obs, exp in oracle(inp, st, out, circ, 0):
                        corr.oracle_fail(inp, obs, exp, what)
    corr.extra["dense_unitary_checks"] = ndense
    corr.extra["permutation_tracking_only_cases_N13_40"] = big
    corr.extra["max_N_correspondence"] = ctx.n(9, 12)
    ctx.notes.append("oracle: dense unitaries for N <= %d (%d cases); exact SWAP-relabelling evaluation for all cases; "
                     "%d extra oracle-only cases with 13 <= N <= 40 (bounded sweep)" % (dense_max, ndense, big))
    return corr


def classify(failure):
    inp = failure.get("input") or {}
    what = failure.get("what", "")
    gates = inp.get("gates") or []
    if any(g[0] in ALIASES or (g[0] == "SWAPalpha" and inp.get("form") in ("class", "mixed")) for g in gates) and \
            (what.startswith("adjacency") or what.startswith("passthrough") or "cannot be evaluated" in what):
        return "alias-name-not-routed"
    if inp.get("measurement") or (inp.get("fn") == "tcs" and any(g[0].startswith("M:") for g in gates)
                                  and what.startswith("passthrough")):
        return "tcs-measurement-wrapped"
    if inp.get("fn") == "adj" and any(g[0] not in HANDLED for g in gates) and "router raised" in what:
        return "adjacent-gates-rejects-unhandled"
    if any(g[0] == "SWAPalpha" for g in gates) and ("cannot be evaluated" in what or "permutation tracking" in what):
        # precise class: the only difference is the missing arg_value
        return "swapalpha-arg"
    if inp.get("fn") == "tcs" and inp.get("setup") == "circular":
        tags = branch_of(inp)
        if what.startswith("range") and any(t.startswith("backward") for t in tags):
            return "circular-index-mod"
        if what.startswith("unitary") and any(t.startswith("backward-odd") and g[0] == "CNOT" for t, g in zip(tags, gates)):
            return "circular-backward-control"
    return None


def _fails(inp, dense_max=6):
    if inp.get("measurement"):
        return check_measurement(inp)
    try:
        prep = prepare(inp)
    except Exception:
        return []
    st, out, circ = run_impl(inp, prep)
    if st == "unbuildable" or not in_scope(prep[0]):
        return []
    return oracle(prep[0], st, out, circ, dense_max, in_circ=prep[1])


def replay(ctx, rec):
    inp = rec["input"]
    return bool(_fails(inp))


def search(ctx, broken):
    """oracle-only hunt on the real code: corpus, inputs named by disagreements, sweeps, random"""
    found = []
    cands = []
    for p in sorted(glob.glob(os.path.join(VERIF, "corpus", "C07", "*.json"))):
        try:
            rec = json.load(open(p))
            cands.append(rec["input"] if "input" in rec else rec)
        except Exception:
            pass
    for ob, detail in broken:
        if isinstance(detail, dict) and isinstance(detail.get("input"), dict):
            cands.append(detail["input"])
    for N in range(2, 15):
        for a in range(N):
            for b in range(N):
                if a != b:
                    for kind in ("CNOT", "SQRTSWAP", "SWAPalpha"):
                        for fn, setup in (("tcs", "linear"), ("tcs", "circular"), ("adj", "linear")):
                            cands.append({"fn": fn, "setup": setup, "N": N, "gates": [one_gate(kind, a, b)]})
    for dn in DEVICES:
        for D in range(2, 8):
            for N in range(2, D + 2):
                for a in range(N):
                    for b in range(N):
                        if a != b:
                            for kind in ("CNOT", "ISWAP"):
                                cands.append({"fn": "dev", "device": dn, "D": D, "N": N, "gates": [one_gate(kind, a, b)]})
    for N in range(3, 6):
        for a in range(N):
            for b in range(N):
                if a != b:
                    for gates in reuse_circuits(N, a, b):
                        for fn, setup in FNS:
                            cands.append({"fn": fn, "setup": setup, "N": N, "gates": gates})
    for _ in range(200):
        N = ctx.rng.randrange(3, 8)
        fn, setup = ctx.rng.choice(FNS)
        cands.append({"fn": fn, "setup": setup, "N": N, "gates": random_reuse_circuit(ctx.rng, N)})
    for _ in range(300):
        N = ctx.rng.randrange(2, 9)
        fn, setup = ctx.rng.choice([("tcs", "linear"), ("tcs", "circular"), ("adj", "linear")])
        cands.append({"fn": fn, "setup": setup, "N": N,
                      "gates": [random_gate(ctx.rng, N, False) for _ in range(ctx.rng.randrange(1, 6))]})
    for N, setup in ((3, "linear"), (5, "circular")):
        cands.append({"fn": "tcs", "setup": setup, "N": N,
                      "gates": [["CNOT", [N - 1], [0], None], ["M:M0", [0], [], 0], ["X", [1], [], None]]})
    keys = set()
    for inp in cands:
        if not inp.get("measurement") and not in_scope(inp):
            continue
        for what, obs, exp in _fails(inp):
            f = dict(input=inp, observed=obs, expected=exp, what=what)
            k = classify(f) or what
            if k in keys:
                continue
            keys.add(k)
            found.append(f)
    return found
