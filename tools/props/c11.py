"""C11 -- pulse schedules are physically valid timetables (scheduler.py / instruction.py).

Shared machinery for C11 and C05 lives here (c05.py imports it): gate/instruction generators, the
shuffle-injecting runner of the real Scheduler, the Coq case writer for Model/Sched.v.
"""
import itertools
import json
import os
import warnings
from fractions import Fraction

import numpy as np

from common import Corr, Broken, coq_eval_many, parse_evals, cz, cnat, cbool, clist, cstr, cq, REPO, SRC, VERIF

warnings.filterwarnings("ignore")

ID = "C11"
TARGETS = ["Props/C11.vo"]
TRUSTED = [
    "second observation point GateCompiler.compile(..., schedule_mode=...): checked by correspondence/oracle only (a "
    "one-pulse-per-gate user compiler; the windows read back from the compiled tlists/coeffs must equal the model's "
    "start times); GateCompiler._schedule's reordering and _concatenate_pulses are not modelled here (C12)",
    "the model is a function of one schedule() call (a Scheduler object keeps no state between calls); the harness "
    "checks this on short histories of 2-4 different lists scheduled on ONE Scheduler object, every call compared "
    "with the history-free model and the timetable oracle",
    "Model/Sched.v is a hand-written Gallina model of scheduler.py/instruction.py, tied to the code by exact "
    "comparison of start times / cycle lists on generated inputs (<= 8 instructions; dyadic durations so every float "
    "operation is exact; random.shuffle replaced from outside by recorded permutations that are also fed to the model)",
    "CPython iterates a set of distinct ints < 8 in ascending order (assumed for the exact tie only; the theorems "
    "quantify over every iteration order and every shuffle result)",
    "Python floats are modelled as exact rationals Q (round-off of sums of durations is not modelled)",
    "generate_dependency_graph is modelled qubit by qubit (loop interchange; the per-qubit states are independent)",
    "gate attributes read by the scheduler: name, sorted targets/controls (None modelled as []), arg_value "
    "(None = [], scalar = [x], sequence = items), duration; user-defined gate classes overriding these are not modelled",
    "the model describes /repo with fixes/C11-constraint-edges.diff and fixes/C05-commutation-rules.diff applied "
    "(the shipped code is the model's `fixed := false` / `commutation_rules_orig` variant, refuted in Props/C11.v, Props/C05.v)",
]
ASSUMES = [
    "durations are positive rationals; every instruction uses at least one qubit",
    "the hardware constraint is qubit_constraint, alone or in a constraint_functions list (any position) together with "
    "functions it implies (conjunction; exact tie); stricter lists and method strings in other spellings ('alap', ' ALAP', "
    "...; undocumented, the shipped code treats them as ASAP) are checked by the timetable oracle and the proved checker only; "
    "attributes re-assigned after construction / between calls are compared with the model at the values in force at the call",
    "clause 3 ('does not commute with') is proved w.r.t. the commutation predicate handed to the graph builder "
    "(any predicate); the harness oracle evaluates it with numerically computed gate commutators",
]

# --------------------------------------------------------------------------------------------------
# gates
# --------------------------------------------------------------------------------------------------
ONE_Q = ["X", "Y", "Z", "SNOT", "S", "T", "SQRTNOT"]
ONE_Q_ARG = ["RX", "RY", "RZ"]
TWO_Q_CTRL = ["CNOT", "CZ", "CY", "CSIGN", "CS", "CT"]
TWO_Q_CTRL_ARG = ["CPHASE", "CRX", "CRY", "CRZ"]
TWO_Q_SYM = ["SWAP", "ISWAP", "SQRTSWAP", "SQRTISWAP", "BERKELEY"]
ANGLES = [0.25, 0.5, 0.75, 1.25, -0.5, 2.0]


def generate(ctx):
    """Props/C11.v states the dependency clause against physical non-commutation (Proofs/SchedReal.v), which depends on
    the gate matrices of Gen/Gates.v (regenerated here from the current sources)."""
    from translate import gates_tr
    gates_tr.generate()


def rand_gate(rng, N, kinds=None):
    """A library gate placed on distinct qubits < N, as a JSON-able spec."""
    pool = kinds or (
        ["CNOT"] * 6 + ["X", "RX", "Z", "RZ"] * 3 + ONE_Q + ONE_Q_ARG + TWO_Q_CTRL + TWO_Q_CTRL_ARG
        + TWO_Q_SYM + ["SWAPalpha", "R", "R", "QASMU", "MS", "RZX", "TOFFOLI", "FREDKIN", "FREDKIN"])
    for _ in range(50):
        k = rng.choice(pool)
        need = 3 if k in ("TOFFOLI", "FREDKIN") else 2 if (k in TWO_Q_CTRL + TWO_Q_CTRL_ARG + TWO_Q_SYM or k in ("SWAPalpha", "MS", "RZX")) else 1
        if need <= N:
            break
    qs = rng.sample(range(N), need)
    a = lambda: rng.choice(ANGLES)
    if k in ONE_Q:
        return dict(name=k, targets=[qs[0]], controls=None, arg=None)
    if k in ONE_Q_ARG:
        return dict(name=k, targets=[qs[0]], controls=None, arg=a())
    if k == "R":
        return dict(name=k, targets=[qs[0]], controls=None, arg=[a(), a()])
    if k == "QASMU":
        return dict(name=k, targets=[qs[0]], controls=None, arg=[a(), a(), a()])
    if k in TWO_Q_CTRL:
        return dict(name=k, targets=[qs[0]], controls=[qs[1]], arg=None)
    if k in TWO_Q_CTRL_ARG:
        return dict(name=k, targets=[qs[0]], controls=[qs[1]], arg=a())
    if k in TWO_Q_SYM:
        return dict(name=k, targets=[qs[0], qs[1]], controls=None, arg=None)
    if k in ("SWAPalpha", "RZX"):
        return dict(name=k, targets=[qs[0], qs[1]], controls=None, arg=a())
    if k == "MS":
        return dict(name=k, targets=[qs[0], qs[1]], controls=None, arg=[a(), a()])
    if k == "TOFFOLI":
        return dict(name=k, targets=[qs[0]], controls=[qs[1], qs[2]], arg=None)
    if k == "FREDKIN":
        return dict(name=k, targets=[qs[0], qs[1]], controls=[qs[2]], arg=None)
    raise AssertionError(k)


# number of control qubits of the MATRIX of a library gate (independent copy of the table the fixed commutation rule
# uses); RZX and unknown (user-defined) names are absent: their qubit order matters
NUM_CONTROLS = dict.fromkeys(
    ["X", "Y", "Z", "RX", "RY", "RZ", "H", "SNOT", "SQRTNOT", "S", "T", "R", "QASMU", "PHASEGATE", "IDLE", "SWAP", "ISWAP",
     "iSWAP", "SQRTSWAP", "SQRTISWAP", "SWAPALPHA", "SWAPalpha", "BERKELEY", "MS"], 0)
NUM_CONTROLS.update(dict.fromkeys(["CNOT", "CX", "CY", "CZ", "CSIGN", "CS", "CT", "CRX", "CRY", "CRZ", "CPHASE", "FREDKIN"], 1))
NUM_CONTROLS["TOFFOLI"] = 2
USER_GATE = "USERG"        # a user-defined two-qubit gate with one parameter (not symmetric, no fixed axis)


def canon_roles(spec):
    """(controls, targets) as Model/Sched.v's instr carries them: the qubits the gate's matrix treats as controls /
    targets (first nc of controls ++ targets), sorted; for RZX and user-defined names the lists as given"""
    c = list(spec["controls"] or [])
    t = list(spec["targets"] or [])
    nc = NUM_CONTROLS.get(spec["name"])
    if nc is None:
        return c, t
    q = c + t
    return sorted(q[:nc]), sorted(q[nc:])


def all_qubits_ordered(spec):
    return list(spec["controls"] or []) + list(spec["targets"] or [])


def user_gate_matrix(arg):
    a = float(arg or 0.0)
    rx = np.array([[np.cos(a / 2), -1j * np.sin(a / 2)], [-1j * np.sin(a / 2), np.cos(a / 2)]])
    ry = np.array([[np.cos(0.35), -np.sin(0.35)], [np.sin(0.35), np.cos(0.35)]])
    cnot = np.array([[1, 0, 0, 0], [0, 1, 0, 0], [0, 0, 0, 1], [0, 0, 1, 0]], dtype=complex)
    return np.kron(rx, np.eye(2)) @ cnot @ np.kron(np.eye(2), ry)


USER_LIST_GATE = "USERL"   # a user-defined one-qubit gate with a list of three parameters: Rz(p1) Rx(p0) Rz(p2)


def user_list_gate_matrix(arg):
    a, b, c = [float(x) for x in arg]
    rz = lambda t: np.array([[np.exp(-0.5j * t), 0], [0, np.exp(0.5j * t)]])
    rx = np.array([[np.cos(a / 2), -1j * np.sin(a / 2)], [-1j * np.sin(a / 2), np.cos(a / 2)]])
    return rz(b) @ rx @ rz(c)


def mk_gate(spec):
    from qutip_qip.circuit import QubitCircuit
    if spec.get("generic") or spec["name"] in (USER_GATE, USER_LIST_GATE):
        # a plain Gate object: any division of the qubits into controls and targets is accepted
        from qutip_qip.operations import Gate
        arg = spec.get("arg")
        return Gate(spec["name"], targets=None if spec["targets"] is None else list(spec["targets"]),
                    controls=None if spec["controls"] is None else list(spec["controls"]),
                    arg_value=tuple(arg) if isinstance(arg, list) else arg)
    nq = max([0] + list(spec["targets"] or []) + list(spec["controls"] or [])) + 1
    qc = QubitCircuit(nq)
    arg = spec.get("arg")
    if isinstance(arg, list):
        arg = tuple(arg)
    kw = {}
    if spec["targets"] is not None:
        kw["targets"] = list(spec["targets"])
    if spec["controls"] is not None:
        kw["controls"] = list(spec["controls"])
    if arg is not None:
        kw["arg_value"] = arg
    qc.add_gate(spec["name"], **kw)
    return qc.gates[-1]


def spec_qubits(spec):
    return sorted(set(spec["targets"] or []) | set(spec["controls"] or []))


_UCACHE = {}


def gate_unitary(spec, N):
    key = (json.dumps({k: spec.get(k) for k in ("name", "targets", "controls", "arg")}, sort_keys=True), N)
    if key not in _UCACHE:
        g = mk_gate(spec)
        if spec["name"] == "GLOBALPHASE":
            _UCACHE[key] = np.exp(1j * spec["arg"]) * np.eye(2 ** N)
        elif spec["name"] == USER_GATE:
            from qoracle import embed
            _UCACHE[key] = embed(user_gate_matrix(spec.get("arg")), all_qubits_ordered(spec), N)
        elif spec["name"] == USER_LIST_GATE:
            from qoracle import embed
            _UCACHE[key] = embed(user_list_gate_matrix(spec.get("arg")), all_qubits_ordered(spec), N)
        else:
            _UCACHE[key] = g.get_qobj(dims=[2] * N).full()
    return _UCACHE[key]


def gates_commute(s1, s2, N):
    """numerical truth: do the two placed gates commute as operators?"""
    a, b = gate_unitary(s1, N), gate_unitary(s2, N)
    return bool(np.allclose(a @ b, b @ a, atol=1e-9))


# --------------------------------------------------------------------------------------------------
# running the real scheduler with an injected shuffle
# --------------------------------------------------------------------------------------------------
def dur_of(spec):
    d = spec.get("dur", [1, 1])
    return Fraction(d[0], d[1]) if isinstance(d, list) else Fraction(d)


def mk_instruction(spec):
    from qutip_qip.compiler import Instruction
    g = mk_gate(spec)
    d = float(dur_of(spec)) if "dur" in spec else None
    how = spec.get("how", "duration")
    if how == "tlist_scalar":
        return Instruction(g, tlist=d)
    if how == "tlist":
        return Instruction(g, tlist=np.array([0.0, d / 4, d / 2, d]))
    if how == "none":          # duration=None -> InstructionsGraph sets 1
        return Instruction(g, duration=None)
    return Instruction(g, duration=d)


def eff_dur(spec):
    return Fraction(1) if spec.get("how") == "none" else dur_of(spec)


# hardware constraint functions a user may hand to Scheduler(constraint_functions=[...]).  A constraint list is a
# CONJUNCTION: two instructions may share a cycle / overlap only if EVERY function allows it.  "true" and "weak" are
# implied by the library's qubit_constraint (they allow every pair on disjoint qubits), so a list that contains
# "qubit" and otherwise only those is equivalent to the default [qubit_constraint] - in ANY order and with repeats -
# and the model (conf = shares) applies unchanged.  "no2q" is a genuine extra restriction (oracle-only streams).
def _cons_true(ind1, ind2, instructions):
    return True


def _cons_weak(ind1, ind2, instructions):
    a, b = instructions[ind1], instructions[ind2]
    return not (a.name == b.name and bool(set(a.used_qubits) & set(b.used_qubits)))


def _cons_no2q(ind1, ind2, instructions):
    return not (len(instructions[ind1].used_qubits) > 1 and len(instructions[ind2].used_qubits) > 1)


CONS_EQUIV = [["true", "qubit"], ["weak", "qubit"], ["qubit", "true"], ["true", "weak", "qubit"], ["weak", "qubit", "true"],
              ["qubit"], ["true", "qubit", "qubit"], ["qubit", "weak"]]
CONS_STRICT = [["no2q", "qubit"], ["qubit", "no2q"], ["true", "no2q", "qubit"], ["no2q", "weak", "qubit"]]


def constraint_list(names):
    if names is None:
        return None
    from qutip_qip.compiler.scheduler import qubit_constraint
    table = dict(true=_cons_true, weak=_cons_weak, no2q=_cons_no2q, qubit=qubit_constraint)
    return [table[x] for x in names]


def cons_violation(inp, cycles):
    """every pair of instructions of one cycle must be allowed by EVERY listed constraint (independent re-statement
    on the specs) -> None | detail"""
    names = inp.get("cons") or ["qubit"]
    specs = inp["instrs"]
    for c in cycles:
        for x in range(len(c)):
            for y in range(x + 1, len(c)):
                a, b = specs[c[x]], specs[c[y]]
                qa, qb = set(spec_qubits(a)), set(spec_qubits(b))
                if "qubit" in names and qa & qb:
                    return dict(cycle=c, pair=[c[x], c[y]], constraint="qubit_constraint")
                if "no2q" in names and len(qa) > 1 and len(qb) > 1:
                    return dict(cycle=c, pair=[c[x], c[y]], constraint="no two multi-qubit instructions in parallel")
    return None


def mk_scheduler(inp):
    """Scheduler for the call described by inp.  inp["cons"]: names of the constraint_functions list (absent = default).
    inp["ctor"] (optional): dict(method, perm[, cons]) - the values given to the CONSTRUCTOR; the public attributes
    method / allow_permutation / constraint_functions are then assigned the values of inp itself before schedule() is
    called.  The expected result is that of a fresh Scheduler built with the final values (history-free model)."""
    from qutip_qip.compiler import Scheduler
    ctor = inp.get("ctor")
    if ctor is None:
        return Scheduler(inp["method"], allow_permutation=inp["perm"], constraint_functions=constraint_list(inp.get("cons")))
    sch = Scheduler(ctor["method"], allow_permutation=ctor["perm"], constraint_functions=constraint_list(ctor.get("cons")))
    set_attributes(sch, inp)
    return sch


def set_attributes(sch, inp):
    """assign the public attributes of an EXISTING Scheduler object"""
    from qutip_qip.compiler.scheduler import qubit_constraint
    sch.method = inp["method"]
    sch.allow_permutation = inp["perm"]
    cl = constraint_list(inp.get("cons"))
    sch.constraint_functions = [qubit_constraint] if cl is None else cl


def with_variants(rng, inp, p_cons=0.25, p_ctor=0.2):
    """decorate an ordinary input with (a) an equivalent multi-function constraint list, (b) constructor values that
    differ from the attribute values in force when schedule() is called"""
    if rng.random() < p_cons:
        inp["cons"] = list(rng.choice(CONS_EQUIV))
    if rng.random() < p_ctor:
        ctor = dict(method=rng.choice(["ASAP", "ALAP"]), perm=rng.random() < 0.5)
        if rng.random() < 0.6:
            ctor["perm"] = not inp["perm"]
        if rng.random() < 0.3:
            ctor["cons"] = list(rng.choice(CONS_EQUIV + CONS_STRICT))
        inp["ctor"] = ctor
    return inp


def _one_call(sch, call, SM):
    """one Scheduler.schedule call on the given Scheduler object -> (result, perms used by shuffle)"""
    import random as _random
    from qutip_qip.circuit import QubitCircuit
    rnd = _random.Random(call.get("shuf_seed", 0))
    perms = []

    def fake_shuffle(lst):
        p = list(range(len(lst)))
        rnd.shuffle(p)
        perms.append(p)
        lst[:] = [lst[i] for i in p]

    SM.shuffle = fake_shuffle
    try:
        mode = call.get("mode", "pulse")
        if call.get("as") == "circuit":
            N = max([q for s in call["instrs"] for q in spec_qubits(s)] + [0]) + 1
            obj = QubitCircuit(N)
            for s in call["instrs"]:
                obj.add_gate(mk_gate(s))
        elif call.get("as") == "gates":
            obj = [mk_gate(s) for s in call["instrs"]]
        else:
            obj = [mk_instruction(s) for s in call["instrs"]]
        kw = dict(random_shuffle=call.get("random", False))
        if call.get("repeat", 0):
            kw["repeat_num"] = call["repeat"]
        if mode == "pulse":
            res = sch.schedule(obj, **kw)
            res = [Fraction(float(x)) for x in res]
        elif mode == "cycles":
            res = sch.schedule(obj, gates_schedule=True, return_cycles_list=True, **kw)
            res = [[int(i) for i in c] for c in res]
        else:
            res = sch.schedule(obj, gates_schedule=True, **kw)
            res = [int(i) for i in res]
        return res, perms
    except Exception as e:  # noqa
        return "rejected: " + type(e).__name__, perms


def run_compile(inp):
    """Second observation point of C11: GateCompiler.compile(gates, schedule_mode=method) with a user compiler that
    turns gate k into ONE rectangular pulse of its own channel "p<k>" (amplitude k+1, duration d_k).  The realised
    timetable is read back from the compiled tlists/coeffs: the window in which channel p<k> is non-zero.
    -> list of realised start times (Fractions) | 'rejected: ...' | 'malformed: ...'"""
    from qutip_qip.compiler import GateCompiler, Instruction
    specs = inp["instrs"]
    durs = [float(eff_dur(s)) for s in specs]

    class OnePulsePerGate(GateCompiler):
        def __init__(self):
            super().__init__(num_qubits=max([q for s in specs for q in spec_qubits(s)] + [0]) + 1)
            self.k = 0
            for s in specs:
                self.gate_compiler[s["name"]] = self.one

        def one(self, gate, args):
            k = self.k
            self.k += 1
            return [Instruction(gate, tlist=durs[k], pulse_info=[("p%d" % k, float(k + 1))])]

    try:
        comp = OnePulsePerGate()
        tl, co = comp.compile([mk_gate(s) for s in specs], schedule_mode=inp["method"])
    except Exception as e:  # noqa
        return "rejected: " + type(e).__name__
    if not specs:
        return [] if tl is None else "malformed: pulses for an empty list"
    starts = []
    for k in range(len(specs)):
        T, C = tl.get("p%d" % k), co.get("p%d" % k)
        if T is None or len(T) != len(C) + 1:
            return "malformed: channel p%d has no discrete pulse" % k
        nz = [i for i, c in enumerate(C) if c != 0.0]
        if len(nz) != 1 or C[nz[0]] != float(k + 1):
            return "malformed: channel p%d does not carry exactly its own pulse" % k
        a, b = Fraction(float(T[nz[0]])), Fraction(float(T[nz[0] + 1]))
        if b - a != Fraction(durs[k]):
            return "malformed: pulse %d lasts %s instead of %s" % (k, b - a, Fraction(durs[k]))
        starts.append(a)
    return starts


def run_real(inp):
    """-> (result | 'rejected: ...', perms used by shuffle in the LAST call).
    inp["history"] (optional): earlier calls (dicts with instrs/mode/random/shuf_seed/as/repeat) made on the SAME
    Scheduler object before the call described by inp itself; their results are discarded here (every prefix of a
    history is generated as a case of its own)."""
    import qutip_qip.compiler.scheduler as SM
    from qutip_qip.compiler import Scheduler
    if inp.get("mode") == "compile":
        return run_compile(inp), []
    old = SM.shuffle
    try:
        try:
            first = (inp.get("history") or [inp])[0]
            sch = mk_scheduler(dict(inp, **{k: first[k] for k in ("method", "perm") if k in first},
                                    cons=first.get("cons", inp.get("cons"))) if inp.get("history") else inp)
        except Exception as e:  # noqa
            return "rejected: " + type(e).__name__, []
        for call in inp.get("history", []):
            if "method" in call:
                set_attributes(sch, call)      # attributes changed between two schedule() calls on one object
            _one_call(sch, call, SM)
        if inp.get("history"):
            set_attributes(sch, inp)
        return _one_call(sch, inp, SM)
    finally:
        SM.shuffle = old


# --------------------------------------------------------------------------------------------------
# Coq cases
# --------------------------------------------------------------------------------------------------
def frac_of_float(x):
    return Fraction(float(x))


def cinstr(spec):
    arg = spec.get("arg")
    if arg is None:
        args = []
    elif isinstance(arg, (list, tuple)):
        args = [frac_of_float(a) for a in arg]
    else:
        args = [frac_of_float(arg)]
    c, t = canon_roles(spec)
    return "(mkInstr %s %s %s %s %s)" % (
        cstr(spec["name"]), clist([cnat(x) for x in t]), clist([cnat(x) for x in c]),
        clist([cq(a) for a in args]), cq(eff_dur(spec)))


COQ_PRELUDE = (
    "From Coq Require Import String.\nFrom Coq Require Import List QArith.\nImport ListNotations.\n"
    "From QV Require Import Model.Sched Proofs.SchedCheck.\nOpen Scope string_scope.\n"
    "Definition qq (q : Q) := let r := Qred q in (Qnum r, Zpos (Qden r)).\n"
    "Definition R3 {A} (o : option (A * nat * nat)) := match o with Some (x, _, _) => Some x | None => None end.\n")


def coq_case(inp, perms, comm="commutation_rules", fixed=True):
    ins = clist([cinstr(s) for s in inp["instrs"]])
    alap = cbool(inp["method"] == "ALAP")
    rnd = cbool(bool(inp.get("random", False)))
    sh = "(sh_perms %s)" % clist([clist([cnat(i) for i in p]) for p in perms])
    perm = cbool(inp["perm"])
    if inp["mode"] == "compile":     # GateCompiler._schedule uses Scheduler(schedule_mode): default settings
        return "Eval vm_compute in (option_map (map qq) (sched_pulse %s true %s %s false %s so_asc %s 0 0))." % (
            comm, ins, alap, sh, cbool(fixed))
    if inp.get("repeat", 0):
        return "Eval vm_compute in (sched_repeat %s %s %s %s %s %s so_asc)." % (
            comm, perm, ins, cnat(inp["repeat"]), alap, sh)
    if inp["mode"] == "pulse":
        return "Eval vm_compute in (option_map (map qq) (sched_pulse %s %s %s %s %s %s so_asc %s 0 0))." % (
            comm, perm, ins, alap, rnd, sh, cbool(fixed))
    if inp["mode"] == "cycles":
        return "Eval vm_compute in (R3 (sched_cycles %s %s %s %s %s %s so_asc 0 0))." % (comm, perm, ins, alap, rnd, sh)
    return "Eval vm_compute in (R3 (sched_indices %s %s %s %s %s %s so_asc 0 0))." % (comm, perm, ins, alap, rnd, sh)


def canon_model(inp, val):
    """parsed Coq value -> same shape as run_real's result"""
    if val is None:
        return "rejected"
    assert isinstance(val, tuple) and val[0] == "Some", val
    v = val[1]
    if inp["mode"] in ("pulse", "compile") and not inp.get("repeat", 0):
        return [Fraction(a, b) for (a, b) in v]
    return v


def run_model_many(tag, items, comm="commutation_rules", fixed=True, chunk=400):
    """items: list of (inp, perms). Returns list of canonical model outputs."""
    files = []
    for k in range(0, len(items), chunk):
        body = COQ_PRELUDE + "\n".join(coq_case(i, p, comm, fixed) for i, p in items[k:k + chunk]) + "\n"
        files.append((f"{tag}_{k // chunk}", body))
    outs = coq_eval_many(files) if files else {}
    res = []
    for k in range(0, len(items), chunk):
        vals = parse_evals(outs[f"{tag}_{k // chunk}"])
        part = items[k:k + chunk]
        if len(vals) != len(part):
            raise Broken("coq-eval:" + tag, f"expected {len(part)} values, got {len(vals)}")
        res += [canon_model(i, v) for (i, _), v in zip(part, vals)]
    return res



def is_dyadic(fr, bits=40):
    d = fr.denominator
    return d & (d - 1) == 0 and d <= 2 ** bits and abs(fr.numerator) < 2 ** 60


def run_checker_many(tag, items, fn, comm="commutation_rules", chunk=400):
    """items: list of (inp, coq_literal_of_real_output); evaluates `fn comm perm instrs <output>` inside Coq"""
    files = []
    for k in range(0, len(items), chunk):
        body = COQ_PRELUDE + "\n".join(
            "Eval vm_compute in (%s %s %s %s %s)." % (fn, comm, cbool(i["perm"]), clist([cinstr(x) for x in i["instrs"]]), lit)
            for i, lit in items[k:k + chunk]) + "\n"
        files.append((f"{tag}_{k // chunk}", body))
    outs = coq_eval_many(files) if files else {}
    res = []
    for k in range(0, len(items), chunk):
        vals = parse_evals(outs[f"{tag}_{k // chunk}"])
        if len(vals) != len(items[k:k + chunk]):
            raise Broken("coq-eval:" + tag, "wrong number of values")
        res += vals
    return res


# --------------------------------------------------------------------------------------------------
# the property oracle (written from the property text; never looks at the model)
# --------------------------------------------------------------------------------------------------
def oracle_timetable(inp, starts, tol=Fraction(0)):
    """-> None if the start times are a valid timetable, else (what, detail)"""
    specs = inp["instrs"]
    n = len(specs)
    if not isinstance(starts, list) or len(starts) != n:
        return ("result is not a list of one start time per instruction", str(starts)[:200])
    if n == 0:
        return None
    d = [eff_dur(s) for s in specs]
    st = list(starts)
    if any(x < -tol for x in st):
        return ("negative start time", [str(x) for x in st])
    if abs(min(st)) > tol:
        return ("earliest start time is not zero", [str(x) for x in st])
    qs = [set(spec_qubits(s)) for s in specs]
    N = max([q for s in qs for q in s] + [0]) + 1
    for i in range(n):
        for j in range(i + 1, n):
            if qs[i] & qs[j]:
                if not (st[i] + d[i] <= st[j] + tol or st[j] + d[j] <= st[i] + tol):
                    return ("two instructions sharing a qubit overlap in time",
                            dict(i=i, j=j, interval_i=[str(st[i]), str(st[i] + d[i])], interval_j=[str(st[j]), str(st[j] + d[j])]))
                noncomm = (not inp["perm"]) and False
                if not gates_commute(specs[i], specs[j], N):
                    if st[j] + tol < st[i] + d[i]:
                        return ("instruction starts before an earlier non-commuting instruction has finished",
                                dict(earlier=i, later=j, finish_earlier=str(st[i] + d[i]), start_later=str(st[j])))
    if max(st[i] + d[i] for i in range(n)) > sum(d) + tol:
        return ("total duration exceeds sequential execution", dict(total=str(max(st[i] + d[i] for i in range(n))), sequential=str(sum(d))))
    return None


# --------------------------------------------------------------------------------------------------
# generators
# --------------------------------------------------------------------------------------------------
DYADIC = [Fraction(1), Fraction(2), Fraction(3), Fraction(1, 2), Fraction(5, 4), Fraction(10), Fraction(7, 8)]
TINY = Fraction(1, 2 ** 20)
HUGE = Fraction(2 ** 20)
# nanosecond-scale durations (2^-28 .. 2^-34 ~ 4e-9 .. 6e-11): correct non-zero start times lie below any
# "rounding error" threshold such as 1e-8 (the code itself uses 1e-8 in Instruction.__init__)
NANO = [Fraction(1, 2 ** 28), Fraction(3, 2 ** 30), Fraction(1, 2 ** 30), Fraction(5, 2 ** 33), Fraction(1, 2 ** 32),
        Fraction(3, 2 ** 34), Fraction(1, 2 ** 34)]
ORDINARY = [Fraction(1), Fraction(2), Fraction(1, 2), Fraction(5, 4), Fraction(4)]
BIG = [Fraction(2 ** 8), Fraction(2 ** 8 + 1), Fraction(3 * 2 ** 6)]
# every style keeps the binary exponents of one list within ~43 bits (2^-34 .. 2^9), so that all sums of at most
# 14 durations are exactly representable in a double and the model must agree bit for bit
STYLES = ["equal", "two", "extreme", "any", "any", "nano", "nano", "nano-equal", "nano-mixed", "nano-mixed", "nano-big"]


def with_durations(rng, specs, style):
    out = []
    eq = rng.choice(DYADIC)
    eqn = rng.choice(NANO)
    for s in specs:
        s = dict(s)
        if style == "equal":
            dd = eq
        elif style == "two":
            dd = rng.choice([Fraction(1), Fraction(4)])
        elif style == "extreme":
            dd = rng.choice([TINY, HUGE, Fraction(1), TINY * 3, HUGE + 1])
        elif style == "nano":
            dd = rng.choice(NANO)
        elif style == "nano-equal":
            dd = eqn
        elif style == "nano-mixed":
            dd = rng.choice(NANO + NANO + ORDINARY)
        elif style == "nano-big":
            dd = rng.choice(NANO + ORDINARY + BIG)
        else:
            dd = Fraction(rng.randint(1, 64), rng.choice([1, 2, 4, 8, 16]))
        s["dur"] = [dd.numerator, dd.denominator]
        r = rng.random()
        if r < 0.04:
            s["how"] = "tlist"
        elif r < 0.08:
            s["how"] = "tlist_scalar"
        elif r < 0.10:
            s["how"] = "none"
        out.append(s)
    return out


def gen_input(rng, nmax, N=None, mode="pulse", kinds=None):
    N = N or rng.choice([2, 3, 3, 4, 5])
    n = rng.randint(1, nmax)
    specs = [rand_gate(rng, N, kinds) for _ in range(n)]
    specs = with_durations(rng, specs, rng.choice(STYLES))
    return dict(instrs=specs, method=rng.choice(["ASAP", "ALAP"]), perm=rng.random() < 0.7,
                random=rng.random() < 0.4, shuf_seed=rng.randrange(10 ** 6), mode=mode)


SMALL_ALPHABET = [
    dict(name="RZ", targets=[0], controls=None, arg=0.5),
    dict(name="RZ", targets=[1], controls=None, arg=0.5),
    dict(name="X", targets=[1], controls=None, arg=None),
    dict(name="CNOT", targets=[1], controls=[0], arg=None),
    dict(name="CNOT", targets=[2], controls=[0], arg=None),
    dict(name="SWAP", targets=[1, 2], controls=None, arg=None),
]


DUR_PAIRS = {"1,4": (Fraction(1), Fraction(4)),
             "nano": (Fraction(1, 2 ** 30), Fraction(1, 2 ** 28)),          # ~9.3e-10, ~3.7e-9
             "nano,1": (Fraction(3, 2 ** 31), Fraction(1))}                # tiny next to ordinary


def exhaustive_inputs(maxlen, durs="1,4"):
    syms = [dict(g, dur=[d.numerator, d.denominator]) for g in SMALL_ALPHABET for d in DUR_PAIRS[durs]]
    for L in range(1, maxlen + 1):
        for combo in itertools.product(range(len(syms)), repeat=L):
            for method in ("ASAP", "ALAP"):
                yield dict(instrs=[syms[i] for i in combo], method=method, perm=True, random=False, shuf_seed=0, mode="pulse")


COMMUTING_KINDS = ["CNOT", "CNOT", "CNOT", "RZ", "RZ", "Z", "X", "RX", "SNOT"]


def _call_of(inp):
    return {k: inp[k] for k in ("instrs", "mode", "random", "shuf_seed", "as", "repeat", "method", "perm", "cons") if k in inp}


def gen_history(rng):
    """2-4 different instruction lists scheduled one after the other on ONE Scheduler object (same method and
    allow_permutation).  Returns one input per call: call k carries calls 1..k-1 as inp["history"].  The lists are
    built so that instructions at equal positions share a qubit in one call and not in another (spread = every
    instruction on its own qubit where possible, packed = few qubits and commuting families), with equal and
    different lengths and different duration styles."""
    k = rng.randint(2, 4)
    method = rng.choice(["ASAP", "ALAP"])
    perm = rng.random() < 0.8
    same_len = rng.random() < 0.5
    n0 = rng.randint(2, 7)
    mutate = rng.random() < 0.4
    cons = list(rng.choice(CONS_EQUIV)) if rng.random() < 0.25 else None
    calls = []
    for c in range(k):
        n = n0 if same_len else rng.randint(1, 8)
        shape = rng.choice(["spread", "packed", "packed", "random", "roles"])
        if shape == "roles":
            specs = [dict(x) for x in gen_roles(rng, n)["instrs"]]
            for x in specs:
                x.pop("dur", None)
                x.pop("how", None)
        elif shape == "spread":
            qs = list(range(5))
            rng.shuffle(qs)
            specs = [dict(name=rng.choice(["X", "RZ", "Z", "SNOT"]), targets=[qs[i % 5]], controls=None, arg=None) for i in range(n)]
            for sp in specs:
                if sp["name"] == "RZ":
                    sp["arg"] = rng.choice(ANGLES)
        elif shape == "packed":
            N = rng.choice([2, 3, 3])
            specs = [rand_gate(rng, N, COMMUTING_KINDS) for _ in range(n)]
        else:
            specs = [rand_gate(rng, rng.choice([3, 4, 5])) for _ in range(n)]
        specs = with_durations(rng, specs, rng.choice(STYLES))
        call = dict(instrs=specs, method=method, perm=perm, random=rng.random() < 0.25,
                    shuf_seed=rng.randrange(10 ** 6), mode="pulse" if c == k - 1 or rng.random() < 0.8 else "cycles")
        if mutate and c:
            # the public attributes are re-assigned between two schedule() calls on the one object
            call["method"] = rng.choice(["ASAP", "ALAP"])
            call["perm"] = (not calls[-1]["perm"]) if rng.random() < 0.6 else rng.random() < 0.5
            if rng.random() < 0.4:
                call["cons"] = list(rng.choice(CONS_EQUIV))
        elif cons is not None:
            call["cons"] = list(cons)
        calls.append(call)
    out = []
    for c in range(k):
        inp = dict(calls[c])
        if c:
            inp["history"] = [_call_of(x) for x in calls[:c]]
        out.append(inp)
    return out


def gen_compile(rng):
    """instruction list for the GateCompiler.compile(schedule_mode=...) entry point (one pulse per gate, own channel).
    Lists of >= 3 gates with different durations: the time order is then usually a non-involutive permutation of the
    list order (counted in the evidence)."""
    N = rng.choice([2, 3, 3, 4, 5])
    n = rng.randint(3, 8)
    kinds = rng.choice([None, None, ["CNOT", "CNOT", "X", "RX", "Z", "RZ", "RZ", "SNOT"]])
    specs = [rand_gate(rng, N, kinds) for _ in range(n)]
    specs = with_durations(rng, specs, rng.choice(["two", "any", "any", "nano", "nano-mixed", "nano-big", "extreme"]))
    for x in specs:
        x.pop("how", None)
    return dict(instrs=specs, method=rng.choice(["ASAP", "ALAP"]), perm=True, random=False, shuf_seed=0, mode="compile")


def role_form(rng, a, b, c=None):
    """a gate whose matrix depends on the ORDER / ROLE in which its qubits are listed: the non-symmetric user gate and
    RZX on permuted targets, plain Gate objects with targets-only or any control/target split"""
    x = rng.choice([0.5, 1.25])
    if rng.random() < 0.5:
        a, b = b, a
    r = rng.random()
    if r < 0.40:
        return dict(name=USER_GATE, targets=[a, b], controls=None, arg=x)
    if r < 0.55:
        return dict(name=USER_GATE, targets=[b], controls=[a], arg=x)
    if r < 0.70:
        return dict(name="RZX", targets=[a, b], controls=None, arg=x)
    if r < 0.80:
        k = rng.choice(["CNOT", "CZ", "CRX"])
        return dict(name=k, targets=[a, b], controls=None, generic=True, arg=x if k == "CRX" else None)
    if r < 0.88:
        return dict(name="CNOT", targets=[], controls=[a, b], arg=None, generic=True)
    if r < 0.94 or c is None:
        return dict(name="SWAP", targets=[b], controls=[a], arg=None, generic=True)
    return dict(name=rng.choice(["TOFFOLI", "FREDKIN"]), targets=[c], controls=[a, b], arg=None, generic=True)


def gen_roles(rng, n=None):
    """lists dominated by order/role-sensitive gates on ONE pair of qubits (so the same qubits occur in different
    orders), equal parameters from a two-letter alphabet, two-valued or nanosecond durations so that the priority
    reverses equal-looking neighbours under ASAP and ALAP"""
    N = rng.choice([2, 3, 3])
    a, b = rng.sample(range(N), 2)
    c = [q for q in range(N) if q not in (a, b)][0] if N == 3 else None
    n = n or rng.randint(2, 6)
    specs = []
    for _ in range(n):
        if rng.random() < 0.8:
            specs.append(role_form(rng, a, b, c))
        else:
            specs.append(rand_gate(rng, N, ["X", "RZ", "SNOT", "CNOT", "RZX"]))
    specs = with_durations(rng, specs, rng.choice(["two", "two", "any", "nano", "nano-mixed"]))
    return dict(instrs=specs, method=rng.choice(["ASAP", "ALAP"]), perm=rng.random() < 0.85,
                random=rng.random() < 0.2, shuf_seed=rng.randrange(10 ** 6), mode="pulse")


PARAM_ALPHABET = [0.5, 1.25]     # small on purpose: equal-prefix / equal-suffix / fully equal parameter tuples occur
# Scheduler.__init__ accepts any method string without validation; the shipped code treats everything that is not exactly
# "ALAP" as ASAP.  Nothing is documented for these spellings, so only the property itself (valid timetable) is required
METHOD_SPELLINGS = ["alap", " ALAP", "Alap", "ALAP ", "asap", "Asap", " ASAP", "aLAP", "alap\n"]


def gen_multiparam(rng):
    """same-name gates with SEVERAL parameters (R, QASMU, MS, a user gate with a list argument) on the same targets,
    parameter tuples from a two-letter alphabet, with two duration values so that the priority (longer distance to
    the end first) puts the later gate first under ASAP and the earlier one first under ALAP"""
    N = rng.choice([1, 2, 2, 3])
    n = rng.randint(2, 6)
    fam = rng.choice(["QASMU", "QASMU", USER_LIST_GATE, "R", "MS"] if N >= 2 else ["QASMU", "QASMU", USER_LIST_GATE, "R"])
    a = lambda: rng.choice(PARAM_ALPHABET)
    specs = []
    pair = sorted(rng.sample(range(N), 2)) if N >= 2 else None
    q0 = rng.randrange(N)
    for _ in range(n):
        r = rng.random()
        if r < 0.75:
            if fam == "MS":
                specs.append(dict(name="MS", targets=list(pair), controls=None, arg=[a(), a()]))
            elif fam == "R":
                specs.append(dict(name="R", targets=[q0], controls=None, arg=[a(), a()]))
            else:
                specs.append(dict(name=fam, targets=[q0], controls=None, arg=[a(), a(), a()]))
        else:
            specs.append((role_form(rng, 0, 1) if rng.random() < 0.5 else
                          rand_gate(rng, max(N, 2), ["X", "RZ", "CNOT", "SNOT", "QASMU", "R"])) if N >= 2
                         else dict(name=rng.choice(["X", "Z", "SNOT"]), targets=[0], controls=None, arg=None))
    specs = with_durations(rng, specs, rng.choice(["two", "two", "any", "nano", "nano-mixed"]))
    return dict(instrs=specs, method=rng.choice(["ASAP", "ALAP"]), perm=rng.random() < 0.85,
                random=rng.random() < 0.2, shuf_seed=rng.randrange(10 ** 6), mode="pulse")


def rel_tol(inp):
    """tolerance for start times that went through inexact float sums: relative to the total duration (an absolute
    tolerance would hide errors on nanosecond-scale schedules)"""
    return Fraction(1, 10 ** 10) * sum([eff_dur(s) for s in inp["instrs"]], Fraction(0))


def key_of(inp):
    return json.dumps(inp, sort_keys=True)


def nontrivial(inp):
    qs = [set(spec_qubits(s)) for s in inp["instrs"]]
    return any(qs[i] & qs[j] for i in range(len(qs)) for j in range(i + 1, len(qs)))


def load_corpus(pid):
    d = os.path.join(VERIF, "corpus", pid)
    out = []
    if os.path.isdir(d):
        for f in sorted(os.listdir(d)):
            if f.endswith(".json"):
                rec = json.load(open(os.path.join(d, f)))
                out.append(rec.get("input", rec))
    return out


def show(res):
    if isinstance(res, list):
        return [show(x) for x in res]
    if isinstance(res, Fraction):
        return str(res)
    return res


# --------------------------------------------------------------------------------------------------
# correspondence
# --------------------------------------------------------------------------------------------------
def correspond(ctx):
    corr = Corr(rule="at least two instructions share a qubit (so the dependency graph or the hardware constraint matters)")
    rng = ctx.rng
    exact = []       # inputs tied exactly to the model (<= 8 instructions)
    for inp in load_corpus("C11"):
        exact.append(("corpus", inp))
    # structured random, exact tie
    for _ in range(ctx.n(1500, 6000)):
        exact.append(("random<=8", with_variants(rng, gen_input(rng, 8, mode="pulse"))))
    for _ in range(ctx.n(200, 800)):
        exact.append(("cycles-with-durations", gen_input(rng, 8, mode=rng.choice(["cycles", "indices"]))))
    # commutation-rule heavy
    for _ in range(ctx.n(400, 1500)):
        exact.append(("cnot-x-z", with_variants(rng, gen_input(rng, 7, N=rng.choice([2, 3]), kinds=["CNOT", "CNOT", "X", "RX", "Z", "RZ", "RZ", "SNOT"]), 0.4, 0.3)))
    # histories: several different lists scheduled on ONE Scheduler object; the model is history-free, so every
    # call must give what a fresh Scheduler gives
    for _ in range(ctx.n(350, 1500)):
        for inp in gen_history(rng):
            exact.append(("history-call-%d" % (len(inp.get("history", [])) + 1), inp))
    # second observation point: GateCompiler.compile(..., schedule_mode=...) with a one-pulse-per-gate user compiler;
    # the realised windows must be the model's start times
    for _ in range(ctx.n(350, 1500)):
        exact.append(("compile-entry-point", gen_compile(rng)))
    # several-parameter gates with parameter tuples from a small alphabet (equal suffix / prefix / equal tuples)
    for _ in range(ctx.n(500, 2000)):
        exact.append(("multi-parameter-same-target", with_variants(rng, gen_multiparam(rng))))
    # order/role-sensitive gates (user gate, RZX, plain Gate objects with unusual control/target splits)
    for _ in range(ctx.n(500, 2000)):
        exact.append(("role-and-order-forms", with_variants(rng, gen_roles(rng))))
    # exhaustive small alphabet, two durations
    ex = list(exhaustive_inputs(ctx.n(2, 4)))
    if not ctx.thorough:
        ex += rng.sample(list(exhaustive_inputs(3))[len(ex):], 500)
    for durs in ("nano", "nano,1"):      # the same sweep with nanosecond-scale durations
        part = list(exhaustive_inputs(ctx.n(2, 3), durs))
        if not ctx.thorough:
            part += rng.sample(list(exhaustive_inputs(3, durs))[len(part):], 300)
        ex += part
    for inp in ex:
        exact.append(("exhaustive-small-alphabet", inp))
    # rejected / degenerate
    gp = dict(name="GLOBALPHASE", targets=None, controls=None, arg=0.5, dur=[1, 1])
    for m in ("ASAP", "ALAP"):
        exact.append(("degenerate", dict(instrs=[], method=m, perm=True, random=False, shuf_seed=0, mode="pulse")))
        exact.append(("degenerate", dict(instrs=[gp], method=m, perm=True, random=False, shuf_seed=0, mode="pulse")))
        exact.append(("degenerate", dict(instrs=[gp, dict(SMALL_ALPHABET[0], dur=[2, 1]), gp], method=m, perm=True, random=False, shuf_seed=0, mode="pulse")))

    reals = [run_real(inp) for _, inp in exact]
    models = run_model_many("c11", [(inp, perms) for (_, inp), (_, perms) in zip(exact, reals)])
    for (kind, inp), (res, perms), mod in zip(exact, reals, models):
        corr.tally(kind)
        corr.tally("n=%d" % len(inp["instrs"]))
        corr.tally(inp["method"] + ("+shuffle" if inp.get("random") else ""))
        if inp.get("cons") and len(inp["cons"]) > 1:
            corr.tally("constraint list with >= 2 functions" + ("" if inp["cons"][0] == "qubit" else ", qubit_constraint not first"))
        if inp.get("ctor"):
            corr.tally("attributes re-assigned after construction")
        if any("method" in c for c in inp.get("history", [])):
            corr.tally("attributes re-assigned between schedule() calls")
        corr.count(key_of(inp), nontrivial=nontrivial(inp), sample=inp)
        r = "rejected" if isinstance(res, str) else res
        if r != mod:
            corr.disagree(inp, show(res), show(mod), "Sched model vs Scheduler.schedule (%s)" % inp["mode"])
        if inp["mode"] in ("pulse", "compile") and not isinstance(res, str):
            bad = oracle_timetable(inp, res)
            if bad:
                corr.oracle_fail(inp, dict(start_times=show(res), detail=bad[1]), "a valid timetable", bad[0])
            if inp["mode"] == "compile" and isinstance(mod, list) and len(mod) == len(res):
                order = sorted(range(len(mod)), key=lambda i: (mod[i], i))
                if any(order[order[i]] != i for i in range(len(order))):
                    corr.tally("compile: time order is a non-involutive permutation of list order")
        elif inp["mode"] == "compile" and isinstance(res, str) and (res.startswith("malformed") or any(spec_qubits(x) for x in inp["instrs"])):
            corr.oracle_fail(inp, res, "every compiled pulse occupies its own scheduled window",
                             "GateCompiler.compile(schedule_mode=...) does not realise a timetable")

    # oracle-only stream: longer lists (set iteration order not tied), continuous durations
    n_long = 0
    to_check = []
    for _ in range(ctx.n(1200, 6000)):
        inp = gen_input(rng, 14, mode="pulse")
        continuous = rng.random() < 0.5
        if continuous:
            scale = rng.choice(["mixed", "mixed", "ordinary", "nano", "nano", "huge"])
            for s in inp["instrs"]:
                if scale == "mixed":
                    x = rng.choice([rng.uniform(0.01, 10.0), rng.uniform(1e-7, 1e-6), rng.uniform(1e5, 1e6)])
                elif scale == "ordinary":
                    x = rng.uniform(0.01, 10.0)
                elif scale == "nano":
                    x = rng.choice([rng.uniform(5e-11, 5e-9), rng.uniform(1e-9, 4e-9)])
                else:
                    x = rng.uniform(1e5, 1e6)
                fr = Fraction(x)
                s["dur"] = [fr.numerator, fr.denominator]
                s.pop("how", None)
        r_ = rng.random()
        if r_ < 0.15:
            inp["cons"] = list(rng.choice(CONS_STRICT + CONS_EQUIV))
        elif r_ < 0.30:
            # the method string in another spelling: the property speaks of every returned timetable
            inp["method"] = rng.choice(METHOD_SPELLINGS)
            corr.tally("method spelling " + repr(inp["method"]))
        res, _ = run_real(inp)
        corr.tally("oracle-only<=14")
        corr.count(key_of(inp), nontrivial=nontrivial(inp))
        n_long += 1
        if not isinstance(res, str) and not continuous and all(is_dyadic(x) for x in res):
            to_check.append((inp, clist([cq(x) for x in res])))
        if isinstance(res, str):
            corr.oracle_fail(inp, res, "start times", "scheduler raised on a valid instruction list")
            continue
        bad = oracle_timetable(inp, res, Fraction(0) if not continuous else rel_tol(inp))
        if bad:
            corr.oracle_fail(inp, dict(start_times=[float(x) for x in res], detail=bad[1]), "a valid timetable", bad[0])
    corr.extra["oracle_only_cases"] = n_long
    # the real output, validated inside Coq by the proved checker (Props/C11.v valid_timetable_sound)
    verdicts = run_checker_many("c11chk", to_check, "valid_timetable")
    for (inp, lit), ok in zip(to_check, verdicts):
        corr.tally("real-output-checked-in-coq")
        if ok is not True:
            corr.disagree(inp, lit, ok, "real start times rejected by the proved checker valid_timetable")
    corr.extra["checked_in_coq"] = len(to_check)
    return corr


# --------------------------------------------------------------------------------------------------
# known findings / search / replay
# --------------------------------------------------------------------------------------------------
def classify(failure):
    return None


def replay(ctx, rec):
    inp = rec["input"]
    res, _ = run_real(inp)
    if isinstance(res, str):
        return True
    if inp.get("mode", "pulse") not in ("pulse", "compile"):
        return False
    return oracle_timetable(inp, res, rel_tol(inp)) is not None


def search(ctx, broken):
    out = []
    cands = load_corpus("C11") + list(exhaustive_inputs(3)) + list(exhaustive_inputs(2, "nano")) + list(exhaustive_inputs(2, "nano,1"))
    rng = ctx.rng
    cands += [gen_input(rng, 10, mode="pulse") for _ in range(2000)]
    cands += [i for _ in range(400) for i in gen_history(rng) if i["mode"] == "pulse"]
    for _ in range(1500):
        i = with_variants(rng, gen_input(rng, 8, N=rng.choice([2, 3]), mode="pulse", kinds=COMMUTING_KINDS), 0.5, 0.4)
        if rng.random() < 0.3:
            i["method"] = rng.choice(METHOD_SPELLINGS)
        cands.append(i)
    cands += [gen_compile(rng) for _ in range(600)] + [gen_multiparam(rng) for _ in range(600)] + [gen_roles(rng) for _ in range(600)]
    for inp in cands:
        res, _ = run_real(inp)
        if isinstance(res, str):
            if any(spec_qubits(s) for s in inp["instrs"]):
                out.append(dict(input=inp, observed=res, expected="start times", what="scheduler raised on a valid instruction list"))
            if len(out) >= 3:
                break
            continue
        bad = oracle_timetable(inp, res, rel_tol(inp))
        if bad:
            out.append(dict(input=inp, observed=dict(start_times=show(res), detail=bad[1]), expected="a valid timetable", what=bad[0]))
        if len(out) >= 3:
            break
    return out
