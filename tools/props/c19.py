"""C19 -- the VQA gradient is the derivative of the cost.

Tie between coq/Model/Vqa.v and qutip_qip/vqa.py:
  * structural tables (block series, number of free parameters, gate/slice table of construct_circuit,
    the (block, slice, term) of every get_unitary_derivative call made by compute_jac) must agree EXACTLY;
  * the model is run on the symbolic algebra `ex`; the harness evaluates the printed expression trees
    numerically (own numpy formulas for the block unitaries / derivatives) and compares them with
    evaluate_parameters / compute_jac of the real objects to 1e-9;
Property oracle (independent of the model): central finite differences of the real evaluate_parameters
versus the real compute_jac, one entry per requested free parameter, rel. tolerance 1e-5; plus a
finite-difference validation of the assumed block-level derivative formula, and a few real
optimize_parameters(use_jac=True) runs whose every jac call is checked for shape.
Histories: a share of the cases runs several compute_jac / evaluate_parameters calls on ONE VQA object with
numpy parameter arrays that are updated IN PLACE in between (a -= step, a[:] = new, a *= c; a second array
interleaved).  The model is stateless, so every call is compared with the model trees evaluated at the
CURRENT values and with finite differences on a fresh object (catches stale caches / aliasing of the
caller's array).
Generator families: besides generic random Hermitian generators, Hamiltonian blocks / ParameterizedHamiltonian
terms are drawn from families with special spectra (Pauli strings, scaled Paulis, normalised sums of commuting
Paulis with tr(H^2) = dim, random generators normalised to tr(H^2) = dim, (scaled) projectors, non-Pauli
involutions, degenerate / integer spectra); get_unitary of every such block is compared with the harness's own expm.
Subclass hooks: a share of the cases uses a SUBCLASS of VQA overriding get_initial_state() (|+..+>, another basis
state, a random state); the model's expectation is then taken in that state, the finite-difference oracle is
unchanged (gradient = derivative of the evaluated cost of the same object).
"""
import contextlib
import glob
import io
import itertools
import json
import math
import os

for _v in ("OMP_NUM_THREADS", "OPENBLAS_NUM_THREADS", "MKL_NUM_THREADS"):
    os.environ.setdefault(_v, "1")   # 2x2..8x8 matrices: threads only hurt on a shared machine

import numpy as np

from common import (Corr, Broken, coq_eval_many, parse_evals, cnat, cbool, clist, REPO, SRC, VERIF, COQ)

ID = "C19"
TARGETS = ["Props/C19.vo"]
TRUSTED = [
    "differentiation is abstracted algebraically (Proofs/VqaAlg.v diff_algebra): operators form a monoid with zero "
    "and a formal derivation d_j (Leibniz, d_j 1 = 0, commutes with adjoint); no analysis is formalised",
    "ASSUMED block-level derivative formula: d/d(theta_t) of VQABlock.get_unitary(theta) is what "
    "VQABlock.get_unitary_derivative(theta, t) returns (U*(-iH) for a Hamiltonian, scipy.linalg.expm_frechet for a "
    "ParameterizedHamiltonian), and a block unitary depends on no other parameter; validated by finite differences "
    "on every generated parameterised block (tolerance 1e-6)",
    "ASSUMED: expect(obs, circ.run(psi0)) = Re<psi0|U^dag O U|psi0>, psi0 = self.get_initial_state() (|0..0> for the base "
    "class; the harness also runs subclasses overriding that hook and evaluates the model's EEv node in their state), U = gate_sequence_product(circ.propagators()) "
    "= P_{n-1}...P_0, propagator k of a user gate = user_gates[name](arg_value); Qobj arithmetic is exact matrix "
    "arithmetic; validated numerically (model expression tree evaluated in numpy vs evaluate_parameters/compute_jac, 1e-9)",
    "library-gate matrices and their expansion (QubitCircuit.propagators) are taken from the implementation (C08/C09)",
    "the theorems are about the code WITH fixes/C19-jac-per-parameter.diff; the unchanged code is modelled by "
    "compute_jac_orig and refuted (C19_orig_length_refuted, C19_orig_subset_refuted)",
    "block kinds outside the property text (python-function blocks, ParameterizedHamiltonian with 0 terms, library "
    "gates that need an angle) are modelled only as 'raises' and compared as such",
]
ASSUMES = [
    "num_layers >= 1 (enforced by VQA.__init__)",
    "blocks are Hamiltonians (Qobj), ParameterizedHamiltonians with >= 1 term, fixed unitaries, or parameterless library gates",
    "angle vector has at least get_free_parameters_num() entries (surplus entries are ignored; a shorter vector is proved to be rejected)",
    "cost_method = OBSERVABLE with a Hermitian observable",
]

NATIVE_1Q = ["SNOT", "X", "Y", "Z", "S", "T", "SQRTNOT"]
NATIVE_2Q = ["SWAP", "ISWAP", "SQRTSWAP", "BERKELEY"]
NATIVE_ARG = ["RX", "RY", "RZ"]
KEY_MULTI = "multi-param-block-one-entry"


# ------------------------------------------------------------------------------------------------
# building the real objects from a JSON case
# ------------------------------------------------------------------------------------------------
def _herm(seed, nq, scale=None):
    rs = np.random.RandomState(seed % (2 ** 31))
    d = 2 ** nq
    m = rs.randn(d, d) + 1j * rs.randn(d, d)
    h = (m + m.conj().T) / 2
    h = h / np.linalg.norm(h, 2)
    return h * (scale if scale is not None else (0.5 + rs.rand()))


# Hermitian generator FAMILIES with special spectra (the random `_herm` has a generic, non-degenerate
# spectrum and never satisfies an algebraic identity such as H^2 = 1 or tr(H^2) = dim):
FAMILIES = ("pauli", "pauli_scaled", "comm_sum", "trnorm", "scaled_projector", "projector", "involution",
            "degenerate", "diag_special")
_PAULI = {
    "I": np.eye(2, dtype=complex),
    "X": np.array([[0, 1], [1, 0]], dtype=complex),
    "Y": np.array([[0, -1j], [1j, 0]], dtype=complex),
    "Z": np.array([[1, 0], [0, -1]], dtype=complex),
}


def _pauli_string(letters):
    m = np.eye(1, dtype=complex)
    for l in letters:
        m = np.kron(m, _PAULI[l])
    return m


def _herm_family(seed, nq, fam):
    """deterministic Hermitian generator of the named family on nq qubits"""
    rs = np.random.RandomState((seed * 31 + 17) % (2 ** 31))
    d = 2 ** nq
    if fam in ("pauli", "pauli_scaled"):
        while True:
            letters = [rs.choice(list("IXYZ")) for _ in range(nq)]
            if any(l != "I" for l in letters):
                break
        h = _pauli_string(letters)
        if fam == "pauli_scaled":
            h = h * float(rs.choice([0.5, -1.0, 2.0, 1.5, 0.25, -0.75]))
        return h
    if fam == "comm_sum":
        # normalised sum of k distinct commuting Pauli strings (all letters from {I, P} with one P per qubit,
        # P a per-qubit fixed Pauli): tr(H^2) = dim, H^2 != 1 for k >= 2
        axes = [rs.choice(list("XYZ")) for _ in range(nq)]
        masks = list(range(1, d))
        rs.shuffle(masks)
        k = 1 if d == 2 else int(rs.randint(2, min(4, d - 1) + 1))
        terms = [_pauli_string([axes[q] if (m >> q) & 1 else "I" for q in range(nq)]) for m in masks[:k]]
        if d == 2:   # one qubit: (P + c 1) normalised to tr(H^2) = 2
            c = float(rs.choice([0.5, 1.0, 2.0]))
            return (terms[0] + c * np.eye(2)) / math.sqrt(1 + c * c)
        signs = [float(rs.choice([1.0, -1.0])) for _ in terms]
        return sum(s * t for s, t in zip(signs, terms)) / math.sqrt(k)
    v = _unitary(seed + 5, nq)
    if fam == "trnorm":
        m = rs.randn(d, d) + 1j * rs.randn(d, d)
        h = (m + m.conj().T) / 2
        return h * math.sqrt(d / float(np.real(np.trace(h @ h))))
    if fam == "scaled_projector":      # sqrt(dim/r) * projector of rank r: tr(H^2) = dim
        r = int(rs.randint(1, d))
        ev = np.array([1.0] * r + [0.0] * (d - r)) * math.sqrt(d / r)
    elif fam == "projector":
        r = int(rs.randint(1, d))
        ev = np.array([1.0] * r + [0.0] * (d - r))
    elif fam == "involution":          # H^2 = 1 exactly up to rounding, not a Pauli string
        r = int(rs.randint(0, d + 1))
        ev = np.array([1.0] * r + [-1.0] * (d - r))
    elif fam == "degenerate":
        ev = np.array([float(rs.choice([0.0, 1.0, -1.0, 0.5, 2.0])) for _ in range(d)])
    elif fam == "diag_special":        # diagonal, spectrum with tr(H^2) = dim or integer entries
        if rs.rand() < 0.5:
            ev = np.zeros(d)
            ev[0] = math.sqrt(d / 2.0)
            ev[-1] = -math.sqrt(d / 2.0)
        else:
            ev = np.array([float(rs.randint(-2, 3)) for _ in range(d)])
        rs.shuffle(ev)
        return np.diag(ev).astype(complex)
    else:
        raise ValueError(fam)
    return (v * ev) @ v.conj().T


def _gen_matrix(b, seed, nq):
    """generator of a block description: random generic unless the block names a family"""
    fam = b.get("fam")
    return _herm(seed, nq) if not fam else _herm_family(seed, nq, fam)


def _init_state(hook, nq):
    """the state a subclass's get_initial_state() returns (None: the base class's |0..0>)"""
    d = 2 ** nq
    psi = np.zeros(d, dtype=complex)
    kind = (hook or {}).get("init")
    if kind is None:
        psi[0] = 1.0
    elif kind == "plus":
        psi[:] = 1.0 / math.sqrt(d)
    elif kind == "basis":
        psi[hook["seed"] % d] = 1.0
    elif kind == "random":
        rs = np.random.RandomState(hook["seed"] % (2 ** 31))
        psi = rs.randn(d) + 1j * rs.randn(d)
        psi = psi / np.linalg.norm(psi)
    else:
        raise ValueError(kind)
    return psi


def make_vqa(case):
    """the real object: VQA itself, or a SUBCLASS overriding the public hook get_initial_state()"""
    import qutip
    from qutip_qip.vqa import VQA
    nq = case["nq"]
    hook = case.get("hook")
    if not hook:
        return VQA(num_qubits=nq, num_layers=case["layers"])
    psi = _init_state(hook, nq)

    class HookedVQA(VQA):
        def get_initial_state(self):
            return qutip.Qobj(psi.reshape(-1, 1), dims=[[2] * self.num_qubits, [1] * self.num_qubits])

    return HookedVQA(num_qubits=nq, num_layers=case["layers"])


def _unitary(seed, nq):
    rs = np.random.RandomState(seed % (2 ** 31))
    d = 2 ** nq
    q, r = np.linalg.qr(rs.randn(d, d) + 1j * rs.randn(d, d))
    return q * (np.diag(r) / np.abs(np.diag(r)))


def _expm(a):
    import scipy.linalg
    return scipy.linalg.expm(a)


class Built:
    """The real VQA plus the harness's own numeric description of every block."""

    def __init__(self, case):
        import qutip
        from qutip_qip.vqa import VQA, VQABlock, ParameterizedHamiltonian
        nq = case["nq"]
        dims = [[2] * nq, [2] * nq]
        self.case = case
        self.nq = nq
        self.vqa = make_vqa(case)
        self.psi0 = _init_state(case.get("hook"), nq)
        self.obs = _herm(case["obs_seed"], nq, scale=1.0 + (case["obs_seed"] % 3))
        self.vqa.cost_observable = qutip.Qobj(self.obs, dims=dims)
        self.spec = []      # per block: dict(kind, H=[...], c=..., U=...)
        self.blocks = []
        self._fix = {}
        for b in case["blocks"]:
            self._add(b)

    def _add(self, b):
        import qutip
        from qutip_qip.vqa import VQABlock, ParameterizedHamiltonian
        nq = self.nq
        dims = [[2] * nq, [2] * nq]
        k = b["kind"]
        s = dict(kind=k, initial=bool(b.get("initial")))
        if k == "ham":
            s["H"] = [_gen_matrix(b, b["seed"], nq)]
            s["c"] = None
            blk = VQABlock(qutip.Qobj(s["H"][0], dims=dims), initial=s["initial"])
        elif k == "ph":
            s["H"] = [_gen_matrix(b, b["seed"] + 101 * t, nq) for t in range(b["m"])]
            s["c"] = _herm(b["seed"] + 7777, nq) if b.get("const") else None
            if b["m"] == 0 and s["c"] is None:
                s["c"] = _herm(b["seed"] + 7777, nq)
            ph = ParameterizedHamiltonian(
                [qutip.Qobj(h, dims=dims) for h in s["H"]],
                qutip.Qobj(s["c"], dims=dims) if s["c"] is not None else None)
            blk = VQABlock(ph, initial=s["initial"])
        elif k == "unit":
            s["U"] = _unitary(b["seed"], nq)
            blk = VQABlock(qutip.Qobj(s["U"], dims=dims), is_unitary=True, initial=s["initial"])
        elif k in ("native", "native_arg"):
            s["gate"] = b["gate"]
            s["targets"] = list(b["targets"])
            blk = VQABlock(b["gate"], targets=list(b["targets"]), initial=s["initial"])
        elif k == "func":
            s["H"] = [_herm(b["seed"], nq)]
            s["c"] = None
            hq = qutip.Qobj(s["H"][0], dims=dims)
            blk = VQABlock((lambda hq_: (lambda t: (-1j * t * hq_).expm()))(hq), initial=s["initial"])
        else:
            raise ValueError(k)
        self.vqa.add_block(blk)
        self.blocks.append(blk)
        self.spec.append(s)

    # --- mutations of the live object (histories) ---------------------------------------------
    def mutate(self, mut, new_case):
        """apply one user-level change to the REAL object and to the harness's own description"""
        import qutip
        dims = [[2] * self.nq, [2] * self.nq]
        op = mut["op"]
        if op == "obs":
            self.obs = _herm(mut["obs_seed"], self.nq, scale=1.0 + (mut["obs_seed"] % 3))
            self.vqa.cost_observable = qutip.Qobj(self.obs, dims=dims)
        elif op == "add_block":
            self._add(mut["block"])
        elif op == "layers":
            self.vqa.num_layers = int(mut["layers"])
        elif op == "cost_func":
            self.vqa.cost_func = (lambda state: 0.123)      # irrelevant in OBSERVABLE mode
        else:
            raise ValueError(op)
        self.case = new_case

    # --- own numerics -----------------------------------------------------------------------
    def n_params(self, bi):
        s = self.spec[bi]
        return {"ham": 1, "func": 1, "unit": 0, "native": 0, "native_arg": 0}.get(s["kind"], len(s.get("H", [])))

    def n_free(self):
        tot = 0
        for bi, s in enumerate(self.spec):
            tot += self.n_params(bi) * (1 if s["initial"] else self.case["layers"])
        return tot

    def gen(self, bi, thetas):
        s = self.spec[bi]
        h = sum(t * H for t, H in zip(thetas, s["H"]))
        if s["c"] is not None:
            h = h + s["c"]
        return -1j * h

    def U(self, bi, thetas):
        return _expm(self.gen(bi, thetas))

    def dU(self, bi, thetas, t):
        s = self.spec[bi]
        if s["kind"] == "ham":
            return self.U(bi, thetas) @ (-1j * s["H"][0])
        # Frechet derivative through the block-triangular exponential (independent of expm_frechet)
        x = self.gen(bi, thetas)
        e = -1j * s["H"][t]
        d = x.shape[0]
        big = np.zeros((2 * d, 2 * d), dtype=complex)
        big[:d, :d] = x
        big[d:, d:] = x
        big[:d, d:] = e
        return _expm(big)[:d, d:]

    def fixed(self, bi):
        if bi not in self._fix:
            s = self.spec[bi]
            if s["kind"] == "unit":
                self._fix[bi] = s["U"]
            else:
                from qutip_qip.circuit import QubitCircuit
                qc = QubitCircuit(self.nq)
                qc.add_gate(s["gate"], targets=list(s["targets"]))
                self._fix[bi] = qc.propagators()[0].full()
        return self._fix[bi]


def eval_ex(built, angles, tree):
    """Numeric value of a model expression tree (parsed tuples)."""
    d = 2 ** built.nq
    cache = {}

    def leaf(key, f):
        if key not in cache:
            cache[key] = f()
        return cache[key]

    def go(t):
        if t == "EOne":
            return np.eye(d, dtype=complex)
        if t == "EObs":
            return built.obs
        tag = t[0]
        if tag == "EMul":
            return go(t[1]) @ go(t[2])
        if tag == "EAdd":
            return go(t[1]) + go(t[2])
        if tag == "EDag":
            return go(t[1]).conj().T
        if tag == "EU":
            th = tuple(angles[j] for j in t[2])
            return leaf(("U", t[1], th), lambda: built.U(t[1], th))
        if tag == "EdU":
            th = tuple(angles[j] for j in t[2])
            return leaf(("dU", t[1], th, t[3]), lambda: built.dU(t[1], th, t[3]))
        if tag == "EFix":
            return built.fixed(t[1])
        if tag == "EEv":
            return float(np.real(built.psi0.conj() @ go(t[1]) @ built.psi0))
        raise ValueError("unknown node %r" % (tag,))

    return go(tree)


def val_call(call, angles):
    """(id, slice names, t) -> (id, slice values, t)"""
    if call is None:
        return None
    return [call[0], [float(angles[j]) for j in call[1]], call[2]]


def find_dU(tree):
    """first EdU node of an entry tree -> (id, args, t)"""
    stack = [tree]
    while stack:
        t = stack.pop()
        if isinstance(t, tuple):
            if t[0] == "EdU":
                return [t[1], list(t[2]), t[3]]
            stack.extend(reversed(t[1:]))
    return None


# ------------------------------------------------------------------------------------------------
# running the real code
# ------------------------------------------------------------------------------------------------
@contextlib.contextmanager
def recording(built, angles, log):
    """wrap VQABlock.get_unitary_derivative from outside; records (block id, slice VALUES, term).
    Values, not positions, are recorded so that repeated / zero angles are allowed; for distinct values
    (the generic stream) equality of values is equality of positions."""
    from qutip_qip.vqa import VQABlock
    orig = VQABlock.get_unitary_derivative
    ids = {id(b): i for i, b in enumerate(built.blocks)}
    names = {}
    for j, a in enumerate(angles):
        names.setdefault(float(a), j)

    def wrapper(self, angs, *args, **kw):
        term = args[0] if args else kw.get("term_index", 0)
        try:
            nm = [float(a) for a in angs]
        except Exception:
            nm = None
        log.append([ids.get(id(self), -1), nm, int(term)])
        return orig(self, angs, *args, **kw)

    VQABlock.get_unitary_derivative = wrapper
    try:
        yield
    finally:
        VQABlock.get_unitary_derivative = orig


CONTAINERS = ("list", "tuple", "array", "int_list", "int_tuple", "int_array", "int32_array", "float32",
              "mixed", "np_scalars", "np_int_scalars")


def make_container(angles, kind):
    """the same numeric values in every container / dtype a caller may legitimately pass"""
    if kind == "list":
        return [float(a) for a in angles]
    if kind == "tuple":
        return tuple(float(a) for a in angles)
    if kind == "array":
        return np.array(angles, dtype=float)
    if kind == "int_list":
        return [int(a) for a in angles]
    if kind == "int_tuple":
        return tuple(int(a) for a in angles)
    if kind == "int_array":
        return np.array([int(a) for a in angles], dtype=np.int64)
    if kind == "int32_array":
        return np.array([int(a) for a in angles], dtype=np.int32)
    if kind == "float32":
        return np.array(angles, dtype=np.float32)
    if kind == "mixed":
        return [(int(a) if j % 3 == 0 else (np.float64(a) if j % 3 == 1 else float(a))) for j, a in enumerate(angles)]
    if kind == "np_scalars":
        return [np.float64(a) for a in angles]
    if kind == "np_int_scalars":
        return [np.int64(int(a)) for a in angles]
    raise ValueError(kind)


def gen_container_case(rng, k):
    case = gen_case(rng, kinds=("ham", "ham", "ph", "ph", "unit", "native"), maxblocks=3, max_free=8)
    n = len(case["angles"])
    kind = CONTAINERS[k % len(CONTAINERS)]
    if kind.startswith("int") or kind in ("mixed", "np_int_scalars"):
        case["angles"] = [float(rng.randint(-6, 6)) for _ in range(n)]      # integer-valued
    elif kind == "float32":
        case["angles"] = [rng.randint(-400, 400) / 64.0 for _ in range(n)]  # exactly representable
    case["container"] = kind
    if rng.random() < 0.6:
        case["idxs"] = None
    return case


def run_real(built, case):
    vqa = built.vqa
    angles = list(case["angles"])
    if case.get("container"):
        arg = make_container(angles, case["container"])
    else:
        arg = np.array(angles, dtype=float) if case.get("as_array") else list(angles)
    names = {}
    for j, a in enumerate(angles):
        names.setdefault(float(a), j)
    out = {}
    out["series"] = [built.blocks.index(b) for b in vqa.get_block_series()]
    out["nfree"] = int(vqa.get_free_parameters_num())
    user = {b.name: i for i, b in enumerate(built.blocks) if not b.is_native_gate}
    try:
        circ = vqa.construct_circuit(arg)
        rows = []
        for g in circ.gates:
            if g.name in user:
                av = g.arg_value
                rows.append(["U", user[g.name], None if av is None else [float(a) for a in av]])
            else:
                rows.append(["N", g.name, [int(t) for t in g.targets]])
        out["gates"] = rows
    except Exception as e:
        out["gates"] = "rejected:" + type(e).__name__
    try:
        out["cost"] = float(np.real(vqa.evaluate_parameters(arg)))
    except Exception as e:
        out["cost"] = "rejected:" + type(e).__name__
    log = []
    try:
        with recording(built, angles, log):
            if case.get("idxs") is None:
                j = vqa.compute_jac(arg)
            else:
                j = vqa.compute_jac(arg, list(case["idxs"]))
        out["jac"] = [float(x) for x in np.asarray(j).ravel()]
        if np.asarray(j).ndim != 1:
            out["jac_shape"] = list(np.asarray(j).shape)
    except Exception as e:
        out["jac"] = "rejected:" + type(e).__name__
    out["dcalls"] = log
    return out


def fd_grad(built, case, js, h=1e-5):
    vqa = built.vqa
    base = list(case["angles"])
    res = []
    for j in js:
        p = list(base)
        m = list(base)
        p[j] += h
        m[j] -= h
        res.append(float(np.real(vqa.evaluate_parameters(p)) - np.real(vqa.evaluate_parameters(m))) / (2 * h))
    return res


def covered(case):
    """block kinds the property text quantifies over (and that can be evaluated at all)"""
    for b in case["blocks"]:
        if b["kind"] in ("func", "native_arg"):
            return False
        if b["kind"] == "ph" and b["m"] == 0:
            return False
    return True


def has_multi(case):
    return any(b["kind"] == "ph" and b["m"] >= 2 for b in case["blocks"])


def first_indices(built, case):
    """flat index of the first parameter of every parameterised block occurrence"""
    firsts = []
    i = 0
    L = case["layers"]
    for layer in range(L):
        for bi, s in enumerate(built.spec):
            if s["initial"] and layer > 0:
                continue
            n = built.n_params(bi)
            if n > 0:
                firsts.append(i)
            i += n
    return firsts


def oracle(built, case, real):
    """Property text evaluated on the real code.  Returns None or a failure dict (without input)."""
    if isinstance(real["cost"], str):
        return None  # no evaluated cost: nothing to differentiate
    nfree = built.n_free()
    if len(case["angles"]) < nfree:
        return None
    idxs = case.get("idxs")
    req = list(range(nfree)) if idxs is None else sorted(set(j for j in idxs if 0 <= j < nfree))
    if isinstance(real["jac"], str):
        if covered(case):
            return dict(observed=real["jac"], expected="a gradient with %d entries" % len(req),
                        what="gradient: compute_jac raises although the cost evaluates")
        return None
    fd = fd_grad(built, case, req)
    jac = real["jac"]
    scale = max([1.0] + [abs(x) for x in fd])
    bad = None
    detail = ""
    if "jac_shape" in real:
        bad = "gradient: result is not one-dimensional"
    elif len(jac) != len(req):
        bad = "gradient: number of entries differs from the number of requested free parameters"
        detail = "%d entries for %d requested free parameters" % (len(jac), len(req))
    else:
        for n, (a, b) in enumerate(zip(jac, fd)):
            if not (abs(a - b) <= 1e-5 * scale):
                bad = "gradient: an entry differs from the finite-difference derivative of the cost"
                detail = "entry for parameter %d is %.9g, finite differences give %.9g" % (req[n], a, b)
                break
    if bad is None:
        return None
    f = dict(observed=dict(jac=jac, detail=detail), expected=dict(finite_differences=fd, indices=req), what=bad)
    # signature of the unchanged code: exactly the entries of the first index of every block occurrence
    firsts = first_indices(built, case)
    want = [fd[req.index(j)] for j in firsts if j in req] if idxs is None else \
        [fd[req.index(j)] for j in firsts if j in set(idxs) and j in req]
    if has_multi(case) and len(jac) == len(want) and all(abs(a - b) <= 1e-5 * scale for a, b in zip(jac, want)):
        f["signature"] = KEY_MULTI
    return f


def check_block_derivatives(built, case, rng_seed):
    """finite-difference validation of the ASSUMED block-level derivative formula on the real blocks"""
    rs = np.random.RandomState(rng_seed % (2 ** 31))
    h = 1e-6
    for bi, s in enumerate(built.spec):
        if s["kind"] not in ("ham", "ph"):
            continue
        n = built.n_params(bi)
        if n == 0:
            continue
        th = list(rs.uniform(-2 * math.pi, 2 * math.pi, size=n))
        blk = built.blocks[bi]
        # the block map itself: get_unitary(theta) = exp(-i (sum_t theta_t H_t + C)), own scipy expm of the
        # harness's own matrices (matters for generators with special spectra: H^2 = 1, tr(H^2) = dim, projectors)
        try:
            ur = blk.get_unitary(list(th)).full()
        except Exception as e:
            return dict(observed="raises " + type(e).__name__, expected="unitary",
                        what="block unitary: get_unitary raises (block %d)" % bi)
        err = float(np.max(np.abs(ur - built.U(bi, th))))
        if err > 1e-9:
            return dict(observed=dict(max_abs_difference=err, theta=[float(x) for x in th]), expected="<1e-9",
                        what="block unitary: get_unitary(theta) of block %d is not exp(-i theta.H)" % bi)
        for t in range(n):
            p = list(th)
            m = list(th)
            p[t] += h
            m[t] -= h
            fd = (blk.get_unitary(p).full() - blk.get_unitary(m).full()) / (2 * h)
            try:
                an = blk.get_unitary_derivative(th, t).full() if s["kind"] == "ph" else blk.get_unitary_derivative(th).full()
            except Exception as e:
                return dict(observed="raises " + type(e).__name__, expected="derivative",
                            what="block derivative: get_unitary_derivative raises (block %d term %d)" % (bi, t))
            err = float(np.max(np.abs(fd - an)))
            if err > 1e-6 * max(1.0, float(np.max(np.abs(fd)))) * 10:
                return dict(observed=err, expected="<1e-5",
                            what="block derivative: get_unitary_derivative(theta,%d) of block %d is not d/dtheta_%d of get_unitary" % (t, bi, t))
    return None


# ------------------------------------------------------------------------------------------------
# the model side
# ------------------------------------------------------------------------------------------------
def coq_block(b):
    k = b["kind"]
    kind = {"ham": "KHam", "unit": "KUnit", "func": "KFunc", "native": "(KNative false)",
            "native_arg": "(KNative true)"}.get(k)
    if k == "ph":
        kind = "(KPH %d)" % b["m"]
    return "(mkBlock %s %s)" % (kind, cbool(bool(b.get("initial"))))


def coq_case(case):
    idxs = case.get("idxs")
    if idxs is None:
        ind = "None"
    else:
        ind = "(Some %s)" % clist([str(int(j)) for j in idxs if j >= 0])   # a negative int is never `in` a match
    return "(run_case %s %d (seq 0 %d) %s, run_case_orig %s %d (seq 0 %d) %s)" % (
        clist([coq_block(b) for b in case["blocks"]]), case["layers"], len(case["angles"]), ind,
        clist([coq_block(b) for b in case["blocks"]]), case["layers"], len(case["angles"]), ind)


def run_model(cases, tag):
    files = []
    per = 60
    for k in range(0, len(cases), per):
        body = "From Coq Require Import List.\nImport ListNotations.\nFrom QV Require Import Model.Vqa.\n"
        for c in cases[k:k + per]:
            body += "Eval vm_compute in %s.\n" % coq_case(c)
        files.append(("c19_%s_%d" % (tag, k // per), body))
    outs = coq_eval_many(files)
    vals = []
    for name, _ in files:
        vals += parse_evals(outs[name])
        for ext in (".v", ".vo", ".glob", ".vok", ".vos"):
            try:
                os.remove(os.path.join(COQ, "Cases", name + ext))
            except OSError:
                pass
        try:
            os.remove(os.path.join(COQ, "Cases", "." + name + ".aux"))
        except OSError:
            pass
    if len(vals) != len(cases):
        raise Broken("coq-eval:c19", "expected %d values, parsed %d" % (len(cases), len(vals)))
    return vals


def opt(v):
    """("Some", x) -> x ; None -> None"""
    if v is None:
        return None
    assert isinstance(v, tuple) and v[0] == "Some", v
    return v[1]


def compare(built, case, real, mval):
    """-> list of (what, impl, model) differences"""
    diffs = []
    m_series, m_nfree, m_rows, m_eval, m_jac, m_jac_orig = mval   # Coq prints left-nested pairs flat
    angles = case["angles"]
    if list(m_series) != real["series"]:
        diffs.append(("block series", real["series"], list(m_series)))
    if int(m_nfree) != real["nfree"]:
        diffs.append(("number of free parameters", real["nfree"], int(m_nfree)))
    rows = []
    for (isuser, bid, arg) in m_rows:
        if isuser:
            a = opt(arg)
            rows.append(["U", bid, None if a is None else [float(angles[j]) for j in a]])
        else:
            s = built.spec[bid]
            rows.append(["N", s.get("gate"), s.get("targets")])
    if real["gates"] != rows:
        diffs.append(("construct_circuit gate/slice table", real["gates"], rows))
    ev = opt(m_eval)
    if (ev is None) != isinstance(real["cost"], str):
        diffs.append(("evaluate_parameters accepted/rejected", real["cost"], "rejected" if ev is None else "accepted"))
    elif ev is not None:
        mv = eval_ex(built, angles, ev)
        if abs(mv - real["cost"]) > 1e-9 * max(1.0, abs(mv)):
            diffs.append(("cost value", real["cost"], mv))
    mj = opt(m_jac)
    info = {}
    if (mj is None) != isinstance(real["jac"], str):
        diffs.append(("compute_jac accepted/rejected", real["jac"], "rejected" if mj is None else "%d entries" % len(mj)))
    elif mj is not None:
        calls = [val_call(find_dU(e), angles) for e in mj]
        if calls != real["dcalls"]:
            diffs.append(("get_unitary_derivative calls (block, slice, term)", real["dcalls"], calls))
        vals = [eval_ex(built, angles, e) for e in mj]
        if len(vals) != len(real["jac"]):
            diffs.append(("gradient length", len(real["jac"]), len(vals)))
        else:
            for a, b in zip(real["jac"], vals):
                if abs(a - b) > 1e-9 * max(1.0, abs(b)):
                    diffs.append(("gradient values", real["jac"], vals))
                    break
    # does the tree behave like the UNCHANGED code's model?
    mo = opt(m_jac_orig)
    if mo is not None and not isinstance(real["jac"], str):
        ov = [eval_ex(built, angles, e) for e in mo]
        info["matches_orig"] = (len(ov) == len(real["jac"]) and
                                all(abs(a - b) <= 1e-9 * max(1.0, abs(b)) for a, b in zip(real["jac"], ov)) and
                                [val_call(find_dU(e), angles) for e in mo] == real["dcalls"])
    return diffs, info


# ------------------------------------------------------------------------------------------------
# generators
# ------------------------------------------------------------------------------------------------
def gen_hook(rng):
    """a VQA SUBCLASS overriding get_initial_state(): |+..+>, another basis state, a random normalised state"""
    return dict(init=rng.choice(["plus", "plus", "basis", "random"]), seed=rng.randrange(1, 10 ** 6))


def gen_block(rng, nq, kinds, fam_p=0.3):
    k = rng.choice(kinds)
    b = dict(kind=k, initial=rng.random() < 0.3, seed=rng.randrange(1, 10 ** 6))
    if k == "ph":
        b["m"] = rng.choice([1, 2, 2, 3])
        b["const"] = rng.random() < 0.5
    if k in ("ham", "ph") and rng.random() < fam_p:
        b["fam"] = rng.choice(FAMILIES)      # generator(s) with a special spectrum instead of a generic one
    if k in ("native", "native_arg"):
        if k == "native_arg":
            b["gate"] = rng.choice(NATIVE_ARG)
            b["targets"] = [rng.randrange(nq)]
        elif nq >= 2 and rng.random() < 0.4:
            b["gate"] = rng.choice(NATIVE_2Q)
            b["targets"] = rng.sample(range(nq), 2)
        else:
            b["gate"] = rng.choice(NATIVE_1Q)
            b["targets"] = [rng.randrange(nq)]
    return b


def count_free(case):
    n = 0
    for b in case["blocks"]:
        p = {"ham": 1, "func": 1, "ph": b.get("m", 0)}.get(b["kind"], 0)
        n += p * (1 if b.get("initial") else case["layers"])
    return n


def gen_angles(rng, n):
    seen = set()
    out = []
    while len(out) < n:
        a = round(rng.uniform(-2 * math.pi, 2 * math.pi), 6)
        if a not in seen and abs(a) > 1e-3:
            seen.add(a)
            out.append(a)
    return out


def gen_boundary_angles(rng, n):
    """legal boundary values: exact zeros, -0.0, multiples of pi/2, +-2pi, repeated entries, generic"""
    vals = []
    for _ in range(n):
        r = rng.random()
        if r < 0.30:
            v = 0.0
        elif r < 0.45:
            v = rng.choice([-4, -3, -2, -1, 1, 2, 3, 4]) * math.pi / 2
        elif r < 0.60 and vals:
            v = rng.choice(vals)
        elif r < 0.64:
            v = -0.0
        else:
            v = round(rng.uniform(-2 * math.pi, 2 * math.pi), 6)
        vals.append(v)
    return vals


def gen_boundary_case(rng):
    case = gen_case(rng, kinds=("ham", "ham", "ham", "ph", "ph", "unit", "native"), maxblocks=4, max_free=9)
    case["angles"] = gen_boundary_angles(rng, len(case["angles"]))
    return case


def zero_sweep(rng, nstruct):
    """for a few structures: an exact 0.0 at EVERY single parameter position in turn, and all zeros"""
    out = []
    for _ in range(nstruct):
        case = gen_case(rng, kinds=("ham", "ham", "ham", "ph", "unit", "native"), maxblocks=3, max_free=6)
        n = len(case["angles"])
        if n == 0:
            continue
        if rng.random() < 0.7:
            case["idxs"] = None
        for j in range(n):
            c = json.loads(json.dumps(case))
            c["angles"][j] = 0.0
            out.append(c)
        c = json.loads(json.dumps(case))
        c["angles"] = [0.0] * n
        out.append(c)
    return out


def gen_idxs(rng, n):
    r = rng.random()
    if r < 0.4 or n == 0:
        return None
    if r < 0.8:
        return sorted(rng.sample(range(n), rng.randint(0, n)))
    if r < 0.9:   # unsorted, duplicates, out of range
        l = [rng.randrange(0, n + 3) for _ in range(rng.randint(1, n + 2))]
        return l
    return list(range(rng.randrange(n), n))   # what layer_by_layer asks for


def gen_case(rng, kinds=("ham", "ham", "ph", "ph", "unit", "native"), maxblocks=4, max_nq=3, max_layers=3, max_free=12,
             fam_p=0.3, hook_p=0.2):
    while True:
        nq = rng.randint(1, max_nq)
        case = dict(nq=nq, layers=rng.randint(1, max_layers), obs_seed=rng.randrange(1, 10 ** 6),
                    blocks=[gen_block(rng, nq, kinds, fam_p) for _ in range(rng.randint(1, maxblocks))],
                    as_array=rng.random() < 0.5)
        n = count_free(case)
        if n <= max_free:
            break
    case["angles"] = gen_angles(rng, n)
    case["idxs"] = gen_idxs(rng, n)
    if rng.random() < hook_p:
        case["hook"] = gen_hook(rng)
    return case


def gen_family_case(rng, k):
    """every single-parameter Hamiltonian block / every ParameterizedHamiltonian term from a special family;
    the families are cycled so each occurs, on 1..3 qubits"""
    case = gen_case(rng, kinds=("ham", "ham", "ham", "ph", "unit", "native"), maxblocks=3, max_free=8, fam_p=1.0,
                    hook_p=0.15)
    hams = [b for b in case["blocks"] if b["kind"] in ("ham", "ph")]
    if not hams:
        case["blocks"].append(dict(kind="ham", initial=False, seed=rng.randrange(1, 10 ** 6)))
        hams = [case["blocks"][-1]]
        case["angles"] = gen_angles(rng, count_free(case))
        case["idxs"] = None
    hams[0]["fam"] = FAMILIES[k % len(FAMILIES)]
    if k % 3 == 0:
        case["idxs"] = None
    return case


def gen_hook_case(rng):
    """a subclass of VQA overriding the documented hook get_initial_state()"""
    case = gen_case(rng, maxblocks=3, max_free=8, hook_p=1.0)
    if rng.random() < 0.5:
        case["idxs"] = None
    return case


def gen_malformed(rng):
    r = rng.random()
    if r < 0.35:   # kinds outside the property
        case = gen_case(rng, kinds=("ham", "ph", "unit", "native", "func", "func", "native_arg"), maxblocks=3, max_layers=2)
        if rng.random() < 0.3:
            case["blocks"].append(dict(kind="ph", m=0, const=True, initial=False, seed=rng.randrange(1, 10 ** 6)))
        return case, "other-kinds"
    case = gen_case(rng, maxblocks=3, max_layers=2)
    n = len(case["angles"])
    if r < 0.7 and n > 0:
        case["angles"] = case["angles"][:rng.randrange(0, n)]
        case["idxs"] = None if rng.random() < 0.5 else [j for j in (case["idxs"] or []) if j < len(case["angles"])]
        return case, "short-angles"
    case["angles"] = case["angles"] + gen_angles(rng, rng.randint(1, 2))
    return case, "long-angles"


def exhaustive_small():
    """every subset of indices for a few structures that hit every kind (thorough)"""
    structs = [
        [dict(kind="ph", m=2, const=False, initial=False, seed=11)],
        [dict(kind="ph", m=2, const=True, initial=True, seed=12), dict(kind="ham", initial=False, seed=13)],
        [dict(kind="ham", initial=True, seed=14), dict(kind="unit", initial=False, seed=15),
         dict(kind="ph", m=1, const=False, initial=False, seed=16)],
        [dict(kind="native", gate="SNOT", targets=[0], initial=False, seed=17), dict(kind="ph", m=3, const=False, initial=False, seed=18)],
    ]
    out = []
    for si, bl in enumerate(structs):
        for layers in (1, 2):
            case = dict(nq=1, layers=layers, obs_seed=21 + si, blocks=bl, as_array=False)
            n = count_free(case)
            if n > 5:
                continue
            import random
            ang = gen_angles(random.Random(1000 + si * 10 + layers), n)
            for r in range(n + 1):
                for sub in itertools.combinations(range(n), r):
                    c = json.loads(json.dumps(case))
                    c["angles"] = ang
                    c["idxs"] = list(sub)
                    out.append(c)
    return out


def corpus_cases():
    out = []
    for p in sorted(glob.glob(os.path.join(VERIF, "corpus", "C19", "*.json"))):
        try:
            d = json.load(open(p))
            out.append(d.get("input", d))
        except Exception:
            pass
    return out


def structure_key(case):
    return json.dumps([case["nq"], case["layers"], [(b["kind"], b.get("m"), bool(b.get("initial")), b.get("gate"), b.get("fam")) for b in case["blocks"]],
                       (case.get("hook") or {}).get("init"),
                       case.get("idxs"), len(case["angles"]), [a == 0 for a in case["angles"]],
                       len(set(case["angles"])) < len(case["angles"]), case.get("container")])


# ------------------------------------------------------------------------------------------------
# histories: several calls on ONE VQA object and ONE (or two) numpy parameter arrays mutated in place
# ------------------------------------------------------------------------------------------------
# The model has no state: its answer for a call depends only on the block structure and on the CURRENT
# parameter values.  So every call of a history is compared against the same expression trees evaluated at
# the values the array holds at that moment, and against finite differences taken on a FRESH VQA object.
def gen_ops(rng, n, first_angles=None):
    """(arrays, history) for n parameters: calls on one/two numpy arrays with in-place updates in between"""
    def newvals():
        return gen_boundary_angles(rng, n) if rng.random() < 0.35 else gen_angles(rng, n)

    arrays = [list(first_angles) if first_angles is not None else newvals(), newvals()]
    hist = [dict(op="jac", arr=0)]
    for _ in range(rng.randint(1, 4)):
        a = 0 if rng.random() < 0.75 else 1
        k = rng.random()
        if k < 0.25:
            hist.append(dict(op="sub", arr=a, step=[round(rng.uniform(-0.6, 0.6), 6) for _ in range(n)]))
        elif k < 0.40:
            hist.append(dict(op="set", arr=a, values=newvals()))
        elif k < 0.50:
            hist.append(dict(op="scale", arr=a, c=rng.choice([0.5, 0.75, 1.25, -1.0, 0.0])))
        elif k < 0.62:
            hist.append(dict(op="cost", arr=a))
        else:
            hist.append(dict(op="jac", arr=a))
        if rng.random() < 0.35:
            r = rng.random()
            if r < 0.55:
                hist.append(dict(op="rej_add_block", arr=a, which=rng.randrange(8), seed=rng.randrange(1, 10 ** 6)))
            elif r < 0.8:
                hist.append(dict(op="rej_short", arr=a, call=rng.choice(["cost", "jac"])))
            else:
                hist.append(dict(op="rej_idx", arr=a))
            hist.append(dict(op=rng.choice(["cost", "jac"]), arr=a))
    # always end with: in-place step on array 0, then the gradient again on the same array
    hist.append(dict(op=rng.choice(["sub", "sub", "set", "scale"]), arr=0,
                     step=[round(rng.uniform(-0.6, 0.6), 6) for _ in range(n)],
                     values=newvals(), c=rng.choice([0.5, 1.25, -1.0])))
    if rng.random() < 0.4:
        hist.append(dict(op="cost", arr=0))
    hist.append(dict(op="jac", arr=0))
    return arrays, hist


HIST_KINDS = ("ham", "ham", "ph", "ph", "ph", "unit", "native")


def gen_history(rng):
    r = rng.random()
    while True:
        case = gen_case(rng, kinds=HIST_KINDS, maxblocks=3, max_nq=2, max_layers=(1 if r < 0.6 else 2), max_free=7)
        if count_free(case) > 0:
            break
    case["as_array"] = True
    if rng.random() < 0.75:
        case["idxs"] = None
    case["arrays"], case["history"] = gen_ops(rng, count_free(case), case["angles"])
    return case


def gen_staged_history(rng):
    """one VQA object whose cost_observable / cost_func / blocks / num_layers are changed between calls"""
    while True:
        case = gen_case(rng, kinds=HIST_KINDS, maxblocks=3, max_nq=2, max_layers=2, max_free=6)
        if count_free(case) > 0:
            break
    case["as_array"] = True
    cur = json.loads(json.dumps({k: case[k] for k in ("nq", "layers", "obs_seed", "blocks", "hook") if k in case}))
    stages = []
    for k in range(rng.randint(2, 3)):
        mut = None
        if k > 0:
            r = rng.random()
            if r < 0.5:
                mut = dict(op="obs", obs_seed=rng.randrange(1, 10 ** 6))
                cur["obs_seed"] = mut["obs_seed"]
            elif r < 0.7:
                mut = dict(op="add_block", block=gen_block(rng, cur["nq"], HIST_KINDS))
                cur["blocks"] = cur["blocks"] + [mut["block"]]
            elif r < 0.9:
                mut = dict(op="layers", layers=rng.choice([x for x in (1, 2, 3) if x != cur["layers"]]))
                cur["layers"] = mut["layers"]
            else:
                mut = dict(op="cost_func")
        n = count_free(cur)
        if n == 0 or n > 9:
            break
        arrays, hist = gen_ops(rng, n)
        idxs = None if rng.random() < 0.7 else sorted(rng.sample(range(n), rng.randint(0, n)))
        stages.append(dict(mut=mut, arrays=arrays, history=hist, idxs=idxs))
    case["stages"] = stages
    case["angles"] = stages[0]["arrays"][0]
    case["idxs"] = stages[0]["idxs"]
    return case


def stage_cases(case):
    """[(mutation or None, effective plain case of that stage)]"""
    if "stages" not in case:
        return [(None, case)]
    cur = json.loads(json.dumps({k: case[k] for k in ("nq", "layers", "obs_seed", "blocks", "hook") if k in case}))
    out = []
    for st in case["stages"]:
        mut = st.get("mut")
        if mut:
            if mut["op"] == "obs":
                cur["obs_seed"] = mut["obs_seed"]
            elif mut["op"] == "add_block":
                cur["blocks"] = cur["blocks"] + [mut["block"]]
            elif mut["op"] == "layers":
                cur["layers"] = mut["layers"]
        c = json.loads(json.dumps(cur))
        c.update(as_array=True, arrays=st["arrays"], history=st["history"], angles=st["arrays"][0], idxs=st.get("idxs"))
        out.append((mut, c))
    return out


def run_history(built, case):
    """Execute the history on the real objects; returns one record per cost/jac call."""
    vqa = built.vqa
    arrays = [np.array(a, dtype=float) for a in case["arrays"]]
    idxs = case.get("idxs")
    calls = []
    for st in case["history"]:
        a = arrays[st["arr"]]
        op = st["op"]
        if op == "sub":
            a -= np.array(st["step"], dtype=float)
        elif op == "set":
            a[:] = np.array(st["values"], dtype=float)
        elif op == "scale":
            a *= st["c"]
        elif op in ("rej_add_block", "rej_short", "rej_idx"):
            # a call that must be REJECTED; the harness catches the exception like a caller would.
            # Model: a rejected call is a no-op, every later call is compared with the unchanged model.
            raised = None
            try:
                if op == "rej_add_block":
                    import qutip
                    from qutip_qip.vqa import VQABlock
                    cands = [b for b in built.blocks if not b.is_native_gate] or built.blocks
                    name = cands[st["which"] % len(cands)].name
                    dims = [[2] * built.nq, [2] * built.nq]
                    vqa.add_block(VQABlock(qutip.Qobj(_herm(st["seed"], built.nq), dims=dims), name=name))
                elif op == "rej_short":
                    if st.get("call") == "cost":
                        vqa.evaluate_parameters(a[:-1].copy())
                    else:
                        vqa.compute_jac(a[:-1].copy())
                else:
                    vqa.compute_jac(a, 7)            # indices_to_compute must be a collection
            except Exception as e:
                raised = type(e).__name__
            calls.append(dict(op="rejected", what=op, raised=raised, values=[float(x) for x in a]))
        elif op == "cost":
            vals = [float(x) for x in a]
            try:
                res = float(np.real(vqa.evaluate_parameters(a)))
            except Exception as e:
                res = "rejected:" + type(e).__name__
            calls.append(dict(op="cost", values=vals, result=res))
        elif op == "jac":
            vals = [float(x) for x in a]
            log = []
            try:
                with recording(built, vals, log):
                    j = vqa.compute_jac(a) if idxs is None else vqa.compute_jac(a, list(idxs))
                res = [float(x) for x in np.asarray(j).ravel()]
            except Exception as e:
                res = "rejected:" + type(e).__name__
            calls.append(dict(op="jac", values=vals, result=res, dcalls=log,
                              distinct=len(set(vals)) == len(vals)))
    return calls


def check_history(case, mvals=None):
    """-> (list of (what, impl, model) model/impl differences, oracle failure dict or None).
    mvals: one model value per stage (or None: oracle only)."""
    stages = stage_cases(case)
    built = Built(stages[0][1])
    diffs = []
    fail = None
    ncall = 0
    for k, (mut, sc) in enumerate(stages):
        if mut:
            built.mutate(mut, sc)
        calls = run_history(built, sc)
        ref = Built(sc)                # history-free reference object for the finite differences
        m_eval = m_jac = None
        mval = mvals[k] if mvals is not None else None
        if mval is not None:
            m_eval, m_jac = opt(mval[3]), opt(mval[4])
        after = " after earlier calls / in-place updates of the parameter array / rejected calls" + \
                (" / reassignment of cost_observable, cost_func, blocks or num_layers" if k > 0 else "")
        for c in calls:
            n = ncall
            ncall += 1
            at = dict(sc)
            at["angles"] = c["values"]
            if c["op"] == "rejected":
                if c["raised"] is None and fail is None and not (c["what"] == "rej_idx" and count_free(sc) == 0):
                    fail = dict(observed=dict(call=n, stage=k, op=c["what"], raised=None), expected="an exception",
                                what="history: an invalid call (%s) was accepted" % c["what"])
                continue
            if c["op"] == "cost":
                want = float(np.real(ref.vqa.evaluate_parameters(list(c["values"]))))
                if isinstance(c["result"], str) or abs(c["result"] - want) > 1e-9 * max(1.0, abs(want)):
                    if fail is None:
                        fail = dict(observed=dict(call=n, stage=k, cost=c["result"], values=c["values"]), expected=want,
                                    what="history: evaluate_parameters differs from a fresh object" + after)
                if m_eval is not None and not isinstance(c["result"], str):
                    mv = eval_ex(built, c["values"], m_eval)
                    if abs(mv - c["result"]) > 1e-9 * max(1.0, abs(mv)):
                        diffs.append(("history: cost value at the current parameters (call %d)" % n, c["result"], mv))
                continue
            real = dict(cost=0.0, jac=c["result"], dcalls=c["dcalls"])
            f = oracle(ref, at, real)
            if f is not None and fail is None:
                obs = dict(f["observed"]) if isinstance(f["observed"], dict) else dict(result=f["observed"])
                obs.update(call=n, stage=k, values=c["values"])
                fail = dict(observed=obs, expected=f["expected"],
                            what="history: " + f["what"] + (" (first call of the history)" if n == 0 else after))
            if m_jac is not None and not isinstance(c["result"], str):
                vals = [eval_ex(built, c["values"], e) for e in m_jac]
                if len(vals) != len(c["result"]) or any(abs(x - y) > 1e-9 * max(1.0, abs(y)) for x, y in zip(c["result"], vals)):
                    diffs.append(("history: gradient at the current parameters (call %d)" % n, c["result"], vals))
                mc = [val_call(find_dU(e), c["values"]) for e in m_jac]
                if mc != c["dcalls"]:
                    diffs.append(("history: get_unitary_derivative calls (call %d)" % n, c["dcalls"], mc))
            elif m_jac is None and mval is not None and not isinstance(c["result"], str):
                diffs.append(("history: compute_jac accepted/rejected (call %d)" % n, "accepted", "rejected"))
    return diffs, fail


# ------------------------------------------------------------------------------------------------
# optimize_parameters(use_jac=True)
# ------------------------------------------------------------------------------------------------
def check_optimize(case, layer_by_layer):
    """run the real optimiser with the analytic gradient; every jac call must have one entry per varied parameter"""
    built = Built(case)
    vqa = built.vqa
    real_jac = vqa.compute_jac
    bad = []
    calls = [0]

    def wrapper(angles, indices_to_compute=None):
        res = real_jac(angles, indices_to_compute)
        calls[0] += 1
        want = len(angles) if indices_to_compute is None else len(set(j for j in indices_to_compute if 0 <= j < len(angles)))
        if np.asarray(res).shape != (want,) and not bad:
            bad.append(dict(observed=list(np.asarray(res).shape), expected=[want],
                            what="gradient: optimize_parameters(use_jac=True) received a gradient whose length is not the number of varied parameters"))
        return res

    vqa.compute_jac = wrapper
    try:
        with contextlib.redirect_stdout(io.StringIO()):
            vqa.optimize_parameters(initial=list(case["angles"]), method="BFGS", use_jac=True,
                                    layer_by_layer=layer_by_layer)
    except Exception as e:
        if not bad:
            # only a gradient problem if the same optimisation WITHOUT the analytic gradient goes through
            # (e.g. layer_by_layer with a layer that adds no parameter makes scipy fail on an empty vector
            #  with or without jac: not a statement about the gradient)
            b2 = Built(case)
            try:
                with contextlib.redirect_stdout(io.StringIO()):
                    b2.vqa.optimize_parameters(initial=list(case["angles"]), method="BFGS", use_jac=False,
                                               layer_by_layer=layer_by_layer)
                bad.append(dict(observed="raises %s: %s" % (type(e).__name__, str(e)[:120]),
                                expected="an optimisation result (use_jac=False succeeds)",
                                what="gradient: optimize_parameters(use_jac=True) raises"))
            except Exception:
                calls[0] = -1
    if bad and has_multi(case):
        bad[0]["signature"] = KEY_MULTI
    return (bad[0] if bad else None), calls[0]


# ------------------------------------------------------------------------------------------------
# optimize_parameters driven through its option combinations with a PROBE as scipy `method`
# ------------------------------------------------------------------------------------------------
# scipy.optimize.minimize accepts a callable method; ours receives exactly what a real optimiser receives
# (fun, x0, args, jac, bounds, constraints) for every layer, and checks at x0 and at perturbed points:
#   * fun(x)  = cost of a FRESH object with k layers at the vector (frozen ++ x)           (oracle)
#   * jac(x)  has one entry per varied parameter and equals central finite differences of fun   (oracle)
#   * fun(x) / jac(x) = the model's cost tree / Jacobian trees for k layers, restricted to the layer's free
#     indices, evaluated at (frozen ++ x)                                                   (correspondence)
INITIAL_KINDS = ("list", "array", "ones", "random")


def gen_probe(rng, k):
    while True:
        case = gen_case(rng, kinds=("ham", "ham", "ph", "ph", "unit", "native"), maxblocks=3, max_nq=2,
                        max_layers=3, max_free=9)
        if count_free(case) > 0:
            break
    case["layers"] = 1 + (k // 4) % 3 if rng.random() < 0.7 else case["layers"]
    n = count_free(case)
    if n > 10:
        case["layers"] = 1
        n = count_free(case)
    case["angles"] = gen_angles(rng, n) if rng.random() < 0.8 else gen_boundary_angles(rng, n)
    case["idxs"] = None
    case["optimize"] = dict(probe=True, layer_by_layer=bool(k % 2), use_jac=bool((k // 2) % 2 == 0),
                            initial=INITIAL_KINDS[(k // 4) % 4] if rng.random() < 0.5 else rng.choice(["list", "array"]),
                            bounds=rng.choice([None, None, "Bounds", "pairs"]),
                            constraints=rng.choice([None, None, "empty-list"]),
                            seed=rng.randrange(1, 10 ** 6))
    return case


def layer_counts(case):
    """number of free parameters of the circuit truncated to 1..L layers"""
    out = []
    for k in range(1, case["layers"] + 1):
        c = dict(case)
        c["layers"] = k
        out.append(count_free(c))
    return out


def probe_model_cases(case):
    """plain cases whose model value describes what the optimiser must receive, one per minimize() call"""
    o = case["optimize"]
    base = {k: case[k] for k in ("nq", "obs_seed", "blocks", "hook") if k in case}
    if not o["layer_by_layer"]:
        c = dict(base, layers=case["layers"], angles=[0.0] * count_free(case), idxs=None, as_array=True)
        return [c]
    out = []
    prev = 0
    for k, n in enumerate(layer_counts(case), start=1):
        out.append(dict(base, layers=k, angles=[0.0] * n, idxs=list(range(prev, n)), as_array=True))
        prev = n
    return out


def check_optimize_probe(case, mvals=None):
    """-> (diffs, oracle failure or None)"""
    import random as pyrandom
    import types
    import scipy.optimize
    o = case["optimize"]
    plain = {k: v for k, v in case.items() if k != "optimize"}
    built = Built(plain)
    vqa = built.vqa
    mcases = probe_model_cases(case)
    rs = np.random.RandomState(o["seed"] % (2 ** 31))
    diffs = []
    fails = []
    calls = []

    def probe(fun, x0, args=(), jac=None, **kw):
        k = len(calls)
        x0 = np.array(x0, dtype=float)
        frozen = np.array(args[0], dtype=float) if (o["layer_by_layer"] and len(args)) else np.zeros(0)
        mc = mcases[k] if k < len(mcases) else None
        calls.append(dict(n=len(x0), frozen=len(frozen)))
        if mc is None:
            fails.append(dict(observed="minimize() call %d" % (k + 1), expected="%d calls" % len(mcases),
                              what="optimize: more optimiser calls than layers"))
            return types.SimpleNamespace(x=x0, fun=0.0, nfev=1)
        ref = Built(dict(plain, layers=mc["layers"]))     # fresh object with this many layers
        m_eval = m_jac = None
        if mvals is not None:
            m_eval, m_jac = opt(mvals[k][3]), opt(mvals[k][4])
        if o["use_jac"] and jac is None:
            fails.append(dict(observed="jac=None", expected="a gradient callable",
                              what="optimize: use_jac=True but the optimiser receives no gradient"))
        pts = [x0] + [x0 + rs.uniform(-0.4, 0.4, size=len(x0)) for _ in range(2)]
        for x in pts:
            full = np.concatenate([frozen, x])
            if len(full) != len(mc["angles"]):
                fails.append(dict(observed=dict(layer=mc["layers"], frozen=len(frozen), free=len(x)),
                                  expected="%d parameters in total" % len(mc["angles"]),
                                  what="optimize: the optimiser varies a wrong number of parameters"))
                break
            f = float(np.real(fun(x, *args)))
            want = float(np.real(ref.vqa.evaluate_parameters(list(full))))
            if abs(f - want) > 1e-9 * max(1.0, abs(want)) and not fails:
                fails.append(dict(observed=dict(layer=mc["layers"], fun=f, x=list(x), frozen=list(frozen)), expected=want,
                                  what="optimize: the cost handed to the optimiser is not the cost of the circuit at (frozen ++ free)"))
            if m_eval is not None:
                mv = eval_ex(built, list(full), m_eval)
                if abs(mv - f) > 1e-9 * max(1.0, abs(mv)):
                    diffs.append(("optimize: cost handed to the optimiser (layer %d)" % mc["layers"], f, mv))
            if jac is None:
                continue
            g = np.asarray(jac(x, *args), dtype=float)
            if g.shape != x.shape:
                if not fails:
                    fails.append(dict(observed=list(g.shape), expected=[len(x)],
                                      what="optimize: the gradient handed to the optimiser has not one entry per varied parameter"))
                break
            h = 1e-5
            fd = []
            for j in range(len(x)):
                e = np.zeros(len(x))
                e[j] = h
                fd.append(float(np.real(fun(x + e, *args)) - np.real(fun(x - e, *args))) / (2 * h))
            scale = max([1.0] + [abs(v) for v in fd])
            if any(abs(a - b) > 1e-5 * scale for a, b in zip(g, fd)) and not fails:
                fails.append(dict(observed=dict(layer=mc["layers"], jac=[float(v) for v in g], x=list(x), frozen=list(frozen)),
                                  expected=dict(finite_differences_of_fun=fd),
                                  what="optimize: the gradient handed to the optimiser is not the derivative of the cost handed to the optimiser"))
            if m_jac is not None:
                vals = [eval_ex(built, list(full), e) for e in m_jac]
                if len(vals) != len(g) or any(abs(a - b) > 1e-9 * max(1.0, abs(b)) for a, b in zip(g, vals)):
                    diffs.append(("optimize: gradient handed to the optimiser (layer %d) vs model Jacobian restricted to "
                                  "the layer's free indices at frozen ++ free" % mc["layers"], [float(v) for v in g], vals))
        # pretend the optimiser moved a little, so that frozen values differ from the initial guess
        xr = pts[1] if len(pts) > 1 else x0
        return types.SimpleNamespace(x=xr, fun=float(np.real(fun(xr, *args))), nfev=1)

    n = count_free(plain)
    ik = o["initial"]
    initial = {"list": list(case["angles"]), "array": np.array(case["angles"], dtype=float)}.get(ik, ik)
    kw = {}
    if o.get("bounds") == "Bounds":
        kw["bounds"] = scipy.optimize.Bounds(-10.0, 10.0)
    elif o.get("bounds") == "pairs" and not o["layer_by_layer"]:
        kw["bounds"] = [(-10.0, 10.0)] * n
    if o.get("constraints") == "empty-list":
        kw["constraints"] = []
    pyrandom.seed(o["seed"])
    raised = None
    try:
        with contextlib.redirect_stdout(io.StringIO()):
            vqa.optimize_parameters(initial=initial, method=probe, use_jac=o["use_jac"],
                                    layer_by_layer=o["layer_by_layer"], **kw)
    except Exception as e:
        raised = "%s: %s" % (type(e).__name__, str(e)[:160])
    if raised and not fails:
        fails.append(dict(observed="raises " + raised, expected="an optimisation result",
                          what="optimize: optimize_parameters raises with a well-behaved optimiser"))
    if not raised and len(calls) != len(mcases) and not fails:
        fails.append(dict(observed="%d minimize() calls" % len(calls), expected="%d" % len(mcases),
                          what="optimize: wrong number of optimiser calls"))
    return diffs, (fails[0] if fails else None)


# ------------------------------------------------------------------------------------------------
# harness interface
# ------------------------------------------------------------------------------------------------
def one_real(case):
    built = Built(case)
    real = run_real(built, case)
    return built, real


def correspond(ctx):
    corr = Corr(rule="non-trivial = at least one parameterised block and (>= 2 layers or an initial block or a "
                     "multi-parameter block or a parameterless block or an explicit index subset); every history "
                     "(several compute_jac / evaluate_parameters calls on one VQA object and one or two numpy arrays "
                     "updated in place in between) is non-trivial. The model is stateless: its answer depends only on "
                     "the block structure and the CURRENT parameter values, never on earlier calls, so every call of a "
                     "history is compared with the same model expression trees evaluated at the current values; staged "
                     "histories also reassign cost_observable / cost_func, add blocks or change num_layers on the live "
                     "object between calls (the model is re-evaluated for the new structure, finite differences on a "
                     "fresh object). Parameter vectors include exact 0.0 at every position, -0.0, multiples of pi/2, "
                     "+-2pi and repeated values. optimize_parameters is driven through layer_by_layer x use_jac x initial "
                     "(list/array/ones/random) x 1-3 layers x bounds/constraints with a probe as scipy method: for every "
                     "minimize() call the (fun, jac) it receives are compared with the model's cost / Jacobian restricted "
                     "to that layer's free indices at frozen ++ free, with a fresh object and with finite differences of fun. "
                     "Parameter vectors are also passed in every numeric container (list/tuple of ints, int64/int32/float32 "
                     "ndarray, mixed, numpy scalars) and compared at the same float values. Histories contain REJECTED calls "
                     "(duplicate-name add_block, short vector, non-collection indices) caught by the harness: the model treats "
                     "a rejected call as a no-op. Generators: generic random Hermitian, or (about 30% of the blocks and a "
                     "dedicated stream cycling all of them) families with special spectra: Pauli strings, scaled Paulis, "
                     "normalised sums of commuting Paulis, tr(H^2)=dim, projectors, involutions, degenerate/integer spectra; "
                     "get_unitary of each is compared with an independent expm. About 20% of all cases (and a dedicated "
                     "stream) use a VQA subclass overriding get_initial_state()")
    rng = ctx.rng
    cases = []
    for c in corpus_cases():
        cases.append((c, "corpus"))
    for _ in range(ctx.n(400, 4000)):
        cases.append((gen_case(rng), "structured"))
    for _ in range(ctx.n(100, 800)):
        cases.append(gen_malformed(rng))
    if ctx.thorough:
        for c in exhaustive_small():
            cases.append((c, "exhaustive-subsets"))
    for _ in range(ctx.n(150, 1200)):
        cases.append((gen_boundary_case(rng), "boundary-angles"))
    for k in range(ctx.n(110, 880)):
        cases.append((gen_container_case(rng, k), "container-types"))
    for c in zero_sweep(rng, ctx.n(12, 80)):
        cases.append((c, "zero-at-each-position"))
    for k in range(ctx.n(72, 540)):
        cases.append((gen_family_case(rng, k), "generator-families"))
    for _ in range(ctx.n(50, 400)):
        cases.append((gen_hook_case(rng), "subclass-get_initial_state"))
    for _ in range(ctx.n(100, 800)):
        cases.append((gen_history(rng), "history"))
    for _ in range(ctx.n(80, 600)):
        cases.append((gen_staged_history(rng), "history-staged"))
    for k in range(ctx.n(64, 480)):
        cases.append((gen_probe(rng, k), "optimize-probe"))
    tag = "%d" % os.getpid()
    # one model evaluation per plain case / per stage of a history / per minimize() call of an optimisation
    flat = []
    spans = []
    for c, _ in cases:
        if "optimize" in c:
            scs = probe_model_cases(c)
        elif "history" in c or "stages" in c:
            scs = [sc for _, sc in stage_cases(c)]
        else:
            scs = [c]
        spans.append((len(flat), len(scs)))
        flat += scs
    flat_vals = run_model(flat, tag)
    mvals = [flat_vals[a:a + n] if ("history" in c or "stages" in c or "optimize" in c) else flat_vals[a]
             for (c, _), (a, n) in zip(cases, spans)]
    n_orig = 0
    n_multi = 0
    for (case, kind), mval in zip(cases, mvals):
        corr.tally(kind)
        for b in case["blocks"]:
            corr.tally("block:" + b["kind"] + (str(b["m"]) if b["kind"] == "ph" else ""))
            if b.get("fam"):
                corr.tally("generator-family:" + b["fam"])
        if case.get("hook"):
            corr.tally("subclass overriding get_initial_state:" + case["hook"]["init"])
        corr.tally("layers:%d" % case["layers"])
        corr.tally("qubits:%d" % case["nq"])
        corr.tally("indices:" + ("all" if case.get("idxs") is None else "subset"))
        if case.get("container"):
            corr.tally("container:" + case["container"])
        if any(a == 0 for a in case["angles"]):
            corr.tally("angles:contains exact 0.0")
        if len(set(case["angles"])) < len(case["angles"]):
            corr.tally("angles:repeated values")
        if "optimize" in case:
            o = case["optimize"]
            corr.tally("optimize-probe:layer_by_layer=%s,use_jac=%s" % (o["layer_by_layer"], o["use_jac"]))
            corr.tally("optimize-probe:initial=" + o["initial"])
            corr.tally("optimize-probe:bounds=%s" % o.get("bounds"))
            try:
                pd, pf = check_optimize_probe(case, mval)
            except Exception as e:
                corr.disagree(case, "harness could not run the optimisation probe: %r" % (e,), None, "probe construction")
                continue
            for what, impl, model in pd[:2]:
                corr.disagree(case, impl, model, what)
            if pf is not None:
                corr.oracle_fail(case, pf["observed"], pf["expected"], pf["what"])
            corr.count(json.dumps([structure_key(case), sorted((k, str(v)) for k, v in o.items() if k != "seed")]),
                       nontrivial=True, sample=None)
            continue
        if "history" in case or "stages" in case:
            ops = [st["op"] for _, sc in stage_cases(case) for st in sc["history"]]
            corr.tally("history:calls", sum(1 for o in ops if o in ("jac", "cost")))
            corr.tally("history:in-place updates", sum(1 for o in ops if o in ("sub", "set", "scale")))
            for o_ in ops:
                if o_.startswith("rej_"):
                    corr.tally("history:rejected call:" + o_[4:])
            for st in case.get("stages", []):
                if st.get("mut"):
                    corr.tally("history:mutation:" + st["mut"]["op"])
            try:
                hd, hf = check_history(case, mval)
            except Exception as e:
                corr.disagree(case, "harness could not run the history: %r" % (e,), None, "history construction")
                continue
            for what, impl, model in hd[:2]:
                corr.disagree(case, impl, model, what)
            if hf is not None:
                corr.oracle_fail(case, hf["observed"], hf["expected"], hf["what"])
            corr.count(json.dumps([structure_key(case), [[(st["op"], st["arr"]) for st in sc["history"]]
                                                         for _, sc in stage_cases(case)]]),
                       nontrivial=True, sample=None)
            continue
        try:
            built, real = one_real(case)
        except Exception as e:
            corr.disagree(case, "harness could not build the case: %r" % (e,), None, "case construction")
            continue
        diffs, info = compare(built, case, real, mval)
        for what, impl, model in diffs[:2]:
            corr.disagree(case, impl, model, what)
        if has_multi(case) and "matches_orig" in info:
            n_multi += 1
            n_orig += bool(info["matches_orig"])
        f = oracle(built, case, real)
        if f is not None:
            corr.oracle_fail(case, f["observed"], f["expected"], f["what"])
            if "signature" in f:
                corr.oracle_failures[-1]["signature"] = f["signature"]
        g = check_block_derivatives(built, case, case["obs_seed"])
        if g is not None:
            corr.oracle_fail(case, g["observed"], g["expected"], g["what"])
        nparam = count_free(case) > 0
        nontriv = nparam and (case["layers"] >= 2 or any(b.get("initial") for b in case["blocks"]) or has_multi(case)
                              or any(b["kind"] in ("unit", "native") for b in case["blocks"]) or case.get("idxs") is not None)
        corr.count(structure_key(case), nontrivial=bool(nontriv), sample=case)
    # the optimiser really receives these gradients
    nopt = 0
    for k in range(ctx.n(10, 40)):
        case = gen_case(rng, maxblocks=3, max_nq=2, max_layers=2, max_free=6)
        if count_free(case) == 0:
            continue
        lbl = (k % 2 == 1)
        f, ncalls = check_optimize(case, lbl)
        if ncalls < 0:
            corr.tally("optimize_parameters raises with and without jac (ignored)")
            continue
        nopt += 1
        corr.tally("optimize_parameters(use_jac=True)" + (",layer_by_layer" if lbl else ""))
        if f is not None:
            inp = dict(case)
            inp["optimize"] = dict(layer_by_layer=lbl)
            corr.oracle_fail(inp, f["observed"], f["expected"], f["what"])
            if "signature" in f:
                corr.oracle_failures[-1]["signature"] = f["signature"]
    corr.extra["optimize_runs"] = nopt
    if n_multi:
        corr.extra["multi_param_cases"] = n_multi
        corr.extra["multi_param_cases_matching_unchanged_code_model"] = n_orig
        if n_orig == n_multi:
            ctx.notes.append("this tree behaves like compute_jac_orig (the UNCHANGED code) on all %d multi-parameter cases: "
                             "fixes/C19-jac-per-parameter.diff is not applied" % n_multi)
    return corr


def classify(failure):
    inp = failure.get("input") or {}
    try:
        if failure.get("signature") == KEY_MULTI and has_multi(inp):
            return KEY_MULTI
        # replay records do not carry the signature: recompute it
        if "signature" not in failure and has_multi(inp) and str(failure.get("what", "")).startswith("gradient"):
            f = _fail_of(inp)
            if f is not None and f.get("signature") == KEY_MULTI:
                return KEY_MULTI
    except Exception:
        return None
    return None


def _fail_of(case):
    if "history" in case or "stages" in case:
        return check_history(case, None)[1]
    if "optimize" in case and case["optimize"].get("probe"):
        return check_optimize_probe(case, None)[1]
    if "optimize" in case:
        c = {k: v for k, v in case.items() if k != "optimize"}
        f, _ = check_optimize(c, bool(case["optimize"].get("layer_by_layer")))
        return f
    built, real = one_real(case)
    f = oracle(built, case, real)
    if f is None:
        f = check_block_derivatives(built, case, case["obs_seed"])
    return f


def replay(ctx, rec):
    case = rec.get("input", rec)
    return _fail_of(case) is not None


def search(ctx, broken):
    """hunt for a failing input on the real code with the property oracle only"""
    out = []
    cands = list(corpus_cases())
    for ob, detail in broken:
        if isinstance(detail, dict) and isinstance(detail.get("input"), dict):
            cands.append(detail["input"])
    rng = ctx.rng
    # boundary values first: a structural disagreement that needs an exact 0.0 (or a repeated / pi-multiple
    # angle) at a particular block position, or a change of the live object, must yield a concrete input
    for k in range(ctx.n(36, 180)):
        cands.append(gen_family_case(rng, k))
    for _ in range(ctx.n(20, 100)):
        cands.append(gen_hook_case(rng))
    cands += zero_sweep(rng, ctx.n(15, 60))
    for _ in range(ctx.n(80, 400)):
        cands.append(gen_boundary_case(rng))
    for k in range(ctx.n(44, 220)):
        cands.append(gen_container_case(rng, k))
    for _ in range(ctx.n(40, 200)):
        cands.append(gen_staged_history(rng))
    for k in range(ctx.n(32, 160)):
        cands.append(gen_probe(rng, k))
    for _ in range(ctx.n(150, 1000)):
        cands.append(gen_case(rng))
        if _ % 3 == 0:
            cands.append(gen_history(rng))
    for case in cands:
        try:
            f = _fail_of(case)
        except Exception:
            continue
        if f is not None:
            d = dict(input=case, observed=f["observed"], expected=f["expected"], what=f["what"])
            if "signature" in f:
                d["signature"] = f["signature"]
            out.append(d)
            if len(out) >= 5:
                break
    return out
