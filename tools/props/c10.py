"""C10 - exported OpenQASM is valid OpenQASM 2.0 and round-trips to the same circuit.  See DESIGN.md section 5 (C10).

model/code tie : circuits are generated over the exportable gates (all parameter container types, zero / negative / tiny /
                 huge parameters, int and float) plus non-exportable gates; the real circuit_to_qasm_str text is compared
                 EXACTLY with Model/QasmExport2.v `export2` (= user-gate refusal + parameterless-gate argument rule + Model/QasmExport.v
                 `export`) under vm_compute (repr(float) enters the model as a shape; user_gates enters as the list of its keys).
oracle         : the independent strict OpenQASM 2.0 reader/evaluator of tools/props/c04_oqasm.py must accept the text
                 and give it the circuit's own action (all measurement branches of two random inputs, up to a phase per
                 branch); the library's read_qasm must re-import it with the same action; an exportable circuit must
                 not be refused; a non-exportable gate must be refused.
"""
import json
import math
import os
import re
import sys
import warnings

import numpy as np

sys.path.insert(0, os.path.dirname(os.path.dirname(os.path.abspath(__file__))))
sys.path.insert(0, os.path.dirname(os.path.abspath(__file__)))
import c04_oqasm as OQ  # noqa: E402
import c04 as C4  # noqa: E402
from common import Corr, Broken, coq_eval_many, parse_evals, cstr, VERIF  # noqa: E402
from translate import gates_tr, qasm_tr  # noqa: E402

ID = "C10"
TARGETS = ["Model/QasmExport2.vo", "Proofs/QasmExport2.vo", "Props/C10.vo"]
TRUSTED = [
    "repr(float) is an oracle: a float parameter enters the model as the shape of its repr ([-]d.d, [-]d[.d]e+-dd, inf, nan) computed "
    "by the harness; numbers.Integral / float() / isinstance dispatch of _qasm_number are read as int vs float",
    "the measure statement is exported without ';' (open known finding measure-without-semicolon, pinned by tests/test_qasm.py): for circuits "
    "with a Measurement the validity clause is reported as that finding and the remaining clauses are checked on the text with the ';' supplied",
    "Spec/QasmStrict.v (strict lexer + parser written from the grammar of the specification) and Spec/Qasm.v / QasmSem.v (semantics, "
    "wf, qelib1.inc by hand) are the oracle; PROVED for all circuits (export_valid): the whole exported text of a measurement-free circuit is accepted by "
    "the strict reader and the program it returns (given explicitly, prog_of) is well-formed, under the explicit guards shapes_ok (repr shapes) and "
    "circ_wf (parameter / qubit counts per gate signature, qubit indices < N and distinct, N > 0 - the exporter checks none of these); both guards and "
    "the acceptance itself are additionally EVALUATED (vm_compute of strict_parse / wf / shapes_ok / circ_wf on the model's own text) on every generated circuit",
    "translators tools/translate/qasm_tr.py and gates_tr.py (fail-closed)",
    "QubitCircuit.gates is read through the public attributes name/targets/controls/arg_value/classical_controls of Gate (the model's cc flag is the "
    "truthiness of classical_controls, whatever classical_control_value is) and "
    "targets/classical_store of Measurement; QubitCircuit.user_gates is read as the list of its keys (x_user of Model/QasmExport2.v); 0-d arrays are not modelled; "
    "the user-gate refusal and the dropping of the arg_value of a parameterless gate are part of the MODEL (export2, theorems export2_*): the harness hands every circuit to "
    "export2 unprojected (user-gate keys, arg_value as given) and compares exact text / refusal; the one remaining conversion is that numpy-array targets enter as the "
    "list of their elements - the model's target container is a list of nat by construction (fix C10-ndarray-targets; tied to the code by the same exact comparison)",
    "equivalence: per record of measurement outcomes, states agree up to a unit scalar",
]
ASSUMES = ["parameters range over all reals via the phase-ring quantification of Found",
           "export_valid: circuits are well-formed (circ_wf: parameter and qubit counts as the gate's signature, indices < N, distinct; checked on every generated case)",
           "export_valid: repr(float) has one of the shapes [-]d.d, [-]d[.d]e+-dd (shapes_ok; checked on every generated case)"]

ONE_PARAM = ["RX", "RY", "RZ", "CRX", "CRY", "CRZ"]
NO_PARAM_1Q = ["X", "Y", "Z", "SNOT", "S", "T", "SQRTNOT"]
EXPORTABLE = {"RX": (0, 1), "RY": (0, 1), "RZ": (0, 1), "X": (0, 1), "Y": (0, 1), "Z": (0, 1), "SNOT": (0, 1), "S": (0, 1), "T": (0, 1),
              "SQRTNOT": (0, 1), "QASMU": (0, 1), "CNOT": (1, 1), "SWAP": (0, 2), "CRX": (1, 1), "CRY": (1, 1), "CRZ": (1, 1),
              "CS": (1, 1), "CT": (1, 1), "TOFFOLI": (2, 1)}                      # name -> (#controls, #targets)
NON_EXPORTABLE = {"CSIGN": (1, 1, 0), "CZ": (1, 1, 0), "CY": (1, 1, 0), "ISWAP": (0, 2, 0), "SQRTSWAP": (0, 2, 0), "CPHASE": (1, 1, 1),
                  "FREDKIN": (1, 2, 0), "BERKELEY": (0, 2, 0), "R": (0, 1, 2), "PHASEGATE": (0, 1, 1), "SQRTISWAP": (0, 2, 0)}
PARAMLESS = ["X", "Y", "Z", "SNOT", "S", "T", "SQRTNOT", "CNOT", "SWAP", "CS", "CT", "TOFFOLI"]
# names a USER gate may carry: case variants of library / exportable / qelib1 names (must be refused like any non-exportable gate)
CASE_VARIANTS = ["s", "t", "x", "y", "z", "rx", "ry", "rz", "snot", "cnot", "swap", "crx", "cry", "crz", "cs", "ct", "toffoli", "qasmu", "sqrtnot",
                 "Rx", "Cnot", "Snot", "sWAP", "h", "cx", "u3", "ccx", "Qasmu", "tOFFOLI", "Crz"]
USERLIB_NAMES = ["X", "Y", "Z", "SNOT", "S", "T", "SQRTNOT"]
SPECIAL = [0.0, 0, -0.5, 0.5, math.pi, -math.pi / 2, 1e-9, -1e-9, 1e12, 1e16, 2.5e-7, 3, -2, 1.25, 7.0, 1e-5, 123456.789, 0.1, 5e-324]


# ---- values -------------------------------------------------------------------------------------------------------
def enc_num(x):
    """JSON for one number: ["i", n] | ["f", repr]"""
    if isinstance(x, (int, np.integer)) and not isinstance(x, bool):
        return ["i", int(x)]
    return ["f", repr(float(x))]


def dec_num(j):
    return int(j[1]) if j[0] == "i" else float(j[1])


def build_arg(a):
    """JSON arg -> Python value of the requested container type"""
    k = a["kind"]
    if k == "none":
        return None
    vals = [dec_num(v) for v in a["vals"]]
    if a.get("np"):
        vals = [np.float64(v) if isinstance(v, float) else v for v in vals]
    if k == "scalar":
        return vals[0]
    if k == "list":
        return list(vals)
    if k == "tuple":
        return tuple(vals)
    if k == "array":
        return np.array([float(v) for v in vals])
    raise ValueError(k)


def user_unitary(k):
    """the unitary every generated USER gate is bound to: a real rotation (x) real rotation - no library gate up to a phase"""
    from qutip import Qobj
    R = lambda a: np.array([[np.cos(a), -np.sin(a)], [np.sin(a), np.cos(a)]])
    M = R(0.4)
    for j in range(1, k):
        M = np.kron(M, R(0.4 + 0.5 * j))
    return Qobj(M, dims=[[2] * k, [2] * k])


def build_circuit(c):
    from qutip_qip.circuit import QubitCircuit
    ug = {o["gate"]: user_unitary(len(o["targets"])) for o in c["ops"] if o.get("user")}
    qc = QubitCircuit(c["N"], num_cbits=c["ncb"], user_gates=ug) if ug else QubitCircuit(c["N"], num_cbits=c["ncb"])
    for o in c["ops"]:
        if "meas" in o:
            qc.add_measurement("M", targets=[o["meas"][0]], classical_store=o["meas"][1])
        else:
            tg = np.array(o["targets"]) if o.get("np_targets") else list(o["targets"])
            qc.add_gate(o["gate"], targets=tg, controls=list(o["controls"]) or None, arg_value=build_arg(o["arg"]),
                        classical_controls=o.get("cc"), classical_control_value=o.get("ccv"))
    return qc


# ---- input classes of the open known findings (unchanged tree) -------------------------------------------------------
def is_userlib(o):
    """a USER gate (own unitary) named exactly like a directly exportable library gate"""
    return "gate" in o and bool(o.get("user")) and o["gate"] in EXPORTABLE


def is_nptargets(o):
    """a gate without controls whose targets are given as a numpy array"""
    return "gate" in o and bool(o.get("np_targets")) and not o["controls"]


def is_extra_param(o):
    """a library gate that takes no parameter but carries an arg_value"""
    return "gate" in o and not o.get("user") and o["gate"] in PARAMLESS and bool(o["arg"]["vals"])


FDEC = re.compile(r"^(-?)(\d+)\.(\d+)$")
FEXP = re.compile(r"^(-?)(\d+)(?:\.(\d+))?e([+-])(\d+)$")


def cnum(j, as_float=False):
    if j[0] == "i" and not as_float:
        n = int(j[1])
        return f"(NInt {'true' if n < 0 else 'false'} {abs(n)})"
    r = repr(float(j[1]))
    m = FDEC.match(r)
    if m:
        return f"(NFloat (FDec {'true' if m.group(1) else 'false'} {cstr(m.group(2))} {cstr(m.group(3))}))"
    m = FEXP.match(r)
    if m:
        fp = f"(Some {cstr(m.group(3))})" if m.group(3) is not None else "None"
        return (f"(NFloat (FExp {'true' if m.group(1) else 'false'} {cstr(m.group(2))} {fp} "
                f"{'true' if m.group(4) == '-' else 'false'} {cstr(m.group(5))}))")
    if "inf" in r:
        return f"(NFloat (FInf {'true' if r.startswith('-') else 'false'}))"
    if r == "nan":
        return "(NFloat FNan)"
    raise ValueError(r)


def carg(a):
    k = a["kind"]
    if k == "none":
        return "PNone"
    if k == "scalar":
        return f"(PNum {cnum(a['vals'][0])})"
    ctor = {"list": "PList", "tuple": "PTuple", "array": "PArray"}[k]
    return f"({ctor} [{'; '.join(cnum(v, as_float=(k == 'array')) for v in a['vals'])}])"


def ccirc(c):
    ops = []
    for o in c["ops"]:
        if "meas" in o:
            st = "None" if o["meas"][1] is None else f"(Some {o['meas'][1]})"
            ops.append(f"EMeas {o['meas'][0]} {st}")
        else:
            nl = lambda xs: "[" + "; ".join(str(x) for x in xs) + "]"
            # NO projection: name and arg_value enter as they are; the user-gate refusal and the dropping of a parameterless gate's
            # arg_value are done by the model (export2).  numpy-array targets enter as the list of their elements: the model's
            # target container is a list of nat by construction (fix C10-ndarray-targets).
            ops.append(f"EGate {cstr(o['gate'])} {nl(o['targets'])} {nl(o['controls'])} {carg(o['arg'])} "
                       f"{'true' if o.get('cc') else 'false'}")
    return f"(mkXC (mkEC {c['N']} {c['ncb']} [{'; '.join(ops)}]) [{'; '.join(cstr(n) for n in user_keys(c))}])"


def user_keys(c):
    """the keys of QubitCircuit.user_gates as build_circuit registers them (in order of first occurrence)"""
    out = []
    for o in c["ops"]:
        if o.get("user") and o["gate"] not in out:
            out.append(o["gate"])
    return out


CASE_HEAD = r"""
From QV Require Import Spec.Qasm Spec.QasmStrict Model.QasmExport Model.QasmExport2 Proofs.QasmValid1 Proofs.QasmValid3 Proofs.QasmValid4.
Local Open Scope string_scope.
Local Open Scope nat_scope.
(* text of export2 (circuit + user_gates keys, unprojected); (strict reader accepts, program well-formed, number of operations);
   guards of export2_valid, i.e. of the projected circuit: (shapes_ok, circ_wf, u_ok) *)
Definition chk (x : xcirc) := match export2 x with
  | Some t => Some (t, match strict_parse t with Some p => (true, wf lib_sigs p, length (p_ops p)) | None => (false, false, 0) end,
                    (let c := proj_circ (x_c x) in (shapes_ok c, circ_wf c, u_ok c)))
  | None => None end.
"""


def run_model(tag, circs):
    files = []
    per = 120
    for i in range(0, len(circs), per):
        body = CASE_HEAD + "".join(f"Eval vm_compute in chk {ccirc(c)}.\n" for c in circs[i:i + per])
        files.append((f"C10_{tag}_{i // per}", body))
    outs = coq_eval_many(files, timeout=900)
    res = []
    for name, _ in files:
        for v in parse_evals(outs[name]):
            res.append(None if v is None else v[1])          # (text, (lexed, wf, nops), (shapes_ok, circ_wf, u_ok))
    if len(res) != len(circs):
        raise Broken("correspondence-harness:C10", f"model returned {len(res)} results for {len(circs)} circuits")
    return res


# ---- generation ---------------------------------------------------------------------------------------------------
def gen_value(rng):
    r = rng.random()
    if r < 0.55:
        return rng.choice(SPECIAL)
    if r < 0.8:
        return rng.choice([-1, 1]) * rng.randrange(1, 64) / rng.choice([1, 2, 4, 8, 16, 64])
    if r < 0.9:
        return rng.uniform(-7, 7)
    return rng.choice([-1, 1]) * 10.0 ** rng.randrange(-12, 18) * rng.choice([1.0, 1.5, 2.25])


def gen_circuit(rng, bad=None):
    N = rng.randint(1, 4)
    ncb = rng.choice([0, 0, 1, 2])
    ops = []
    for _ in range(rng.randint(1, 7)):
        names = [n for n, (c, t) in EXPORTABLE.items() if c + t <= N]
        if ncb and rng.random() < 0.15:
            ops.append({"meas": [rng.randrange(N), rng.randrange(ncb)]})
            continue
        name = rng.choice(names)
        c, t = EXPORTABLE[name]
        qs = rng.sample(range(N), c + t)
        arg = {"kind": "none", "vals": []}
        if name in ONE_PARAM:
            arg = {"kind": "scalar", "vals": [enc_num(gen_value(rng))], "np": rng.random() < 0.2}
        elif name == "QASMU":
            arg = {"kind": rng.choice(["list", "list", "tuple", "array"]), "vals": [enc_num(gen_value(rng)) for _ in range(3)],
                   "np": rng.random() < 0.2}
        ops.append({"gate": name, "targets": qs[c:], "controls": qs[:c], "arg": arg})
    c = {"N": N, "ncb": ncb, "ops": ops}
    if bad == "nonexportable":
        cand = [n for n, (cc, t, p) in NON_EXPORTABLE.items() if cc + t <= N]
        if not cand:
            return gen_circuit(rng, bad)
        name = rng.choice(cand)
        cc, t, p = NON_EXPORTABLE[name]
        qs = rng.sample(range(N), cc + t)
        arg = {"kind": "none", "vals": []} if p == 0 else ({"kind": "scalar", "vals": [enc_num(0.3)]} if p == 1 else
                                                           {"kind": "list", "vals": [enc_num(0.3), enc_num(0.7)]})
        ops.insert(rng.randrange(len(ops) + 1), {"gate": name, "targets": qs[cc:], "controls": qs[:cc], "arg": arg})
    elif bad == "classical_control":
        gs = [o for o in ops if "gate" in o]
        if not gs:
            return gen_circuit(rng, bad)
        k = rng.randint(1, 3)
        c["ncb"] = ncb = max(ncb, k)
        o = rng.choice(gs)
        o["cc"] = rng.sample(range(ncb), k)
        # the value the classical bits are compared with: every value incl. 0, and the default (None = 2**k-1)
        o["ccv"] = rng.choice([None, 0, 0] + list(range(2 ** k)))
    elif bad == "nonfinite":
        gs = [o for o in ops if "gate" in o and o["arg"]["vals"]]
        if not gs:
            return gen_circuit(rng, bad)
        o = rng.choice(gs)
        o["arg"]["vals"][rng.randrange(len(o["arg"]["vals"]))] = ["f", rng.choice(["inf", "-inf", "nan"])]
    elif bad == "nostore":
        ops.insert(rng.randrange(len(ops) + 1), {"meas": [rng.randrange(N), None]})
    return c


def exportable(c):
    """the circuit consists of exportable gates with finite parameters, no classical control, stored measurements"""
    for o in c["ops"]:
        if "meas" in o:
            if o["meas"][1] is None:
                return False
            continue
        if o["gate"] not in EXPORTABLE or o.get("cc") or o.get("user"):
            return False
        for v in o["arg"]["vals"]:
            if v[0] == "f" and not math.isfinite(float(v[1])):
                return False
    return True


# ---- oracle ---------------------------------------------------------------------------------------------------------
def real_export(c):
    from qutip_qip.qasm import circuit_to_qasm_str
    try:
        qc = build_circuit(c)
    except Exception as e:
        return None, None, f"circuit construction failed: {type(e).__name__}: {e}"
    try:
        with warnings.catch_warnings():
            warnings.simplefilter("ignore")
            return qc, circuit_to_qasm_str(qc), None
    except Exception as e:
        return qc, None, f"{type(e).__name__}: {e}"


def oracle(c, qc, text, err, rng=None):
    """-> None | (observed, expected, what)"""
    if text is None:
        if exportable(c):
            return ("refused: " + str(err), "OpenQASM text", "a circuit of exportable gates is refused")
        return None
    if not exportable(c) and any(("gate" in o and (o["gate"] not in EXPORTABLE or o.get("cc") or o.get("user")))
                                 or ("meas" in o and o["meas"][1] is None) for o in c["ops"]):
        return (dict(text_tail=text[-200:], action=_cc_action(c, qc, text)), "refused with an error", "a non-exportable operation is exported")
    return _oracle_text(c, qc, text, rng)


def _oracle_text(c, qc, text, rng=None):
    """validity, denotation and re-import of an exported text -> None | (observed, expected, what)"""
    semicolon_only = False
    try:
        nq, nc, prims = OQ.elaborate(OQ.parse(text))
    except OQ.QasmError as e:
        # the measure statement is emitted without ';' (open known finding): if that is the ONLY obstacle, all other
        # clauses are still checked on the text with the ';' supplied, and the failure is reported as exactly that
        repaired = MEAS_LINE.sub(r"\1;", text)
        if repaired == text or not any("meas" in o for o in c["ops"]):
            return (text.split("\n\n")[-1][-300:], "valid OpenQASM 2.0", f"exported text is not valid OpenQASM 2.0: {e}")
        try:
            nq, nc, prims = OQ.elaborate(OQ.parse(repaired))
        except OQ.QasmError as e2:
            return (text.split("\n\n")[-1][-300:], "valid OpenQASM 2.0", f"exported text is not valid OpenQASM 2.0: {e2}")
        semicolon_only = True
    if (nq, nc) != (qc.N, qc.num_cbits):
        return ([nq, nc], [qc.N, qc.num_cbits], "registers of the exported program")
    seed = rng.randrange(2 ** 31) if rng is not None else 4242
    r = np.random.RandomState(seed)
    rq, rerr = C4.run_impl(text)
    for trial in range(2):
        psi = r.normal(size=2 ** nq) + 1j * r.normal(size=2 ** nq)
        psi /= np.linalg.norm(psi)
        try:
            own = C4.impl_branches(_eval_twin(c, qc), psi)
        except Exception as e:
            return (f"{type(e).__name__}: {e}", "a circuit", "the circuit itself cannot be evaluated")
        std = OQ.run_prims(prims, nq, nc, psi)
        bad = _diff(own, std)
        if bad:
            return (bad, "same action up to a global phase", "exported text denotes a different circuit (standard semantics): " + bad)
        if rq is None:
            return ("read_qasm: " + str(rerr), "re-import", "the library cannot re-import its own export")
        try:
            back = C4.impl_branches(rq, psi)
        except Exception as e:
            return (f"{type(e).__name__}: {e}", "a circuit", "re-imported circuit cannot be evaluated")
        bad = _diff(own, back)
        if bad:
            return (bad, "same action up to a global phase", "re-imported circuit acts differently: " + bad)
    if semicolon_only:
        return ([l for l in text.splitlines() if MEAS_LINE.match(l)][:3], "measure q[i] -> c[j];", SEMI)
    return None


def _eval_twin(c, qc):
    """the circuit whose gate list the harness's own evaluator (c04.impl_branches: `g.targets or []`) walks: numpy-array targets are
    rebuilt as lists there - the action of the circuit is that of its gates, and numpy truthiness is an artefact of the evaluator"""
    if not any(o.get("np_targets") for o in c["ops"] if "gate" in o):
        return qc
    return build_circuit(dict(c, ops=[{k: v for k, v in o.items() if k != "np_targets"} for o in c["ops"]]))


def _cc_action(c, qc, text):
    """An export that should have been refused succeeded: run the circuit and the re-imported text for EVERY value of the classical
    bits (incl. non-zero ones: a dropped classical condition is invisible when all bits are 0 and the condition value is 0) on a
    fixed state and report the first difference.  Only for circuits without measurements (run is deterministic)."""
    if any("meas" in o for o in c["ops"]):
        return "not compared (circuit has measurements)"
    import itertools
    from qutip import Qobj
    rq, rerr = C4.run_impl(text)
    if rq is None:
        return "read_qasm cannot re-import the text: " + str(rerr)
    r = np.random.RandomState(7)
    n = qc.N
    psi = r.normal(size=2 ** n) + 1j * r.normal(size=2 ** n)
    psi /= np.linalg.norm(psi)
    st = Qobj(psi.reshape(-1, 1), dims=[[2] * n, [1] * n])
    for cb in itertools.product([0, 1], repeat=max(qc.num_cbits, 1)):
        try:
            want = qc.run(st, cbits=list(cb)[:qc.num_cbits] or None).full().ravel()
            got = rq.run(st, cbits=list(cb)[:rq.num_cbits] or None).full().ravel()
        except Exception as e:
            return f"classical bits {list(cb)}: {type(e).__name__}: {e}"
        if not OQ.same_up_to_phase(want, got):
            return f"with classical bits {list(cb)} the re-imported circuit acts differently from the circuit"
    return "same action for every value of the classical bits"


MEAS_LINE = re.compile(r"(?m)^(measure q\[\d+\] -> c\[\d+\])$")
SEMI = "exported text is not valid OpenQASM 2.0 only because the measure statement lacks the terminating ';'"


def _diff(a, b):
    if set(a) != set(b):
        return "sets of measurement records differ"
    for rec in a:
        if a[rec][1] != b[rec][1]:
            return f"classical bits after record {list(rec)}"
        if not OQ.same_up_to_phase(a[rec][0], b[rec][0]):
            return f"state after record {list(rec)}"
    return None


# ---- driver hooks -----------------------------------------------------------------------------------------------------
CORPUS_DIR = os.path.join(VERIF, "corpus", "C10")


def corpus():
    out = []
    if os.path.isdir(CORPUS_DIR):
        for f in sorted(os.listdir(CORPUS_DIR)):
            if f.endswith(".json"):
                out.append(json.load(open(os.path.join(CORPUS_DIR, f))))
    return out


def generate(ctx):
    gates_tr.generate()
    ctx.gen = qasm_tr.generate()


# ---- the other two observation points: save_qasm(qc, path) and print_qasm(qc) ---------------------------------------------
def _tmpdir():
    import tempfile
    return tempfile.mkdtemp(prefix="c10-", dir="/tmp")


def check_history(hist, rng=None, model_texts=None):
    """hist: list of circuits saved one after the other to the SAME path.  After every save the file must hold exactly the
    text of the last circuit (= circuit_to_qasm_str = the model's text), print_qasm must print the same text, and the file
    must re-import with read_qasm (file mode) to the circuit's action.  -> None | failure dict"""
    import contextlib
    import io
    import shutil
    from qutip_qip.qasm import circuit_to_qasm_str, save_qasm, print_qasm, read_qasm
    d = _tmpdir()
    path = os.path.join(d, "out.qasm")
    inp = dict(history=hist)

    def fail(obs, exp, what):
        return dict(input=inp, observed=obs, expected=exp, what=what)
    try:
        before = None
        for i, c in enumerate(hist):
            try:
                qc = build_circuit(c)
            except Exception:
                return None
            try:
                with warnings.catch_warnings():
                    warnings.simplefilter("ignore")
                    want = circuit_to_qasm_str(qc)
            except Exception:
                want = None
            if model_texts is not None and model_texts[i] is not None and want is not None and model_texts[i] != want:
                return fail(want[-200:], model_texts[i][-200:], "circuit_to_qasm_str differs from the model's text")
            # save_qasm
            try:
                save_qasm(qc, path)
                saved = True
            except Exception as e:
                saved, serr = False, f"{type(e).__name__}: {e}"
            now = open(path).read() if os.path.exists(path) else None
            if want is None:
                if saved:
                    return fail("saved", "refused like circuit_to_qasm_str", f"save #{i + 1}: save_qasm exports a circuit that circuit_to_qasm_str refuses")
                if now != before:
                    return fail(_tail(now), _tail(before), f"save #{i + 1}: a refused save_qasm changed the file")
                continue
            if not saved:
                return fail("refused: " + serr, "file written", f"save #{i + 1}: save_qasm refuses a circuit that circuit_to_qasm_str exports")
            if now != want:
                try:
                    OQ.elaborate(OQ.parse(MEAS_LINE.sub(r"\1;", now)))
                    strict = "accepted by the strict reader"
                except OQ.QasmError as e:
                    strict = f"not valid OpenQASM 2.0: {e}"
                return fail(dict(file_tail=_tail(now), file_lines=len(now.splitlines()), strict_reader=strict),
                            dict(text_tail=_tail(want), lines=len(want.splitlines())),
                            f"save #{i + 1} to the same path: the file saved by save_qasm does not hold exactly the circuit's text")
            before = now
            # print_qasm
            buf = io.StringIO()
            try:
                with contextlib.redirect_stdout(buf):
                    print_qasm(qc)
            except Exception as e:
                return fail(f"{type(e).__name__}: {e}", "printed text", "print_qasm refuses a circuit that circuit_to_qasm_str exports")
            if buf.getvalue() != want:
                return fail(_tail(buf.getvalue()), _tail(want), "print_qasm prints a text different from circuit_to_qasm_str")
            # the file re-imports (file mode of read_qasm) to the circuit's action
            try:
                with warnings.catch_warnings():
                    warnings.simplefilter("ignore")
                    rq = read_qasm(path)
            except Exception as e:
                return fail(f"{type(e).__name__}: {e}", "re-import", f"save #{i + 1}: read_qasm cannot read the saved file")
            r = np.random.RandomState(rng.randrange(2 ** 31) if rng is not None else 99)
            psi = r.normal(size=2 ** qc.N) + 1j * r.normal(size=2 ** qc.N)
            psi /= np.linalg.norm(psi)
            try:
                bad = _diff(C4.impl_branches(_eval_twin(c, qc), psi), C4.impl_branches(rq, psi)) if rq.N == qc.N else "number of qubits"
            except Exception as e:
                bad = f"{type(e).__name__}: {e}"
            if bad:
                return fail(bad, "same action up to a global phase", f"save #{i + 1}: the saved file re-imports to a different circuit: {bad}")
        return None
    finally:
        shutil.rmtree(d, ignore_errors=True)


def _tail(t):
    return None if t is None else t[-240:]


def gen_history(rng, pool):
    """2-3 circuits for one path: different ones, equal ones, a longer one followed by a shorter one"""
    k = rng.choice([2, 2, 3])
    r = rng.random()
    if r < 0.25:
        c = rng.choice(pool)
        return [c] * k
    h = [rng.choice(pool) for _ in range(k)]
    if r < 0.6:
        h.sort(key=lambda c: -len(c["ops"]))
    return h


def check_circuit(c, rng=None):
    qc, text, err = real_export(c)
    if qc is None:
        return None
    r = oracle(c, qc, text, err, rng)
    if r is None:
        return None
    return dict(input=dict(circuit=c), observed=r[0], expected=r[1], what=r[2])


def replay(ctx, rec):
    inp = rec.get("input", rec)
    if "history" in inp:
        return check_history(inp["history"]) is not None
    return check_circuit(inp["circuit"]) is not None


def classify(f):
    """measure-without-semicolon: the strict reader rejects the text, the circuit contains a Measurement, and with the ';'
    supplied every clause (validity, denotation, re-import of the original text) holds - established by `oracle`"""
    c = f.get("input", {}).get("circuit", {})
    ops = c.get("ops", [])
    if f.get("what") == SEMI and any("meas" in o for o in ops):
        return "measure-without-semicolon"
    return None


def _stream(ctx, n_ok, n_bad):
    rng = ctx.rng
    cases = [("corpus", r.get("input", r)["circuit"]) for r in corpus() if "circuit" in r.get("input", r)]
    # every exportable gate x special values, systematically
    for name, (nc, nt) in EXPORTABLE.items():
        vals = SPECIAL if name in ONE_PARAM else ([None] if name != "QASMU" else SPECIAL[:6])
        for v in vals[:ctx.n(8, 19)]:
            if name == "QASMU":
                for kind in ("list", "tuple", "array"):
                    arg = {"kind": kind, "vals": [enc_num(v), enc_num(rng.choice(SPECIAL)), enc_num(rng.choice(SPECIAL))]}
                    cases.append(("sweep", {"N": 3, "ncb": 0, "ops": [{"gate": name, "targets": [1], "controls": [], "arg": arg}]}))
                continue
            arg = {"kind": "none", "vals": []} if v is None else {"kind": "scalar", "vals": [enc_num(v)]}
            qs = rng.sample(range(3), nc + nt)
            cases.append(("sweep", {"N": 3, "ncb": 0, "ops": [{"gate": name, "targets": qs[nc:], "controls": qs[:nc], "arg": arg}]}))
    # classically controlled variants (must all be refused): every exportable gate kind x 1..3 classical controls x every
    # control value 0..2**k-1 and the default None
    for name, (nc, nt) in EXPORTABLE.items():
        arg = {"kind": "none", "vals": []}
        if name in ONE_PARAM:
            arg = {"kind": "scalar", "vals": [enc_num(0.5)]}
        elif name == "QASMU":
            arg = {"kind": "list", "vals": [enc_num(0.5), enc_num(-1.25), enc_num(2)]}
        for k in (1, 2, 3):
            for v in [None] + list(range(2 ** k)):
                qs = rng.sample(range(3), nc + nt)
                ops = [{"gate": name, "targets": qs[nc:], "controls": qs[:nc], "arg": arg, "cc": rng.sample(range(3), k), "ccv": v}]
                if rng.random() < 0.5:
                    ops.insert(rng.randrange(2), {"gate": "SNOT", "targets": [rng.randrange(3)], "controls": [], "arg": {"kind": "none", "vals": []}})
                cases.append(("classical-control", {"N": 3, "ncb": 3, "ops": ops}))
    none = {"kind": "none", "vals": []}
    plain = lambda name, qs: {"gate": name, "targets": qs, "controls": [], "arg": none}
    # USER gates (own unitary) named like a library gate in another case: must be refused like any non-exportable gate
    for name in CASE_VARIANTS:
        for k in (1, 2):
            ops = [plain("SNOT", [0]), dict(plain(name, rng.sample(range(3), k)), user=True), {"gate": "CNOT", "targets": [1], "controls": [0], "arg": none}]
            cases.append(("user-gate-case-variant", {"N": 3, "ncb": 0, "ops": ops}))
    # the same spellings WITHOUT an entry in user_gates (a gate the library knows nothing about): refused as well
    for name in CASE_VARIANTS:
        cases.append(("unknown-gate-case-variant", {"N": 3, "ncb": 0, "ops": [plain("SNOT", [0]), plain(name, [rng.randrange(3)])]}))
    # ... and named EXACTLY like a library gate (refused as well: fix C10-user-gate-refused)
    for name in USERLIB_NAMES:
        ops = [plain("SNOT", [0]), dict(plain(name, [rng.randrange(3)]), user=True)]
        cases.append(("user-gate-library-name", {"N": 3, "ncb": 0, "ops": ops}))
    # targets given as a numpy array (same text as with lists: fix C10-ndarray-targets)
    for name in ["RX", "RY", "RZ", "X", "S", "SNOT", "SQRTNOT", "SWAP", "QASMU"]:
        nc, nt = EXPORTABLE[name]
        qs = rng.sample(range(3), nc + nt)
        arg = none if name not in ONE_PARAM + ["QASMU"] else ({"kind": "scalar", "vals": [enc_num(0.3)]} if name != "QASMU" else
                                                                {"kind": "list", "vals": [enc_num(0.5), enc_num(-1.25), enc_num(2)]})
        cases.append(("ndarray-targets", {"N": 3, "ncb": 0, "ops": [{"gate": name, "targets": qs[nc:], "controls": qs[:nc], "arg": arg, "np_targets": True}]}))
    # a parameterless gate carrying an arg_value (printed without parameter list: fix C10-parameterless-gate-arg)
    for name in PARAMLESS:
        nc, nt = EXPORTABLE[name]
        qs = rng.sample(range(3), nc + nt)
        cases.append(("extra-parameter", {"N": 3, "ncb": 0, "ops": [{"gate": name, "targets": qs[nc:], "controls": qs[:nc],
                                                                    "arg": {"kind": "scalar", "vals": [enc_num(rng.choice([0.3, 2, 0.0]))]}}]}))
    # ... with every container type, non-finite values (dropped, so the export succeeds) and next to gates that keep their parameter
    for name in PARAMLESS:
        nc, nt = EXPORTABLE[name]
        for kind in ("list", "tuple", "array", "scalar")[:ctx.n(2, 4)] if name not in ("CNOT", "SWAP") else ("list", "tuple", "array", "scalar"):
            qs = rng.sample(range(3), nc + nt)
            vals = [enc_num(rng.choice([0.3, 2, 0.0, -1.5, float("inf"), float("nan")])) for _ in range(1 if kind == "scalar" else rng.randint(1, 3))]
            if kind == "array":
                vals = [enc_num(float(dec_num(v))) for v in vals]
            ops = [{"gate": name, "targets": qs[nc:], "controls": qs[:nc], "arg": {"kind": kind, "vals": vals}},
                   {"gate": "RX", "targets": [rng.randrange(3)], "controls": [], "arg": {"kind": "scalar", "vals": [enc_num(0.75)]}}]
            rng.shuffle(ops)
            cases.append(("extra-parameter", {"N": 3, "ncb": 0, "ops": ops}))
    # a name registered in user_gates used by a flagged AND an unflagged gate / next to parameterless gates with an arg_value / user gate
    # that carries an arg_value: `op.name in self.user_gates` decides, whatever the gate object is
    for name in USERLIB_NAMES[:ctx.n(4, 7)] + ["CNOT", "RX", "crx"]:
        k = 2 if name == "CNOT" else 1
        ops = [dict(plain(name, rng.sample(range(3), k)), user=True), plain(name, rng.sample(range(3), k)),
               {"gate": "SWAP", "targets": [0, 2], "controls": [], "arg": {"kind": "scalar", "vals": [enc_num(0.3)]}}]
        rng.shuffle(ops)
        cases.append(("user-gate-shared-name", {"N": 3, "ncb": 0, "ops": ops}))
    # two (or three) gates of one kind whose angles agree to 5-8 significant digits, large and small: every one keeps its own angle
    # through export and re-import (definition-emitting CRX / CRY, and CRZ / RX / RZ for comparison)
    NEAR = [(1234567.0, 1234568.5), (0.5, 0.5000001), (123456.7, 123456.8), (1.2345678e-7, 1.2345679e-7), (3.1415926, 3.1415927),
            (98765.4321, 98765.4329), (2.00001, 2.00002), (1e6 + 0.25, 1e6 + 0.75)]
    for name in ["CRX", "CRY", "CRZ", "RX", "RZ"]:
        nc, nt = EXPORTABLE[name]
        for a, b in NEAR[:ctx.n(5, 8)] if name not in ("CRX", "CRY") else NEAR:
            ops = []
            for v in (a, b, -a)[:rng.choice([2, 2, 3])]:
                qs = rng.sample(range(3), nc + nt)
                ops.append({"gate": name, "targets": qs[nc:], "controls": qs[:nc], "arg": {"kind": "scalar", "vals": [enc_num(v)]}})
            if rng.random() < 0.5:
                ops.insert(1, plain("SNOT", [rng.randrange(3)]))
            cases.append(("near-equal-angles", {"N": 3, "ncb": 0, "ops": ops}))
    for _ in range(n_ok):
        cases.append(("random", gen_circuit(rng)))
    for i in range(n_bad):
        cases.append(("bad", gen_circuit(rng, ["nonexportable", "classical_control", "nonfinite", "nostore"][i % 4])))
    return cases


def correspond(ctx):
    corr = Corr(rule="circuits of 1-4 qubits over the 19 exportable gates (each gate x 19 special parameter values: 0, 0.0, negative, 1e-9, "
                     "1e12, 1e16, 5e-324, ints; QASMU with list / tuple / ndarray parameters, numpy scalars) + random circuits with "
                     "measurements + every exportable gate with 1-3 classical controls and every control value 0..2**k-1 / default (must be refused) + "
                     "circuits with one non-exportable gate / classical control / inf / nan / measurement without store + user gates named like library gates "
                     "(case variants and exact names, a registered name shared by several gates: refused) + ndarray targets + arg_value (scalar / list / tuple / ndarray, "
                     "finite or not) on parameterless gates - all handed UNPROJECTED to the model's export2 - + pairs of near-equal angles; "
                     "non-trivial = has a parameter, a definition or a measurement")
    cases = _stream(ctx, ctx.n(220, 2500), ctx.n(60, 500))
    circs = [c for _, c in cases]
    models = run_model(ctx.tier, circs)
    model_text_of = {json.dumps(c, sort_keys=True): (None if m is None else m[0]) for c, m in zip(circs, models)}
    for (kind, c), m in zip(cases, models):
        key = json.dumps(c, sort_keys=True)
        nontriv = any(("meas" in o) or o["arg"]["vals"] or o["gate"] in ("CRX", "CRY", "SQRTNOT", "CS", "CT", "SWAP") for o in c["ops"])
        corr.count(key, nontrivial=nontriv, sample=dict(circuit=c) if ctx.rng.random() < 0.01 else None)
        corr.tally(kind)
        for o in c["ops"]:
            corr.tally("gate:" + o["gate"] if "gate" in o else "measurement")
            if "gate" in o and o["arg"]["kind"] not in ("none", "scalar"):
                corr.tally("container:" + o["arg"]["kind"])
        qc, text, err = real_export(c)
        inp = dict(circuit=c)
        if qc is None:
            corr.disagree(inp, err, "a circuit", "the generated circuit cannot be built")
            continue
        if (text is None) != (m is None):
            corr.disagree(inp, "refused: " + str(err) if text is None else text[-200:], "refused" if m is None else m[0][-200:],
                          "export accepted/refused differs between model and implementation")
        elif text is not None:
            mtext, (lexed, wf, nops), (g_shapes, g_wf, g_u) = m
            # the guards of export_valid hold on every generated circuit (so the theorem speaks about these cases): the repr(float)
            # of every parameter has the shape the oracle promises, and the circuits the generator builds are well-formed
            if not g_shapes:
                corr.disagree(inp, [v[1] for o in c["ops"] if "gate" in o for v in o["arg"]["vals"] if v[0] == "f"], "digits[.digits][e+-digits]",
                              "repr(float) of a parameter is outside the shapes the model's oracle assumes (shapes_ok)")
            elif not (g_wf and g_u):
                corr.disagree(inp, dict(circ_wf=g_wf, u_ok=g_u), "a well-formed circuit",
                              "a generated circuit violates circ_wf / u_ok, the explicit guards of export_valid")
            if mtext != text:
                corr.disagree(inp, text.split("\n\n")[-1][-300:], mtext.split("\n\n")[-1][-300:], "exported text differs")
            elif any("meas" in o for o in c["ops"]):
                if lexed:      # export_valid_measure_refuted: the strict reader must reject the unterminated measure statement
                    corr.disagree(inp, text.split("\n\n")[-1][-300:], dict(strict_parse=lexed),
                                  "Spec/QasmStrict.v accepts a measure statement without ';'")
            elif not (lexed and wf) or nops != len(c["ops"]):
                corr.disagree(inp, text.split("\n\n")[-1][-300:], dict(strict_parse=lexed, wf=wf, operations=nops),
                              "Spec/QasmStrict.v does not accept the model's own export (export_valid fails on this case)")
        r = oracle(c, qc, text, err, ctx.rng)
        if r is not None:
            corr.oracle_fail(inp, r[0], r[1], r[2])
    # save_qasm / print_qasm: single saves of every third circuit, then histories of 2-3 saves to one path
    pool = [c for k, c in cases if k in ("random", "sweep", "corpus")]
    hists = [[c] for c in circs[::3]] + [gen_history(ctx.rng, pool) for _ in range(ctx.n(60, 500))]
    hists += [r.get("input", r)["history"] for r in corpus() if "history" in r.get("input", r)]
    for h in hists:
        corr.count("history:" + json.dumps(h, sort_keys=True), nontrivial=len(h) > 1, sample=None)
        corr.tally("save/print history of length %d" % len(h))
        f = check_history(h, ctx.rng, [model_text_of.get(json.dumps(c, sort_keys=True)) for c in h])
        if f is not None:
            corr.oracle_fail(f["input"], f["observed"], f["expected"], f["what"])
    corr.extra["translated"] = {k: (len(v) if hasattr(v, "__len__") else v) for k, v in getattr(ctx, "gen", {}).items()}
    return corr


def search(ctx, broken):
    out = []
    for rec in corpus():
        inp = rec.get("input", rec)
        f = check_history(inp["history"]) if "history" in inp else check_circuit(inp["circuit"])
        if f:
            out.append(f)
    rng = ctx.rng
    pool = [gen_circuit(rng) for _ in range(40)]
    for _ in range(60):
        f = check_history(gen_history(rng, pool), rng)
        if f:
            out.append(f)
            break
    for kind, c in _stream(ctx, 600, 80):
        if len(out) >= 8:
            break
        f = check_circuit(c, rng)
        if f:
            out.append(f)
    return out
